/-
  C19 (d) — lemmas about the cmp_using model: supplied functions, NotImplemented on a type mismatch,
  total_ordering's derivations agree with the order the supplied functions come from.
-/
import AttrsModel.Spec.C19Cmp

namespace Attrs.C19.Cmp

def Op.isOrd : Op → Bool
  | .eq | .ne => false
  | _ => true

/-- two cmp_using objects whose payload types match, or no match is required: the function gets called -/
def Comparable0 (c : Case) (x y : Opd) : Prop :=
  x.cmpObj = true ∧ y.cmpObj = true ∧ (c.requireSameType = true → x.ty = y.ty)

/-- … and the supplied functions are defined on the two payloads (total functions, or payloads of one class) -/
def Comparable (c : Case) (x y : Opd) : Prop :=
  Comparable0 c x y ∧ (c.partialFns = true → x.ty = y.ty)

theorem method_comparable0 (c : Case) (r : Rel) (x y : Opd) (h : Comparable0 c x y) :
    method c r x y = fnRes c r x y := by
  obtain ⟨_, hy, ht⟩ := h
  by_cases hr : c.requireSameType = true
  · simp [method, hr, hy, ht hr]
  · simp [method, hr, hy]

theorem methodLog_comparable0 (c : Case) (op : Op) (x y : Opd) (h : Comparable0 c x y) :
    methodLog c op x y = [callEv op x y] := by
  obtain ⟨_, hy, ht⟩ := h
  by_cases hr : c.requireSameType = true
  · simp [methodLog, hr, hy, ht hr]
  · simp [methodLog, hr, hy]

theorem fnRes_total (c : Case) (r : Rel) (x y : Opd) (h : c.partialFns = true → x.ty = y.ty) :
    fnRes c r x y = r.eval x.val y.val := by
  by_cases hp : c.partialFns = true
  · simp [fnRes, hp, h hp]
  · simp [fnRes, hp]

theorem method_comparable (c : Case) (r : Rel) (x y : Opd) (h : Comparable c x y) :
    method c r x y = r.eval x.val y.val := by
  rw [method_comparable0 c r x y h.1, fnRes_total c r x y h.2]

/-- same type required, payload types differ: every method built by `_make_operator` answers NotImplemented -/
theorem method_mismatch (c : Case) (r : Rel) (x y : Opd) (hr : c.requireSameType = true)
    (hy : y.cmpObj = true) (ht : y.ty ≠ x.ty) : method c r x y = .NI := by
  simp [method, hr, hy, ht]

/-- the arithmetic content of functools' twelve `_x_from_y` bodies -/
theorem convert_correct (rt op : Op) (d : Deriv) (a b : Int) (h : convert rt op = some d) :
    fromRoot d (rt.std.eval a b) (Rel.eq.eval a b) (Rel.ne.eval a b) = op.std.eval a b := by
  rcases Int.lt_trichotomy a b with hlt | heq | hgt
  · have h1 : ¬ b < a := by omega
    have h2 : ¬ a = b := by omega
    have h3 : a ≤ b := by omega
    have h4 : ¬ b ≤ a := by omega
    cases rt <;> cases op <;> simp [convert] at h <;> subst h <;>
      simp [fromRoot, applyDeriv, Rel.eval, Op.std, R.ofBool, hlt, h1, h2, h3, h4]
  · subst heq
    cases rt <;> cases op <;> simp [convert] at h <;> subst h <;>
      simp [fromRoot, applyDeriv, Rel.eval, Op.std, R.ofBool]
  · have h1 : ¬ a < b := by omega
    have h2 : ¬ a = b := by omega
    have h3 : b ≤ a := by omega
    have h4 : ¬ a ≤ b := by omega
    cases rt <;> cases op <;> simp [convert] at h <;> subst h <;>
      simp [fromRoot, applyDeriv, Rel.eval, Op.std, R.ofBool, hgt, h1, h2, h3, h4]

theorem slot_std_of_consistent (c : Case) (hc : consistent c = true) (op : Op) (r : Rel)
    (h : slot c op = some r) : r = op.std := by
  simp only [consistent, List.all_eq_true] at hc
  have := hc op (by cases op <;> simp [Op.all])
  simp only [h] at this
  simpa using this

theorem root_spec (c : Case) (rt : Op) (h : root c = some rt) :
    rt.isOrd = true ∧ (slot c rt).isSome = true := by
  simp only [root] at h
  split at h
  · cases h; simp_all [Op.isOrd, slot]
  · split at h
    · cases h; simp_all [Op.isOrd, slot]
    · split at h
      · cases h; simp_all [Op.isOrd, slot]
      · split at h
        · cases h; simp_all [Op.isOrd, slot]
        · cases h

theorem root_isSome (c : Case) (h : 0 < numOrd c) : (root c).isSome = true := by
  simp only [root]
  cases h1 : c.lt <;> cases h2 : c.le <;> cases h3 : c.gt <;> cases h4 : c.ge <;> simp_all [numOrd]

theorem numOrd_lt_four (c : Case) (op : Op) (ho : op.isOrd = true) (h : slot c op = none) : numOrd c < 4 := by
  cases op <;> simp [Op.isOrd] at ho <;> simp only [slot] at h <;>
    cases h1 : c.lt <;> cases h2 : c.le <;> cases h3 : c.gt <;> cases h4 : c.ge <;> simp_all [numOrd]

theorem convert_isSome (rt op : Op) (h1 : rt.isOrd = true) (h2 : op.isOrd = true) (hne : rt ≠ op) :
    (convert rt op).isSome = true := by
  cases rt <;> cases op <;> simp_all [Op.isOrd, convert]

section consistent_order
variable (c : Case) (x y : Opd)

theorem dunderEq_std (he : c.eq = some .eq) (h : Comparable c x y) :
    dunderEq c x y = Rel.eq.eval x.val y.val := by
  simp [dunderEq, he, method_comparable c _ x y h]

theorem R_ofBool_ne_NI (b : Bool) : R.ofBool b ≠ .NI := by cases b <;> simp [R.ofBool]

theorem opEq_std (he : c.eq = some .eq) (h : Comparable c x y) :
    opEq c x y = Rel.eq.eval x.val y.val := by
  simp only [opEq, dunderEq_std c x y he h, Rel.eval]
  cases decide (x.val = y.val) <;> simp [R.ofBool]

theorem dunderNe_std (he : c.eq = some .eq) (h : Comparable c x y) :
    dunderNe c x y = Rel.ne.eval x.val y.val := by
  simp only [dunderNe, he, dunderEq_std c x y he h, Rel.eval]
  by_cases hv : x.val = y.val <;> simp [R.ofBool, R.not, hv]

theorem opNe_std (he : c.eq = some .eq) (h : Comparable c x y) :
    opNe c x y = Rel.ne.eval x.val y.val := by
  simp only [opNe, dunderNe_std c x y he h, Rel.eval]
  by_cases hv : x.val = y.val <;> simp [R.ofBool, hv]

/-- supplied functions from one order, `eq` among them, at least one ordering function: all six methods compute
    that order, whichever of them were derived by `total_ordering` -/
theorem dunder_std (hc : consistent c = true) (he : c.eq.isSome = true) (hn : 0 < numOrd c)
    (h : Comparable c x y) (op : Op) : dunder c op x y = op.std.eval x.val y.val := by
  have he' : c.eq = some .eq := by
    cases hq : c.eq with
    | none => simp [hq] at he
    | some r => rw [slot_std_of_consistent c hc .eq r (by simpa [slot] using hq)]; rfl
  cases hop : op with
  | eq => simpa [dunder, Op.std] using dunderEq_std c x y he' h
  | ne => simpa [dunder, Op.std] using dunderNe_std c x y he' h
  | _ =>
    all_goals
      rw [← hop]
      have ho : op.isOrd = true := by rw [hop]; rfl
      have hd : dunder c op x y = dunderOrd c op x y := by rw [hop]; rfl
      rw [hd]
      simp only [dunderOrd]
      cases hs : slot c op with
      | some r =>
        have hr := slot_std_of_consistent c hc op r hs
        subst hr
        exact method_comparable c _ x y h
      | none =>
        have h4 := numOrd_lt_four c op ho hs
        have hto : totalOrdering c = true := by simp [totalOrdering, hn, h4]
        simp only [hto, if_true]
        have hr := root_isSome c hn
        cases hrt : root c with
        | none => simp [hrt] at hr
        | some rt =>
          obtain ⟨hro, hrs⟩ := root_spec c rt hrt
          cases hsr : slot c rt with
          | none => simp [hsr] at hrs
          | some rr =>
            have hne : rt ≠ op := by
              intro e; rw [e, hs] at hsr; cases hsr
            have hcv := convert_isSome rt op hro ho hne
            cases hcd : convert rt op with
            | none => simp [hcd] at hcv
            | some d =>
              have hrr := slot_std_of_consistent c hc rt rr hsr
              subst hrr
              simp only [hsr, hcd]
              simp only [method_comparable c _ x y h, opEq_std c x y he' h, opNe_std c x y he' h]
              exact convert_correct rt op d x.val y.val hcd

end consistent_order

theorem oper_eq_of_ne_NI (c : Case) (x y : Opd) (h : dunderEq c x y ≠ .NI) : opEq c x y = dunderEq c x y := by
  simp only [opEq] <;> split <;> first | (rename_i h'; exact absurd h' h) | rfl

theorem oper_ne_of_ne_NI (c : Case) (x y : Opd) (h : dunderNe c x y ≠ .NI) : opNe c x y = dunderNe c x y := by
  simp only [opNe] <;> split <;> first | (rename_i h'; exact absurd h' h) | rfl

/-! ### arbitrary (possibly inconsistent) boolean functions: every operator exists and answers with a bool -/

theorem isBool_ofBool (b : Bool) : isBool (R.ofBool b) = true := by cases b <;> rfl

theorem eval_isBool (r : Rel) (h : r ≠ .ni ∧ r ≠ .boom) (a b : Int) : isBool (r.eval a b) = true := by
  cases r <;> first | exact absurd rfl h.1 | exact absurd rfl h.2 | exact isBool_ofBool _ | rfl

theorem isBool_not {r : R} (h : isBool r = true) : isBool r.not = true := by
  cases r <;> simp_all [isBool, R.not]

theorem applyDeriv_isBool (d : Deriv) (b : Bool) (e n : R) (he : isBool e = true) (hn : isBool n = true) :
    isBool (applyDeriv d b e n) = true := by
  cases d <;> cases b <;> simp_all [applyDeriv, isBool, R.ofBool]

theorem fromRoot_isBool (d : Deriv) (r e n : R) (hr : isBool r = true) (he : isBool e = true)
    (hn : isBool n = true) : isBool (fromRoot d r e n) = true := by
  cases r <;> simp_all [fromRoot, isBool] <;> exact applyDeriv_isBool d _ e n he hn

theorem dunder_isBool (c : Case) (x y : Opd) (h : Comparable c x y) (req : Rel) (he : c.eq = some req)
    (hn : 0 < numOrd c) (hall : ∀ op r, slot c op = some r → r ≠ .ni ∧ r ≠ .boom) (op : Op) :
    isBool (dunder c op x y) = true := by
  have hreq : req ≠ .ni ∧ req ≠ .boom := hall .eq req (by simpa [slot] using he)
  have hE : dunderEq c x y = req.eval x.val y.val := by
    simp [dunderEq, he, method_comparable c _ x y h]
  have hEb : isBool (dunderEq c x y) = true := by rw [hE]; exact eval_isBool req hreq _ _
  have hN : dunderNe c x y = (req.eval x.val y.val).not := by
    simp only [dunderNe, he, hE]
    have := eval_isBool req hreq x.val y.val
    cases hv : req.eval x.val y.val <;> simp_all [isBool]
  have hNb : isBool (dunderNe c x y) = true := by rw [hN]; exact isBool_not (eval_isBool req hreq _ _)
  have hOE : isBool (opEq c x y) = true := by
    have : opEq c x y = dunderEq c x y := by
      have := oper_eq_of_ne_NI c x y
      exact this (fun e => by rw [e] at hEb; simp [isBool] at hEb)
    rw [this]; exact hEb
  have hON : isBool (opNe c x y) = true := by
    have : opNe c x y = dunderNe c x y := by
      have := oper_ne_of_ne_NI c x y
      exact this (fun e => by rw [e] at hNb; simp [isBool] at hNb)
    rw [this]; exact hNb
  cases hop : op with
  | eq => exact hEb
  | ne => exact hNb
  | _ =>
    all_goals
      rw [← hop]
      have ho : op.isOrd = true := by rw [hop]; rfl
      have hd : dunder c op x y = dunderOrd c op x y := by rw [hop]; rfl
      rw [hd]
      simp only [dunderOrd]
      cases hs : slot c op with
      | some r =>
        simp only [method_comparable c r x y h]
        exact eval_isBool r (hall op r hs) _ _
      | none =>
        have h4 := numOrd_lt_four c op ho hs
        have hto : totalOrdering c = true := by simp [totalOrdering, hn, h4]
        simp only [hto, if_true]
        have hr := root_isSome c hn
        cases hrt : root c with
        | none => simp [hrt] at hr
        | some rt =>
          obtain ⟨hro, hrs⟩ := root_spec c rt hrt
          cases hsr : slot c rt with
          | none => simp [hsr] at hrs
          | some rr =>
            have hne : rt ≠ op := by
              intro e; rw [e, hs] at hsr; cases hsr
            have hcv := convert_isSome rt op hro ho hne
            cases hcd : convert rt op with
            | none => simp [hcd] at hcv
            | some d =>
              simp only [hsr, hcd]
              simp only [method_comparable c rr x y h]
              exact fromRoot_isBool d _ _ _ (eval_isBool rr (hall rt rr hsr) _ _) hOE hON

/-- type mismatch under require_same_type: NotImplemented from all six methods (supplied, shared `__ne__`,
    derived, or `object`'s) -/
theorem ne_id_of_ne_ty {x y : Opd} (ht : y.ty ≠ x.ty) (hid : x.id = y.id → x = y) : x.id ≠ y.id :=
  fun e => ht (by rw [hid e])

theorem dunder_mismatch (c : Case) (x y : Opd) (hr : c.requireSameType = true)
    (hy : y.cmpObj = true) (ht : y.ty ≠ x.ty) (hid : x.id ≠ y.id) (op : Op) : dunder c op x y = .NI := by
  have hm : ∀ r, method c r x y = .NI := fun r => method_mismatch c r x y hr hy ht
  have heq : dunderEq c x y = .NI := by
    simp only [dunderEq]; cases c.eq <;> simp [hm, hid]
  cases op with
  | eq => exact heq
  | ne => simp only [dunder, dunderNe, heq]; cases c.eq <;> simp [hid]
  | _ =>
    all_goals
      simp only [dunder, dunderOrd]
      split
      · exact hm _
      · split
        · split
          · rfl
          · split
            · simp [hm, fromRoot]
            · rfl
        · rfl

/-! ### operators -/

theorem dunder_supplied (c : Case) (op : Op) (r : Rel) (x y : Opd) (h : slot c op = some r) :
    dunder c op x y = method c r x y := by
  cases op with
  | eq => simp only [slot] at h; simp [dunder, dunderEq, h]
  | ne => simp [slot] at h
  | _ => all_goals simp [dunder, dunderOrd, h]

/-- a method that does not answer NotImplemented decides the operator -/
theorem oper_of_ne_NI (c : Case) (op : Op) (x y : Opd) (h : dunder c op x y ≠ .NI) :
    oper c op x y = dunder c op x y := by
  cases op <;> simp only [dunder] at h <;> simp only [oper, opEq, opNe, dunder] <;> split <;>
    first
    | (rename_i h'; exact absurd h' h)
    | rfl

theorem oper_mismatch (c : Case) (x y : Opd) (hr : c.requireSameType = true)
    (hx : x.cmpObj = true) (hy : y.cmpObj = true) (ht : y.ty ≠ x.ty) (hid : x.id ≠ y.id) (op : Op) :
    oper c op x y = (match op with | .eq => .F | .ne => .T | _ => .typeError) := by
  have h1 := dunder_mismatch c x y hr hy ht hid
  have h2 := dunder_mismatch c y x hr hx (fun e => ht e.symm) (fun e => hid e.symm)
  cases op with
  | eq =>
    have a := h1 .eq; have b := h2 .eq
    simp only [dunder] at a b
    simp [oper, opEq, a, b, hy, hid, R.ofBool]
  | ne =>
    have a := h1 .ne; have b := h2 .ne
    simp only [dunder] at a b
    simp [oper, opNe, a, b, hy, hid, R.ofBool]
  | lt =>
    have a := h1 .lt; have b := h2 .gt
    simp only [dunder] at a b
    simp [oper, Op.swap, a, b, hy]
  | le =>
    have a := h1 .le; have b := h2 .ge
    simp only [dunder] at a b
    simp [oper, Op.swap, a, b, hy]
  | gt =>
    have a := h1 .gt; have b := h2 .lt
    simp only [dunder] at a b
    simp [oper, Op.swap, a, b, hy]
  | ge =>
    have a := h1 .ge; have b := h2 .le
    simp only [dunder] at a b
    simp [oper, Op.swap, a, b, hy]

theorem at_map (f : Op → R) (op : Op) : at' (Op.all.map f) op = f op := by
  cases op <;> rfl

theorem isBool_ne_NI {r : R} (h : isBool r = true) : r ≠ .NI := by
  cases r <;> simp_all [isBool]

theorem eval_std_ne_NI (op : Op) (a b : Int) : op.std.eval a b ≠ .NI := by
  cases op <;> simp [Op.std, Rel.eval] <;> exact R_ofBool_ne_NI _

@[simp] theorem leftOpd_val (c : Case) : (leftOpd c).val = c.a := rfl
@[simp] theorem rightOpd_val (c : Case) : (rightOpd c).val = c.b := by
  simp only [rightOpd]; cases c.rhs <;> rfl

theorem leftOpd_cmp (c : Case) : (leftOpd c).cmpObj = true := rfl

theorem comparable0_of_spec (c : Case) (hf : c.rhs ≠ .foreign) (h : comparable c = true) :
    Comparable0 c (leftOpd c) (rightOpd c) := by
  cases hr : c.rhs <;> simp_all [comparable, Comparable0, leftOpd, rightOpd]

theorem comparable_of_spec (c : Case) (hf : c.rhs ≠ .foreign) (h : comparable c = true)
    (hp : fnsRaise c = false) : Comparable c (leftOpd c) (rightOpd c) := by
  refine ⟨comparable0_of_spec c hf h, ?_⟩
  cases hr : c.rhs <;> simp_all [fnsRaise, leftOpd, rightOpd]

theorem fnRes_expected (c : Case) (r : Rel) : fnRes c r (leftOpd c) (rightOpd c) = expectedFn c r := by
  have ht : ((rightOpd c).ty != (leftOpd c).ty) = (c.rhs != .same && c.rhs != .identical) := by
    simp only [rightOpd, leftOpd]; cases c.rhs <;> rfl
  simp only [fnRes, expectedFn, fnsRaise, leftOpd_val, rightOpd_val, ht, Bool.and_assoc]

theorem callEv_expected (c : Case) (op : Op) : callEv op (leftOpd c) (rightOpd c) = expectedCall c op := by
  simp [callEv, expectedCall]

theorem dunderLog_supplied (c : Case) (op : Op) (r : Rel) (x y : Opd) (h : slot c op = some r) :
    dunderLog c op x y = methodLog c op x y := by
  cases op with
  | eq => simp only [slot] at h; simp [dunderLog, dunderEqLog, h]
  | ne => simp [slot] at h
  | _ => all_goals simp [dunderLog, dunderOrdLog, h]

/-! ### mismatch: no supplied function is ever called -/

theorem methodLog_mismatch (c : Case) (op : Op) (x y : Opd) (hr : c.requireSameType = true)
    (ht : y.ty ≠ x.ty) : methodLog c op x y = [] := by
  by_cases hy : y.cmpObj = true <;> simp [methodLog, hr, hy, ht]

theorem dunderLog_mismatch (c : Case) (x y : Opd) (hr : c.requireSameType = true)
    (hy : y.cmpObj = true) (ht : y.ty ≠ x.ty) (op : Op) : dunderLog c op x y = [] := by
  have hl : ∀ o, methodLog c o x y = [] := fun o => methodLog_mismatch c o x y hr ht
  have hm : ∀ r, method c r x y = .NI := fun r => method_mismatch c r x y hr hy ht
  have heq : dunderEqLog c x y = [] := by
    simp only [dunderEqLog]; cases c.eq <;> simp [hl]
  cases op with
  | eq => exact heq
  | ne => exact heq
  | _ =>
    all_goals
      simp only [dunderLog, dunderOrdLog]
      split
      · exact hl _
      · split
        · split
          · rfl
          · split
            · simp [hl, hm]
            · rfl
        · rfl

theorem operLog_mismatch (c : Case) (x y : Opd) (hr : c.requireSameType = true)
    (hx : x.cmpObj = true) (hy : y.cmpObj = true) (ht : y.ty ≠ x.ty) (hid : x.id ≠ y.id) (op : Op) :
    operLog c op x y = [] := by
  have h1 := dunderLog_mismatch c x y hr hy ht
  have h2 := dunderLog_mismatch c y x hr hx (fun e => ht e.symm)
  have d1 := dunder_mismatch c x y hr hy ht hid
  cases op with
  | eq =>
    have a := h1 .eq; have b := h2 .eq; have d := d1 .eq
    simp only [dunderLog, dunder] at a b d
    simp [operLog, opEqLog, a, b, d, hy]
  | ne =>
    have a := h1 .ne; have b := h2 .ne; have d := d1 .ne
    simp only [dunderLog, dunder] at a b d
    simp [operLog, opNeLog, a, b, d, hy]
  | lt =>
    have a := h1 .lt; have b := h2 .gt; have d := d1 .lt
    simp only [dunderLog, dunder] at a b d
    simp [operLog, Op.swap, a, b, d, hy]
  | le =>
    have a := h1 .le; have b := h2 .ge; have d := d1 .le
    simp only [dunderLog, dunder] at a b d
    simp [operLog, Op.swap, a, b, d, hy]
  | gt =>
    have a := h1 .gt; have b := h2 .lt; have d := d1 .gt
    simp only [dunderLog, dunder] at a b d
    simp [operLog, Op.swap, a, b, d, hy]
  | ge =>
    have a := h1 .ge; have b := h2 .le; have d := d1 .ge
    simp only [dunderLog, dunder] at a b d
    simp [operLog, Op.swap, a, b, d, hy]

theorem atL_map (f : Op → List String) (op : Op) : atL (Op.all.map f) op = f op := by
  cases op <;> rfl

theorem model_meets_spec (c : Case) : spec c (model c) = true := by
  by_cases hcf : ctorFails c = true
  · have : (0 < numOrd c && numOrd c < 4 && c.eq.isNone) = true := hcf
    simp [spec, model, hcf, this]
  · have hcf' : ctorFails c = false := by simpa using hcf
    have h' : (0 < numOrd c && numOrd c < 4 && c.eq.isNone) = false := hcf'
    simp only [spec, model, hcf', h', Bool.false_eq_true, if_false, List.length_map, Op.all, List.length_cons,
      List.length_nil, beq_self_eq_true, Bool.true_and]
    change (match c.rhs with | .foreign => true | _ => _) = true
    cases hrhs : c.rhs with
    | foreign => rfl
    | _ =>
      all_goals
        have hf : c.rhs ≠ .foreign := by rw [hrhs]; simp
        have hat := at_map
        have hatL := atL_map
        simp only [Op.all] at hat hatL
        by_cases hcmp : comparable c = true
        · have hC0 := comparable0_of_spec c hf hcmp
          simp only [hcmp, if_true, Bool.and_eq_true, List.all_eq_true, decide_eq_true_eq]
          refine ⟨⟨?_, ?_⟩, ?_⟩
          · intro op _
            cases hs : slot c op with
            | none => rfl
            | some r =>
              have hd := dunder_supplied c op r (leftOpd c) (rightOpd c) hs
              rw [method_comparable0 c r _ _ hC0, fnRes_expected] at hd
              have hl := dunderLog_supplied c op r (leftOpd c) (rightOpd c) hs
              rw [methodLog_comparable0 c op _ _ hC0, callEv_expected] at hl
              simp only [hat, hatL, Bool.and_eq_true, beq_iff_eq, decide_eq_true_eq]
              refine ⟨⟨hd, hl⟩, ?_⟩
              intro hb
              rw [oper_of_ne_NI c op _ _ (by rw [hd]; exact isBool_ne_NI hb), hd]
          · cases he : c.eq with
            | none => rfl
            | some r =>
              simp only [hat, decide_eq_true_eq, beq_iff_eq]
              intro hb
              have hd := dunder_supplied c .eq r (leftOpd c) (rightOpd c) (by simpa [slot] using he)
              rw [method_comparable0 c r _ _ hC0, fnRes_expected] at hd
              simp only [dunder] at hd
              simp only [dunder, dunderNe, he, hd]
              revert hb
              cases expectedFn c r <;> simp [isBool, R.not]
          · intro ⟨⟨⟨hc, he⟩, hn⟩, hp⟩ op _
            have hC := comparable_of_spec c hf hcmp (by simpa using hp)
            have hd := dunder_std c _ _ hc he (by simpa using hn) hC op
            rw [leftOpd_val, rightOpd_val] at hd
            simp only [hat, beq_iff_eq]
            refine ⟨hd, ?_⟩
            rw [oper_of_ne_NI c op _ _ (by rw [hd]; exact eval_std_ne_NI _ _ _), hd]
        · have hcmp' : comparable c = false := by simpa using hcmp
          have hr : c.requireSameType = true := by
            cases hq : c.rhs <;> simp_all [comparable]
          have hy : (rightOpd c).cmpObj = true := by
            cases hq : c.rhs <;> simp_all [rightOpd]
          have ht : (rightOpd c).ty ≠ (leftOpd c).ty := by
            cases hq : c.rhs <;> simp_all [rightOpd, leftOpd, comparable]
          have hid : (leftOpd c).id ≠ (rightOpd c).id := by
            cases hq : c.rhs <;> simp_all [rightOpd, leftOpd, comparable]
          have hm := dunder_mismatch c (leftOpd c) (rightOpd c) hr hy ht hid
          have ho := oper_mismatch c (leftOpd c) (rightOpd c) hr rfl hy ht hid
          have hl1 := dunderLog_mismatch c (leftOpd c) (rightOpd c) hr hy ht
          have hl2 := operLog_mismatch c (leftOpd c) (rightOpd c) hr rfl hy ht hid
          simp only [hcmp', Bool.false_eq_true, if_false, hat, hatL, hm, ho, hl1, hl2, beq_self_eq_true,
            List.all_cons, List.all_nil, Bool.and_true, Bool.and_eq_true, decide_eq_true_eq]
          simp

end Attrs.C19.Cmp
