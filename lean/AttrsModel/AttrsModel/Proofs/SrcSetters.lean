/-
  T1b: `setters.validate`, `setters.convert`, `setters.frozen` as translated from /repo's source on this run.
-/
import AttrsModel.Generated.Funcs

namespace Attrs.Src
open Attrs.Py

/-- `setters.validate`: returns the new value unchanged; calls the field's validator — once, with
    `(instance, attrib, new_value)` — iff the global switch is not False and the field has a validator -/
theorem setters_validate_spec (env : Env) (ext : Ext) (inst attrib nv : PV) (run : Bool) (k : Nat)
    (hrun : env "_config._run_validators" = vBool run) :
    (ext "getattr" [attrib, vStr "validator"] = vFn k →
      Gen.setters_validate env ext inst attrib nv [] =
        .ok (nv, if run then [Eff.mk "call" [vFn k, inst, attrib, nv]] else [])) ∧
    (ext "getattr" [attrib, vStr "validator"] = vNone →
      Gen.setters_validate env ext inst attrib nv [] = .ok (nv, [])) := by
  constructor <;> intro hv <;> unfold Gen.setters_validate <;> simp only [hrun, hv] <;> cases run <;> rfl

/-- `setters.convert`: the field's converter applied to the new value — with `(value, instance, attrib)` for a
    `Converter` object, `(value)` otherwise — and the value itself when the field has no converter -/
theorem setters_convert_spec (env : Env) (ext : Ext) (inst attrib nv : PV) (k : Nat) (isConv : Bool)
    (hc : ext "isinstance" [vFn k, env "Converter"] = vBool isConv) :
    (ext "getattr" [attrib, vStr "converter"] = vFn k →
      Gen.setters_convert env ext inst attrib nv =
        .ok (if isConv then ext "call" [vFn k, nv, inst, attrib] else ext "call" [vFn k, nv])) ∧
    (ext "getattr" [attrib, vStr "converter"] = vNone →
      Gen.setters_convert env ext inst attrib nv = .ok nv) := by
  constructor <;> intro hv <;> unfold Gen.setters_convert <;> simp only [hv, hc] <;> cases isConv <;> rfl

/-- `setters.frozen` refuses every assignment -/
theorem setters_frozen_spec (env : Env) (ext : Ext) (a b c : PV) :
    Gen.setters_frozen env ext a b c = .error (.other "FrozenAttributeError") := rfl

end Attrs.Src
