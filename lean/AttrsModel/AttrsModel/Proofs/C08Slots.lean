/-
  C08 — slot names: which names get a slot, re-used base slots, one slot per own field, `__weakref__`,
  `__dict__`.
-/
import AttrsModel.Proofs.C08Kept

namespace Attrs.C08

theorem existingSlotFrom_isSome (n : String) (l : List Base) (i : Nat) :
    (existingSlotFrom n l i).isSome = l.any (baseHasSlot n) := by
  induction l generalizing i with
  | nil => rfl
  | cons b rest ih =>
    simp only [existingSlotFrom, List.any_cons]
    have := ih (i + 1)
    cases h : existingSlotFrom n rest (i + 1) with
    | some j => rw [h] at this; simp at this; simp [this]
    | none =>
      rw [h] at this
      have hr : rest.any (baseHasSlot n) = false := by simpa using this.symm
      cases hb : baseHasSlot n b <;> simp [hr]

theorem existingSlot_isSome (mro : List Base) (n : String) :
    (existingSlot mro n).isSome = mro.any (baseHasSlot n) := existingSlotFrom_isSome n mro 0

/-- the class whose descriptor is re-used declares the slot, and no class farther along the MRO does -/
theorem existingSlotFrom_sound (n : String) (l : List Base) (i j : Nat) (h : existingSlotFrom n l i = some j) :
    i ≤ j ∧ (∃ b, l[j - i]? = some b ∧ baseHasSlot n b = true) ∧
    ∀ m b, j - i < m → l[m]? = some b → baseHasSlot n b = false := by
  induction l generalizing i with
  | nil => simp [existingSlotFrom] at h
  | cons b rest ih =>
    simp only [existingSlotFrom] at h
    cases hr : existingSlotFrom n rest (i + 1) with
    | some j' =>
      rw [hr] at h
      simp at h
      subst h
      obtain ⟨hle, ⟨b', hb', hs⟩, hfar⟩ := ih (i + 1) hr
      refine ⟨by omega, ⟨b', ?_, hs⟩, ?_⟩
      · have : j' - i = (j' - (i + 1)) + 1 := by omega
        rw [this]; simpa using hb'
      · intro m b2 hm hb2
        cases m with
        | zero => omega
        | succ m' =>
          have : j' - (i + 1) < m' := by omega
          exact hfar m' b2 this (by simpa using hb2)
    | none =>
      rw [hr] at h
      simp only at h
      split at h
      · rename_i hb
        simp at h
        subst h
        refine ⟨Nat.le_refl _, ⟨b, by simp, hb⟩, ?_⟩
        intro m b2 hm hb2
        cases m with
        | zero => omega
        | succ m' =>
          have hnone : (existingSlotFrom n rest (i + 1)).isSome = false := by rw [hr]; rfl
          rw [existingSlotFrom_isSome] at hnone
          have hb2' : rest[m']? = some b2 := by simpa using hb2
          have hmem : b2 ∈ rest := List.mem_of_getElem? hb2'
          exact (List.any_eq_false.1 hnone) b2 hmem |> fun h => by simpa using h
      · cases h

/-- **C08_slots_exact** (membership form): a name is in `__slots__` iff it is an own field, the added
    `__weakref__` or a cached property that is neither an inherited field nor a slot of a base — or the hash
    cache field of a caching class. -/
theorem mem_slotNames_iff (c : Case) (n : String) :
    n ∈ slotNames c ↔
      ((n ∈ c.own ∨ (n = "__weakref__" ∧ addsWeakref c = true) ∨ n ∈ cpropNames c) ∧
        c.inherited.contains n = false ∧ c.mro.any (baseHasSlot n) = false) ∨
      (n = Generated.hashCacheField ∧ c.cacheHash = true) := by
  constructor
  · intro h
    unfold slotNames at h
    rcases List.mem_append.1 h with h | h
    · obtain ⟨h0, he⟩ := List.mem_filter.1 h
      obtain ⟨hsrc, hinh⟩ := mem_slotNames0 c n h0
      refine Or.inl ⟨hsrc, hinh, ?_⟩
      rw [← existingSlot_isSome]
      simpa using he
    · split at h
      · rename_i hc; simp at h; exact Or.inr ⟨h, hc⟩
      · cases h
  · rintro (⟨hsrc, hinh, hb⟩ | ⟨rfl, hc⟩)
    · unfold slotNames
      apply List.mem_append_left
      apply List.mem_filter.2
      refine ⟨?_, ?_⟩
      · unfold slotNames0
        apply List.mem_filter.2
        refine ⟨?_, by rw [hinh]; rfl⟩
        unfold names2 names1 attrNames
        rcases hsrc with h | h | h
        · exact List.mem_append_left _ (List.mem_append_left _ (List.mem_append_right _ h))
        · apply List.mem_append_left; apply List.mem_append_right
          rw [h.2]; simp [h.1]
        · apply List.mem_append_right
          have hne : (cachedProps c).isEmpty = false := by
            unfold cpropNames at h
            cases hcp : cachedProps c with
            | nil => rw [hcp] at h; cases h
            | cons _ _ => rfl
          rw [hne]; exact h
      · have : (existingSlot c.mro n).isSome = false := by rw [existingSlot_isSome]; exact hb
        simpa using this
    · unfold slotNames
      apply List.mem_append_right
      simp [hc]

theorem filter_length_pos {α : Type} (p : α → Bool) (l : List α) (h : l.any p = true) : 1 ≤ (l.filter p).length := by
  obtain ⟨x, hx, hp⟩ := List.any_eq_true.1 h
  exact List.length_pos_of_mem (List.mem_filter.2 ⟨hx, hp⟩)

theorem filter_length_zero {α : Type} (p : α → Bool) (l : List α) (h : l.any p = false) : (l.filter p).length = 0 := by
  have : l.filter p = [] := by
    apply List.filter_eq_nil_iff.2
    intro a ha
    have := List.any_eq_false.1 h a ha
    simpa using this
  rw [this]; rfl

/-- special names are not field names -/
theorem special_not_attr (c : Case) (hn : WFNames c) (n : String) (hs : specialNames.contains n = true) :
    (attrNames c).contains n = false := by
  cases h : (attrNames c).contains n with
  | false => rfl
  | true =>
    have hm : n ∈ attrNames c := by simpa using h
    rw [hn.special n hm] at hs; cases hs

theorem special_not_own (c : Case) (hn : WFNames c) (n : String) (hs : specialNames.contains n = true) : n ∉ c.own := by
  intro h
  have := special_not_attr c hn n hs
  rw [own_in_attrNames c n h] at this; cases this

theorem special_not_inherited (c : Case) (hn : WFNames c) (n : String) (hs : specialNames.contains n = true) :
    c.inherited.contains n = false := by
  have := special_not_attr c hn n hs
  unfold attrNames at this
  cases h : c.inherited.contains n with
  | false => rfl
  | true =>
    have hm : n ∈ c.inherited := by simpa using h
    have : (c.inherited ++ c.own).contains n = true := by simp [hm]
    simp_all

/-- a layout key (`__dict__`, `__weakref__`, `__slots__`) is never a cached-property name -/
theorem layout_not_cprop (c : Case) (hb : WFBody c) (n : String)
    (hl : ["__dict__", "__weakref__", "__slots__"].contains n = true) : n ∉ cpropNames c := by
  intro h
  obtain ⟨f, hf, _⟩ := mem_cpropNames c n h
  have := hb.layoutPlain (n, .cprop f) hf hl
  cases this

end Attrs.C08
