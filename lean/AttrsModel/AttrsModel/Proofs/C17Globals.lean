/-
  C17 — lookup in merged globals, "helpers win", and: every helper name is bound to one object only,
  so every load finds the object its own script meant.
-/
import AttrsModel.Proofs.C17Names

namespace Attrs.C17

/-! ### last-binding-wins lookup -/

theorem lookup_append (a b : Globs) (n : String) :
    lookup (a ++ b) n = (match lookup b n with | some o => some o | none => lookup a n) := by
  induction a with
  | nil => simp only [List.nil_append, lookup]; cases lookup b n <;> rfl
  | cons x a ih =>
    obtain ⟨k, v⟩ := x
    simp only [List.cons_append, lookup, ih]
    cases lookup b n <;> rfl

theorem lookup_mem (g : Globs) (n : String) (o : Obj) (h : lookup g n = some o) : (n, o) ∈ g := by
  induction g with
  | nil => simp [lookup] at h
  | cons x g ih =>
    obtain ⟨k, v⟩ := x
    simp only [lookup] at h
    cases hr : lookup g n with
    | some o' =>
      rw [hr] at h
      simp only [Option.some.injEq] at h
      subst h
      exact List.mem_cons_of_mem _ (ih hr)
    | none =>
      rw [hr] at h
      by_cases hk : (k == n) = true
      · simp only [hk, if_true, Option.some.injEq] at h
        have : k = n := by simpa using hk
        subst this; subst h
        exact List.mem_cons_self
      · simp [hk] at h

theorem lookup_none_of_not_mem (g : Globs) (n : String) (h : ∀ o, (n, o) ∉ g) : lookup g n = none := by
  cases hr : lookup g n with
  | none => rfl
  | some o => exact absurd (lookup_mem g n o hr) (h o)

theorem lookup_isSome_of_mem (g : Globs) (n : String) (o : Obj) (h : (n, o) ∈ g) :
    ∃ o', lookup g n = some o' := by
  induction g with
  | nil => simp at h
  | cons x g ih =>
    obtain ⟨k, v⟩ := x
    simp only [lookup]
    cases hr : lookup g n with
    | some o' => exact ⟨o', rfl⟩
    | none =>
      rcases List.mem_cons.1 h with h | h
      · simp only [Prod.mk.injEq] at h
        obtain ⟨h1, _⟩ := h
        subst h1
        exact ⟨v, by simp⟩
      · obtain ⟨o', ho'⟩ := ih h
        rw [hr] at ho'
        cases ho'

/-- a name that is bound to one object only resolves to it -/
theorem lookup_of_functional (g : Globs) (n : String) (o : Obj) (hm : (n, o) ∈ g)
    (hf : ∀ o', (n, o') ∈ g → o' = o) : lookup g n = some o := by
  obtain ⟨o', ho'⟩ := lookup_isSome_of_mem g n o hm
  rw [ho', hf o' (lookup_mem g n o' ho')]

/-! ### the assembled globals: module first, helper dicts after -/

theorem assemble_eq (c : Case) (modul : Globs) : assemble c modul = modul ++ helperGlobs c := by
  simp [assemble, assembleWith, helperGlobs, evalPart, snippetGlobsWith, initGlobsWith, initPart,
        Generated.c17EvalMergeOrder, Generated.c17InitMergeOrder]

/-- **helpers win**: a name attrs injects resolves, in the globals of the generated methods, to the
    object attrs injected — for every class and whatever the defining module binds (any dict). -/
theorem helpers_win (c : Case) (modul : Globs) (n : String) (o : Obj)
    (h : lookup (helperGlobs c) n = some o) : lookup (assemble c modul) n = some o := by
  rw [assemble_eq, lookup_append, h]

/-- and a name attrs does not inject is looked up in the module alone -/
theorem non_helper_from_module (c : Case) (modul : Globs) (n : String)
    (h : lookup (helperGlobs c) n = none) : lookup (assemble c modul) n = lookup modul n := by
  rw [assemble_eq, lookup_append, h]

/-! ### what the helper dicts contain -/

/-- shape of a helper binding: a fixed name bound to attrs's object of that name, or a name built by
    the scheme of the object's kind from the object's field -/
def Bound (n : String) (o : Obj) : Prop :=
  (o = fixedObj n ∧ n ∈ allFixedNames) ∨ (∃ a, schemeOf o.kind = some a ∧ n = affix a o.arg)

theorem mem_fixedBinds (l : List String) (n : String) (o : Obj) :
    (n, o) ∈ fixedBinds l ↔ n ∈ l ∧ o = fixedObj n := by
  simp only [fixedBinds, List.mem_map, Prod.mk.injEq]
  constructor
  · rintro ⟨s, hs, h1, h2⟩; subst h1; exact ⟨hs, h2.symm⟩
  · rintro ⟨h1, h2⟩; exact ⟨n, h1, rfl, h2.symm⟩

theorem bound_fixed (l : List String) (hl : ∀ s ∈ l, s ∈ allFixedNames) (n : String) (o : Obj)
    (h : (n, o) ∈ fixedBinds l) : Bound n o := by
  obtain ⟨h1, h2⟩ := (mem_fixedBinds l n o).1 h
  exact Or.inl ⟨h2, hl n h1⟩

theorem bound_scheme (k : Kind) (a : String × String) (ha : schemeOf k = some a) (f : String) :
    Bound (affix a f) ⟨k, f⟩ := Or.inr ⟨a, ha, rfl⟩

theorem bound_reprGlobs (c : Case) (n : String) (o : Obj) (h : (n, o) ∈ reprGlobs c) : Bound n o := by
  simp only [reprGlobs, List.mem_append, List.mem_map, List.mem_filter, Prod.mk.injEq] at h
  rcases h with ⟨f, _, h1, h2⟩ | h
  · subst h1; subst h2; exact bound_scheme .reprFn _ rfl _
  · exact bound_fixed _ (by intro s hs; simp [allFixedNames, hs]) n o h

theorem bound_eqGlobs (c : Case) (n : String) (o : Obj) (h : (n, o) ∈ eqGlobs c) : Bound n o := by
  simp only [eqGlobs, List.mem_append, List.mem_map, List.mem_filter, Prod.mk.injEq] at h
  rcases h with h | ⟨f, _, h1, h2⟩
  · exact bound_fixed _ (by intro s hs; simp [allFixedNames, hs]) n o h
  · subst h1; subst h2; exact bound_scheme .key _ rfl _

theorem bound_hashGlobs (c : Case) (n : String) (o : Obj) (h : (n, o) ∈ hashGlobs c) : Bound n o := by
  simp only [hashGlobs, List.mem_append, List.mem_map, List.mem_filter, Prod.mk.injEq] at h
  rcases h with h | ⟨f, _, h1, h2⟩
  · exact bound_fixed _ (by intro s hs; simp [allFixedNames, hs]) n o h
  · subst h1; subst h2
    have : hashKeyName f.name = affix Generated.c17EqKeyAffix f.name := by
      simp [hashKeyName, hashKey_eq_eqKey]
    rw [this]; exact bound_scheme .key _ rfl _

theorem bound_fieldInitBinds (f : Field) (n : String) (o : Obj) (h : (n, o) ∈ fieldInitBinds f) :
    Bound n o := by
  simp only [fieldInitBinds, List.mem_append] at h
  rcases h with h | h
  · split at h
    · simp only [List.mem_singleton, Prod.mk.injEq] at h
      obtain ⟨h1, h2⟩ := h; subst h1; subst h2; exact bound_scheme .converter _ rfl _
    · simp at h
  · split at h
    · simp only [List.mem_singleton, Prod.mk.injEq] at h
      obtain ⟨h1, h2⟩ := h; subst h1; subst h2; exact bound_scheme .factory _ rfl _
    · simp at h

theorem bound_fieldValBinds (f : Field) (n : String) (o : Obj) (h : (n, o) ∈ fieldValBinds f) :
    Bound n o := by
  simp only [fieldValBinds] at h
  split at h
  · simp only [List.mem_cons, Prod.mk.injEq, List.not_mem_nil, or_false] at h
    rcases h with ⟨h1, h2⟩ | ⟨h1, h2⟩
    · subst h1; subst h2; exact bound_scheme .validator _ rfl _
    · subst h1; subst h2; exact bound_scheme .attribute _ rfl _
  · simp at h

theorem bound_config : Bound "_config" (fixedObj "_config") :=
  Or.inl ⟨rfl, by simp [allFixedNames]⟩

theorem bound_initNames (c : Case) (n : String) (o : Obj) (h : (n, o) ∈ initNames c) : Bound n o := by
  simp only [initNames, List.mem_append, List.mem_flatMap] at h
  rcases h with ⟨f, _, h⟩ | h
  · exact bound_fieldInitBinds f n o h
  · split at h
    · simp only [List.mem_cons, Prod.mk.injEq, List.mem_flatMap] at h
      rcases h with ⟨h1, h2⟩ | ⟨f, _, h⟩
      · subst h1; subst h2; exact bound_config
      · exact bound_fieldValBinds f n o h
    · simp at h

theorem bound_initTail (c : Case) (n : String) (o : Obj) (h : (n, o) ∈ initTail c) : Bound n o := by
  simp only [initTail, List.mem_append] at h
  rcases h with h | h <;> split at h <;>
    simp only [List.mem_singleton, Prod.mk.injEq, List.not_mem_nil] at h
  · obtain ⟨h1, h2⟩ := h; subst h1; subst h2; exact Or.inl ⟨rfl, by simp [allFixedNames]⟩
  · obtain ⟨h1, h2⟩ := h; subst h1; subst h2; exact Or.inl ⟨rfl, by simp [allFixedNames]⟩

theorem helperGlobs_eq (c : Case) :
    helperGlobs c =
      (if c.cls.genRepr then reprGlobs c else []) ++ (if eqGenerated c then eqGlobs c else []) ++
      (if hashGenerated c then hashGlobs c else []) ++
      (initNames c ++ fixedBinds Generated.c17InitFixed ++ initTail c) := by
  simp [helperGlobs, snippetGlobsWith, initGlobsWith, initPart, Generated.c17InitMergeOrder]

/-- every helper binding has the shape `Bound` -/
theorem bound_of_mem_helperGlobs (c : Case) (n : String) (o : Obj) (h : (n, o) ∈ helperGlobs c) :
    Bound n o := by
  rw [helperGlobs_eq] at h
  simp only [List.mem_append] at h
  rcases h with ((h | h) | h) | ((h | h) | h)
  · split at h
    · exact bound_reprGlobs c n o h
    · simp at h
  · split at h
    · exact bound_eqGlobs c n o h
    · simp at h
  · split at h
    · exact bound_hashGlobs c n o h
    · simp at h
  · exact bound_initNames c n o h
  · exact bound_fixed _ (by intro s hs; simp [allFixedNames, hs]) n o h
  · exact bound_initTail c n o h

/-! ### helper names are bound once -/

theorem obj_eq_of (o o' : Obj) (h1 : o.kind = o'.kind) (h2 : o.arg = o'.arg) : o = o' := by
  cases o; cases o'; simp_all

/-- **functional bindings**: the schemes cannot be confused with each other or with a fixed name
    (theorems of Proofs/C17Names), so one name is never bound to two different objects — for every
    class, whatever its fields are called. -/
theorem helper_functional (c : Case) (n : String) (o o' : Obj)
    (h1 : (n, o) ∈ helperGlobs c) (h2 : (n, o') ∈ helperGlobs c) : o = o' := by
  have b1 := bound_of_mem_helperGlobs c n o h1
  have b2 := bound_of_mem_helperGlobs c n o' h2
  rcases b1 with ⟨e1, m1⟩ | ⟨a, ha, na⟩ <;> rcases b2 with ⟨e2, m2⟩ | ⟨b, hb, nb⟩
  · rw [e1, e2]
  · exact absurd nb.symm (affix_ne_of_not_fits b n (fixed_fit_no_scheme _ b hb n m1) _)
  · exact absurd na.symm (affix_ne_of_not_fits a n (fixed_fit_no_scheme _ a ha n m2) _)
  · by_cases hk : o.kind = o'.kind
    · rw [hk, hb] at ha
      have hab : b = a := by simpa using ha
      subst hab
      exact obj_eq_of o o' hk (affix_injective b _ _ (na.symm.trans nb))
    · have hinc := schemes_incompatible o.kind o'.kind a b ha hb hk
      exact absurd (na.symm.trans nb) (affix_disjoint a b hinc _ _)

/-- no class has a helper-name clash -/
theorem helperClash_false (c : Case) : helperClash c = false := by
  cases h : helperClash c with
  | false => rfl
  | true =>
    exfalso
    simp only [helperClash, List.any_eq_true, Bool.and_eq_true, beq_iff_eq, bne_iff_ne] at h
    obtain ⟨a, ha, b, hb, hn, hne⟩ := h
    obtain ⟨an, ao⟩ := a
    obtain ⟨bn, bo⟩ := b
    simp only at hn hne
    subst hn
    exact hne (helper_functional c an ao bo ha hb)

/-- a helper binding is what every generated method finds under that name, whatever the module binds -/
theorem resolve_helper (c : Case) (modul : Globs) (n : String) (o : Obj)
    (h : (n, o) ∈ helperGlobs c) : resolveIn (assemble c modul) n = o := by
  have := helpers_win c modul n o
    (lookup_of_functional _ n o h (fun o' h' => helper_functional c n o' o h' h))
  simp [resolveIn, this]

end Attrs.C17
