/-
  C15 — helper lemmas: `firstFail`, the ordering loop, the flattening of `defError` into one check list
  (including `define`'s auto_attribs fallback), and the bridge between the model's conditions (code order)
  and the declarative rules of `Spec/C15`.
-/
import AttrsModel.Spec.C15

namespace Attrs.C15

/-! ### firstFail -/

theorem firstFail_cons (b : Bool) (e : Exc) (l : List (Bool × Exc)) :
    firstFail ((b, e) :: l) = if b then some e else firstFail l := by
  cases b <;> simp [firstFail]

theorem firstFail_append (l₁ l₂ : List (Bool × Exc)) :
    firstFail (l₁ ++ l₂) = match firstFail l₁ with | some e => some e | none => firstFail l₂ := by
  induction l₁ with
  | nil => simp [firstFail]
  | cons p rest ih =>
    rcases p with ⟨b, e⟩
    cases b <;> simp [firstFail, ih]

theorem firstFail_none_iff (l : List (Bool × Exc)) :
    firstFail l = none ↔ ∀ p ∈ l, p.1 = false := by
  induction l with
  | nil => simp [firstFail]
  | cons p rest ih =>
    rcases p with ⟨b, e⟩
    cases b <;> simp [firstFail, ih]

theorem firstFail_some_mem {l : List (Bool × Exc)} {e : Exc} (h : firstFail l = some e) :
    ∃ p ∈ l, p.1 = true ∧ p.2 = e := by
  induction l with
  | nil => simp [firstFail] at h
  | cons p rest ih =>
    rcases p with ⟨b, e'⟩
    cases b
    · simp only [firstFail] at h
      obtain ⟨q, hq, h1, h2⟩ := ih h
      exact ⟨q, List.mem_cons_of_mem _ hq, h1, h2⟩
    · simp only [firstFail, Option.some.injEq] at h
      exact ⟨(true, e'), List.mem_cons_self, rfl, h⟩

theorem firstFail_ne_none_of_mem {l : List (Bool × Exc)} {p : Bool × Exc} (hp : p ∈ l) (h : p.1 = true) :
    firstFail l ≠ none := by
  intro hn
  have := (firstFail_none_iff l).1 hn p hp
  simp [h] at this

/-- the outcome is that of the first failing check: everything before it passed -/
theorem firstFail_some_iff (l : List (Bool × Exc)) (e : Exc) :
    firstFail l = some e ↔
      ∃ pre post, l = pre ++ (true, e) :: post ∧ ∀ q ∈ pre, q.1 = false := by
  induction l with
  | nil => simp [firstFail]
  | cons p rest ih =>
    rcases p with ⟨b, e'⟩
    cases b
    · simp only [firstFail, ih]
      constructor
      · rintro ⟨pre, post, h, hpre⟩
        refine ⟨(false, e') :: pre, post, by simp [h], ?_⟩
        intro q hq
        rcases List.mem_cons.1 hq with rfl | hq
        · rfl
        · exact hpre q hq
      · rintro ⟨pre, post, h, hpre⟩
        cases pre with
        | nil => simp at h
        | cons q pre =>
          simp only [List.cons_append, List.cons.injEq] at h
          exact ⟨pre, post, h.2, fun q hq => hpre q (List.mem_cons_of_mem _ hq)⟩
    · simp only [firstFail, Option.some.injEq]
      constructor
      · intro h; subst h; exact ⟨[], rest, rfl, by simp⟩
      · rintro ⟨pre, post, h, hpre⟩
        cases pre with
        | nil => simp at h; exact h.1
        | cons q pre =>
          simp only [List.cons_append, List.cons.injEq] at h
          have := hpre q List.mem_cons_self
          rw [← h.1] at this
          simp at this

/-! ### the ordering loop -/

theorem orderLoop_eq (had : Bool) (l : List Attr) :
    orderLoop had l =
      ((had && l.any (fun b => b.positional && !b.dflt)) || mandatoryAfterDefault l) := by
  induction l generalizing had with
  | nil => simp [orderLoop, mandatoryAfterDefault]
  | cons a rest ih =>
    simp only [orderLoop, mandatoryAfterDefault, List.any_cons, ih]
    cases hp : a.positional <;> cases hd : a.dflt <;> cases had <;> simp

theorem orderLoop_false (l : List Attr) : orderLoop false l = mandatoryAfterDefault l := by
  simp [orderLoop_eq]

/-- non-positional attributes (kw_only or init=False) are invisible to the loop -/
theorem orderLoop_filter (had : Bool) (l : List Attr) :
    orderLoop had (l.filter Attr.positional) = orderLoop had l := by
  induction l generalizing had with
  | nil => rfl
  | cons a rest ih =>
    cases hp : a.positional
    · simp [hp, orderLoop, ih]
    · simp only [List.filter_cons, hp, orderLoop, if_true, ih]

theorem mad_exists_dflt {l : List Attr} (h : mandatoryAfterDefault l = true) :
    ∃ a ∈ l, a.positional = true ∧ a.dflt = true := by
  induction l with
  | nil => simp [mandatoryAfterDefault] at h
  | cons a rest ih =>
    simp only [mandatoryAfterDefault, Bool.or_eq_true, Bool.and_eq_true] at h
    rcases h with ⟨⟨hp, hd⟩, _⟩ | h
    · exact ⟨a, List.mem_cons_self, hp, hd⟩
    · obtain ⟨b, hb, h1, h2⟩ := ih h
      exact ⟨b, List.mem_cons_of_mem _ hb, h1, h2⟩

/-- the declarative reading: a defaulted positional attribute at some index `i`, a mandatory positional one
    at some later index `j` -/
theorem mad_iff_exists_pair (l : List Attr) :
    mandatoryAfterDefault l = true ↔
      ∃ (i j : Nat) (a b : Attr), i < j ∧ l[i]? = some a ∧ l[j]? = some b ∧
        a.positional = true ∧ a.dflt = true ∧ b.positional = true ∧ b.dflt = false := by
  induction l with
  | nil => simp [mandatoryAfterDefault]
  | cons x rest ih =>
    simp only [mandatoryAfterDefault, Bool.or_eq_true, Bool.and_eq_true, List.any_eq_true,
      Bool.not_eq_true']
    constructor
    · rintro (⟨⟨hp, hd⟩, b, hb, hbp, hbd⟩ | h)
      · obtain ⟨n, hn⟩ := List.getElem?_of_mem hb
        exact ⟨0, n + 1, x, b, Nat.succ_pos n, by simp, by simp [hn], hp, hd, hbp, hbd⟩
      · obtain ⟨i, j, a, b, hij, hi, hj, h1, h2, h3, h4⟩ := ih.1 h
        exact ⟨i + 1, j + 1, a, b, Nat.succ_lt_succ hij, by simp [hi], by simp [hj], h1, h2, h3, h4⟩
    · rintro ⟨i, j, a, b, hij, hi, hj, h1, h2, h3, h4⟩
      cases i with
      | zero =>
        cases j with
        | zero => omega
        | succ j =>
          simp only [List.getElem?_cons_zero, Option.some.injEq] at hi
          simp only [List.getElem?_cons_succ] at hj
          subst hi
          exact Or.inl ⟨⟨h1, h2⟩, b, List.mem_of_getElem? hj, h3, h4⟩
      | succ i =>
        cases j with
        | zero => omega
        | succ j =>
          simp only [List.getElem?_cons_succ] at hi hj
          exact Or.inr (ih.2 ⟨i, j, a, b, Nat.lt_of_succ_lt_succ hij, hi, hj, h1, h2, h3, h4⟩)

/-! ### transformers and per-field check lists -/

/-- a transformer that never clears `kw_only` -/
def Tr.keepsKwOnly (t : Tr) : Bool := t.all.kwOnly != .setF && t.first.kwOnly != .setF

theorem editFirst_mem (e : AttrEdit) (n : Nat) (l : List Attr) (a : Attr) (h : a ∈ editFirst e n l) :
    a ∈ l ∨ ∃ b ∈ l, a = e.ap b := by
  induction l generalizing n with
  | nil => cases n <;> simp [editFirst] at h
  | cons x rest ih =>
    cases n with
    | zero => exact Or.inl (by simpa [editFirst] using h)
    | succ n =>
      simp only [editFirst, List.mem_cons] at h
      rcases h with rfl | h
      · exact Or.inr ⟨x, List.mem_cons_self, rfl⟩
      · rcases ih n h with h | ⟨b, hb, rfl⟩
        · exact Or.inl (List.mem_cons_of_mem _ h)
        · exact Or.inr ⟨b, List.mem_cons_of_mem _ hb, rfl⟩

theorem shape_mem (s : Shape) (l : List Attr) (a : Attr) (h : a ∈ s.ap l) : a ∈ l := by
  cases s <;> simp only [Shape.ap] at h
  · exact h
  · exact List.mem_reverse.1 h
  · exact List.mem_of_mem_drop h
  · exact List.dropLast_subset _ h
  · rcases List.mem_append.1 h with h | h <;> exact (List.mem_filter.1 h).1

/-- every attribute a kw_only-preserving transformer returns is one it added (positional only for
    `mandatoryLast` / `defaultedFirst`) or stems from an attribute it was given, still keyword-only if that was -/
theorem applyTr_mem (tr : Tr) (hk : tr.keepsKwOnly = true) (l : List Attr) (a : Attr) (h : a ∈ applyTr tr l) :
    ((tr.add = .mandatoryLast ∧ a = addedAttr) ∨ (tr.add = .defaultedFirst ∧ a = { addedAttr with dflt := true }) ∨
        (tr.add = .kwMandatoryLast ∧ a = { addedAttr with kwOnly := true }))
      ∨ ∃ b ∈ l, (b.kwOnly = true → a.kwOnly = true) := by
  unfold applyTr at h
  simp only [Tr.keepsKwOnly, Bool.and_eq_true, bne_iff_ne, ne_eq] at hk
  have core : ∀ x ∈ tr.shape.ap (editFirst tr.first tr.nFirst (l.map tr.all.ap)),
      ∃ b ∈ l, (b.kwOnly = true → x.kwOnly = true) := by
    intro x hx
    have hx := shape_mem _ _ _ hx
    have hall : ∀ y ∈ l.map tr.all.ap, ∃ b ∈ l, (b.kwOnly = true → y.kwOnly = true) := by
      intro y hy
      obtain ⟨b, hb, rfl⟩ := List.mem_map.1 hy
      refine ⟨b, hb, fun hbk => ?_⟩
      simp only [AttrEdit.ap]
      cases hak : tr.all.kwOnly <;> simp_all [BEdit.ap]
    rcases editFirst_mem _ _ _ _ hx with hx | ⟨y, hy, rfl⟩
    · exact hall x hx
    · obtain ⟨b, hb, hbk⟩ := hall y hy
      refine ⟨b, hb, fun h => ?_⟩
      have := hbk h
      simp only [AttrEdit.ap]
      cases hfk : tr.first.kwOnly <;> simp_all [BEdit.ap]
  cases hadd : tr.add <;> simp only [hadd, Add.ap, List.mem_append, List.mem_cons, List.mem_nil_iff, or_false] at h
  · exact Or.inr (core a h)
  · rcases h with h | rfl
    · exact Or.inr (core a h)
    · exact Or.inl (Or.inl ⟨rfl, rfl⟩)
  · rcases h with rfl | h
    · exact Or.inl (Or.inr (Or.inl ⟨rfl, rfl⟩))
    · exact Or.inr (core a h)
  · rcases h with h | rfl
    · exact Or.inr (core a h)
    · exact Or.inl (Or.inr (Or.inr ⟨rfl, rfl⟩))

theorem mad_exists_two {l : List Attr} (h : mandatoryAfterDefault l = true) :
    ∃ a ∈ l, ∃ b ∈ l, a.positional = true ∧ a.dflt = true ∧ b.positional = true ∧ b.dflt = false := by
  obtain ⟨i, j, a, b, _, hi, hj, h1, h2, h3, h4⟩ := (mad_iff_exists_pair l).1 h
  exact ⟨a, List.mem_of_getElem? hi, b, List.mem_of_getElem? hj, h1, h2, h3, h4⟩

theorem firstFail_flatMap_iff {α : Type} (g : α → List (Bool × Exc)) (l : List α) (e : Exc) :
    firstFail (l.flatMap g) = some e ↔
      ∃ pre x post, l = pre ++ x :: post ∧ (∀ y ∈ pre, firstFail (g y) = none) ∧ firstFail (g x) = some e := by
  induction l with
  | nil => simp [firstFail]
  | cons a rest ih =>
    rw [List.flatMap_cons, firstFail_append]
    cases ha : firstFail (g a) with
    | some e' =>
      simp only [Option.some.injEq]
      constructor
      · intro h; subst h; exact ⟨[], a, rest, rfl, by simp, ha⟩
      · rintro ⟨pre, x, post, hl, hpre, hx⟩
        cases pre with
        | nil =>
          simp only [List.nil_append, List.cons.injEq] at hl
          rw [← hl.1, ha] at hx
          exact Option.some.inj hx
        | cons y pre =>
          simp only [List.cons_append, List.cons.injEq] at hl
          have := hpre y List.mem_cons_self
          rw [← hl.1, ha] at this
          cases this
    | none =>
      simp only
      rw [ih]
      constructor
      · rintro ⟨pre, x, post, hl, hpre, hx⟩
        refine ⟨a :: pre, x, post, by simp [hl], ?_, hx⟩
        intro y hy
        rcases List.mem_cons.1 hy with rfl | hy
        · exact ha
        · exact hpre y hy
      · rintro ⟨pre, x, post, hl, hpre, hx⟩
        cases pre with
        | nil =>
          simp only [List.nil_append, List.cons.injEq] at hl
          rw [← hl.1, ha] at hx
          cases hx
        | cons y pre =>
          simp only [List.cons_append, List.cons.injEq] at hl
          exact ⟨pre, x, post, hl.2, fun z hz => hpre z (List.mem_cons_of_mem _ hz), hx⟩


end Attrs.C15
