/-
  C17 — the `while True` loop of `_linecache_and_compile` terminates: the candidate filenames
  `base, base[:-1]-1>, base[:-1]-2>, …` are pairwise different (decimal notation is injective), so
  among any `n + 1` consecutive candidates one is not a key of a cache with `n` entries.
-/
import AttrsModel.Proofs.C17Cache

namespace Attrs.C17

/-! ### candidate filenames are pairwise different -/

theorem toString_nat_injective (a b : Nat) (h : toString a = toString b) : a = b := by
  rw [Nat.toString_eq_repr, Nat.toString_eq_repr] at h
  have h' := congrArg String.toList h
  rw [Nat.toList_repr, Nat.toList_repr] at h'
  have := congrArg (fun l => Nat.ofDigitChars 10 l 0) h'
  simpa [Nat.ofDigitChars_ten_toDigits] using this

theorem candidate_toList_succ (base : String) (k : Nat) :
    (candidate base (k + 1)).toList =
      base.toList.dropLast ++ ['-'] ++ (toString (k + 1)).toList ++ ['>'] := by
  simp [candidate, String.toList_append, String.toList_ofList]

theorem candidate_injective (base : String) (a b : Nat) (h : candidate base a = candidate base b) :
    a = b := by
  have hlen : ∀ k, (candidate base (k + 1)).toList.length > base.toList.length := by
    intro k
    rw [candidate_toList_succ]
    have : 0 < (toString (k + 1)).toList.length := by
      rw [Nat.toString_eq_repr, Nat.toList_repr]; exact Nat.length_toDigits_pos
    simp only [List.length_append, List.length_dropLast, List.length_cons, List.length_nil]
    omega
  cases a with
  | zero =>
    cases b with
    | zero => rfl
    | succ b =>
      exfalso
      have := hlen b
      rw [← h] at this
      simp [candidate] at this
  | succ a =>
    cases b with
    | zero =>
      exfalso
      have := hlen a
      rw [h] at this
      simp [candidate] at this
    | succ b =>
      have h' := congrArg String.toList h
      rw [candidate_toList_succ, candidate_toList_succ] at h'
      have h1 := List.append_cancel_right h'
      simp only [List.append_assoc] at h1
      have h2 := List.append_cancel_left h1
      have h3 := List.append_cancel_left h2
      exact toString_nat_injective _ _ (String.toList_inj.1 h3)

/-! ### pigeonhole -/

theorem exists_fresh (keys : List String) (f : Nat → String) (hf : ∀ a b, f a = f b → a = b) :
    ∀ n, ∃ m, n ≤ m ∧ m ≤ n + keys.length ∧ f m ∉ keys := by
  induction hk : keys.length generalizing keys with
  | zero =>
    intro n
    have : keys = [] := List.eq_nil_of_length_eq_zero hk
    subst this
    exact ⟨n, Nat.le_refl _, Nat.le_refl _, by simp⟩
  | succ K ih =>
    intro n
    by_cases hn : f n ∈ keys
    · have hlen : (keys.erase (f n)).length = K := by
        rw [List.length_erase_of_mem hn, hk]; rfl
      obtain ⟨m, h1, h2, h3⟩ := ih (keys.erase (f n)) hlen (n + 1)
      refine ⟨m, by omega, by omega, ?_⟩
      intro hm
      have hne : f m ≠ f n := by
        intro he; have := hf _ _ he; omega
      exact h3 ((List.mem_erase_of_ne hne).2 hm)
    · exact ⟨n, Nat.le_refl _, by omega, hn⟩

theorem get_none_iff (c : Cache) (k : String) : c.get k = none ↔ k ∉ c.map (·.1) := by
  induction c with
  | nil => simp [Cache.get]
  | cons x c ih =>
    obtain ⟨a, b⟩ := x
    simp only [Cache.get, List.map_cons, List.mem_cons, not_or]
    by_cases h : (a == k) = true
    · have : a = k := by simpa using h
      simp [this]
    · have hne : ¬ k = a := by intro he; subst he; simp at h
      simp [h, ih, hne]

/-! ### a thread running alone reaches its code object -/

theorem step_at (s : State) (i : Nat) (t : Thread) (h : s.threads[i]? = some t) :
    (step s i).cache = (stepThread s.cache t).1 ∧ (step s i).threads[i]? = some (stepThread s.cache t).2 := by
  have hlt : i < s.threads.length := by
    rcases Nat.lt_or_ge i s.threads.length with h' | h'
    · exact h'
    · rw [List.getElem?_eq_none h'] at h; cases h
  simp [step, h, List.getElem?_set_self hlt]

theorem step_other (s : State) (i j : Nat) (hij : i ≠ j) : (step s i).threads[j]? = s.threads[j]? := by
  unfold step
  split
  · rfl
  · simp [List.getElem?_set_ne hij]

theorem step_length (s : State) (i : Nat) : (step s i).threads.length = s.threads.length := by
  unfold step
  split
  · rfl
  · simp

theorem finish_finished (s : State) (i : Nat) (t : Thread) (h : s.threads[i]? = some t)
    (hf : t.isFinished = true) (fuel : Nat) : finishThread s i fuel = s := by
  cases fuel with
  | zero => rfl
  | succ n => simp [finishThread, h, hf]

theorem finish_compiling (s : State) (i : Nat) (t : Thread) (h : s.threads[i]? = some t) (fn : String)
    (hp : t.phase = .compiling fn) (fuel : Nat) (hfuel : 1 ≤ fuel) :
    ∃ t', (finishThread s i fuel).threads[i]? = some t' ∧ t'.isFinished = true := by
  cases fuel with
  | zero => omega
  | succ n =>
    have hnf : t.isFinished = false := by simp [Thread.isFinished, Thread.code?, hp]
    obtain ⟨_, h2⟩ := step_at s i t h
    have hfin : (stepThread s.cache t).2.isFinished = true := by
      simp [stepThread, hp, Thread.isFinished, Thread.code?]
    simp only [finishThread, h, hnf]
    rw [finish_finished _ i _ h2 hfin]
    exact ⟨_, h2, hfin⟩

theorem finish_looping (i : Nat) : ∀ (d : Nat) (s : State) (t : Thread), s.threads[i]? = some t →
    t.phase = .looping →
    (∃ m, t.count ≤ m ∧ m - t.count = d ∧ s.cache.get (candidate t.base m) = none) →
    ∀ fuel, d + 2 ≤ fuel →
    ∃ t', (finishThread s i fuel).threads[i]? = some t' ∧ t'.isFinished = true := by
  intro d
  induction d with
  | zero =>
    intro s t h hp ⟨m, h1, h2, h3⟩ fuel hfuel
    have hm : m = t.count := by omega
    subst hm
    cases fuel with
    | zero => omega
    | succ n =>
      have hnf : t.isFinished = false := by simp [Thread.isFinished, Thread.code?, hp]
      obtain ⟨_, hs2⟩ := step_at s i t h
      have hcomp : (stepThread s.cache t).2.phase = .compiling (candidate t.base t.count) := by
        simp [stepThread, hp, Cache.setdefault, h3]
      simp only [finishThread, h, hnf]
      exact finish_compiling _ i _ hs2 _ hcomp n (by omega)
  | succ d ih =>
    intro s t h hp ⟨m, h1, h2, h3⟩ fuel hfuel
    cases fuel with
    | zero => omega
    | succ n =>
      have hnf : t.isFinished = false := by simp [Thread.isFinished, Thread.code?, hp]
      obtain ⟨hs1, hs2⟩ := step_at s i t h
      simp only [finishThread, h, hnf]
      -- what does the attempt at `candidate t.base t.count` do?
      cases hg : s.cache.get (candidate t.base t.count) with
      | none =>
        have hcomp : (stepThread s.cache t).2.phase = .compiling (candidate t.base t.count) := by
          simp [stepThread, hp, Cache.setdefault, hg]
        exact finish_compiling _ i _ hs2 _ hcomp n (by omega)
      | some old =>
        by_cases ho : (old == t.script) = true
        · have hcomp : (stepThread s.cache t).2.phase = .compiling (candidate t.base t.count) := by
            simp [stepThread, hp, Cache.setdefault, hg, ho]
          exact finish_compiling _ i _ hs2 _ hcomp n (by omega)
        · have hst : stepThread s.cache t = (s.cache, { t with count := t.count + 1 }) := by
            simp [stepThread, hp, Cache.setdefault, hg, ho]
          rw [hst] at hs1 hs2
          refine ih (step s i) _ hs2 hp ⟨m, ?_, ?_, ?_⟩ n (by omega)
          · show t.count + 1 ≤ m
            omega
          · show m - (t.count + 1) = d
            omega
          · rw [hs1]; exact h3

/-- **the loop terminates**: a thread running alone against a cache with `n` entries has its code
    object after at most `n + 2` steps, whatever the cache contains -/
theorem loop_terminates (s : State) (i : Nat) (t : Thread) (h : s.threads[i]? = some t) :
    ∃ t', (finishThread s i (s.cache.length + 3)).threads[i]? = some t' ∧ t'.isFinished = true := by
  cases hp : t.phase with
  | finished code =>
    have hf : t.isFinished = true := by simp [Thread.isFinished, Thread.code?, hp]
    rw [finish_finished s i t h hf]
    exact ⟨t, h, hf⟩
  | compiling fn => exact finish_compiling s i t h fn hp _ (by omega)
  | looping =>
    obtain ⟨m, h1, h2, h3⟩ := exists_fresh (s.cache.map (·.1)) (candidate t.base)
      (candidate_injective t.base) t.count
    have hfresh : s.cache.get (candidate t.base m) = none := (get_none_iff _ _).2 h3
    simp only [List.length_map] at h2
    exact finish_looping i (m - t.count) s t h hp ⟨m, h1, rfl, hfresh⟩ _ (by omega)

/-! ### every thread of a sequential history ends with its code object -/

theorem finishThread_other (s : State) (i j : Nat) (hij : i ≠ j) (fuel : Nat) :
    (finishThread s i fuel).threads[j]? = s.threads[j]? := by
  induction fuel generalizing s with
  | zero => rfl
  | succ n ih =>
    unfold finishThread
    split
    · rfl
    · split
      · rfl
      · rw [ih, step_other s i j hij]

theorem finishThread_length (s : State) (i fuel : Nat) :
    (finishThread s i fuel).threads.length = s.threads.length := by
  induction fuel generalizing s with
  | zero => rfl
  | succ n ih =>
    unfold finishThread
    split
    · rfl
    · split
      · rfl
      · rw [ih, step_length]

theorem foldl_finish_keeps (l : List Nat) (s : State) (j : Nat) (hj : j ∉ l) :
    (l.foldl (fun st i => finishThread st i (st.cache.length + 3)) s).threads[j]? = s.threads[j]? := by
  induction l generalizing s with
  | nil => rfl
  | cons i rest ih =>
    simp only [List.foldl_cons]
    have hne : i ≠ j := by intro h; subst h; simp at hj
    rw [ih _ (by intro h; exact hj (List.mem_cons_of_mem _ h)), finishThread_other s i j hne]

theorem foldl_finish_length (l : List Nat) (s : State) :
    (l.foldl (fun st i => finishThread st i (st.cache.length + 3)) s).threads.length = s.threads.length := by
  induction l generalizing s with
  | nil => rfl
  | cons i rest ih => simp only [List.foldl_cons]; rw [ih, finishThread_length]

theorem foldl_finish_all (l : List Nat) (hn : l.Nodup) (s : State) (j : Nat) (hj : j ∈ l)
    (hlt : j < s.threads.length) :
    ∃ t', (l.foldl (fun st i => finishThread st i (st.cache.length + 3)) s).threads[j]? = some t' ∧
      t'.isFinished = true := by
  induction l generalizing s with
  | nil => simp at hj
  | cons i rest ih =>
    simp only [List.foldl_cons]
    have hn' : rest.Nodup := (List.nodup_cons.1 hn).2
    rcases List.mem_cons.1 hj with he | hr
    · subst he
      have hnot : j ∉ rest := (List.nodup_cons.1 hn).1
      rw [foldl_finish_keeps rest _ j hnot]
      have hex : ∃ t, s.threads[j]? = some t := ⟨s.threads[j], List.getElem?_eq_getElem hlt⟩
      obtain ⟨t, ht⟩ := hex
      exact loop_terminates s j t ht
    · exact ih hn' _ hr (by rw [finishThread_length]; exact hlt)

/-- after `finishAll` every thread has its code object -/
theorem finishAll_finished (s : State) (j : Nat) (hlt : j < s.threads.length) :
    ∃ t', (finishAll s).threads[j]? = some t' ∧ t'.isFinished = true :=
  foldl_finish_all _ List.nodup_range s j (List.mem_range.2 hlt) hlt

end Attrs.C17
