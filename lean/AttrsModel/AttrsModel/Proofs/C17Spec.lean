/-
  C17 — the model of part A meets the declarative specification: every name a generated method loads
  is bound by the method's own script (`uses_bound`), hence the resolution table is the list of
  intended objects (`table_eq_uses`); those are what the field specification calls for.
-/
import AttrsModel.Proofs.C17Globals

namespace Attrs.C17

theorem reprCallName_eq (n : String) : reprCallName n = reprName n := by
  simp [reprCallName, reprName, reprCall_eq_repr]

/-! ### every use is bound in the script's own helper dict -/

theorem reprUses_bound (c : Case) (u : Entry) (h : u ∈ reprUses c) : (u.name, u.obj) ∈ reprGlobs c := by
  simp only [reprUses, List.mem_append, List.mem_cons, List.mem_flatMap, List.mem_filter,
    List.not_mem_nil, or_false] at h
  simp only [reprGlobs, List.mem_append, List.mem_map, List.mem_filter, mem_fixedBinds]
  rcases h with (h | h | h) | ⟨f, ⟨hf, _⟩, h⟩
  · subst h; right; exact ⟨by decide, rfl⟩
  · subst h; right; exact ⟨by decide, rfl⟩
  · subst h; right; exact ⟨by decide, rfl⟩
  · rcases h with h | h
    · split at h
      · rename_i hc
        simp only [List.mem_singleton] at h
        subst h
        left
        exact ⟨f, ⟨hf, by simpa using hc⟩, by simp [use, reprCallName_eq]⟩
      · simp at h
    · split at h
      · simp only [List.mem_cons, List.not_mem_nil, or_false] at h
        rcases h with h | h <;> subst h <;> right <;> exact ⟨by decide, rfl⟩
      · simp at h

theorem eqUses_bound (c : Case) (u : Entry) (h : u ∈ eqUses c) : (u.name, u.obj) ∈ eqGlobs c := by
  simp only [eqUses, List.mem_cons, List.mem_map, List.mem_filter] at h
  simp only [eqGlobs, List.mem_append, List.mem_map, List.mem_filter, mem_fixedBinds]
  rcases h with h | ⟨f, hf, h⟩
  · subst h; left; exact ⟨by decide, rfl⟩
  · subst h; right; exact ⟨f, hf, rfl⟩

theorem hashUses_bound (c : Case) (u : Entry) (h : u ∈ hashUses c) : (u.name, u.obj) ∈ hashGlobs c := by
  simp only [hashUses, List.mem_append, List.mem_singleton, List.mem_map, List.mem_filter] at h
  simp only [hashGlobs, List.mem_append, List.mem_map, List.mem_filter, mem_fixedBinds]
  rcases h with ((h | h) | ⟨f, hf, h⟩) | h
  · subst h; left; exact ⟨by decide, rfl⟩
  · split at h
    · simp only [List.mem_singleton] at h; subst h; left; exact ⟨by decide, rfl⟩
    · simp at h
  · subst h; right; exact ⟨f, hf, rfl⟩
  · split at h
    · simp only [List.mem_singleton] at h; subst h; left; exact ⟨by decide, rfl⟩
    · simp at h

theorem mem_initGlobs_of (c : Case) (n : String) (o : Obj)
    (h : (n, o) ∈ initNames c ∨ (n, o) ∈ fixedBinds Generated.c17InitFixed ∨ (n, o) ∈ initTail c) :
    (n, o) ∈ helperGlobs c := by
  rw [helperGlobs_eq]
  simp only [List.mem_append]
  rcases h with h | h | h
  · right; left; left; exact h
  · right; left; right; exact h
  · right; right; exact h

theorem fieldBodyUses_bound (c : Case) (f : Field) (hf : f ∈ filtered c) (u : Entry)
    (h : u ∈ fieldBodyUses f) : (u.name, u.obj) ∈ helperGlobs c := by
  simp only [fieldBodyUses, List.mem_append] at h
  rcases h with ((h | h) | h) | h <;> split at h <;>
    simp only [List.mem_singleton, List.not_mem_nil] at h
  · subst h; exact mem_initGlobs_of c _ _ (Or.inr (Or.inl ((mem_fixedBinds _ _ _).2 ⟨by decide, rfl⟩)))
  · rename_i hc
    subst h
    apply mem_initGlobs_of c _ _ (Or.inl _)
    simp only [initNames, List.mem_append, List.mem_flatMap]
    left; exact ⟨f, hf, by simp [fieldInitBinds, hc, use]⟩
  · rename_i hc
    subst h
    apply mem_initGlobs_of c _ _ (Or.inl _)
    simp only [initNames, List.mem_append, List.mem_flatMap]
    left; exact ⟨f, hf, by simp [fieldInitBinds, hc, use]⟩
  · subst h; exact mem_initGlobs_of c _ _ (Or.inr (Or.inl ((mem_fixedBinds _ _ _).2 ⟨by decide, rfl⟩)))

theorem anyValidator_of (c : Case) (f : Field) (hf : f ∈ filtered c) (hv : f.validator = true) :
    anyValidator c = true := by
  simp only [anyValidator, List.any_eq_true]; exact ⟨f, hf, hv⟩

theorem initBodyUses_bound (c : Case) (u : Entry) (h : u ∈ initBodyUses c) :
    (u.name, u.obj) ∈ helperGlobs c := by
  simp only [initBodyUses, List.mem_append, List.mem_flatMap] at h
  rcases h with ((h | ⟨f, hf, h⟩) | h) | h
  · split at h
    · rename_i hc
      simp only [List.mem_singleton] at h; subst h
      exact mem_initGlobs_of c _ _ (Or.inr (Or.inr (by simp [initTail, hc, fx])))
    · simp at h
  · exact fieldBodyUses_bound c f hf u h
  · split at h
    · rename_i hc
      simp only [List.mem_cons, List.mem_flatMap, List.mem_filter] at h
      rcases h with h | ⟨f, ⟨hf, hv⟩, h⟩
      · subst h
        apply mem_initGlobs_of c _ _ (Or.inl _)
        simp [initNames, hc, fx]
      · apply mem_initGlobs_of c _ _ (Or.inl _)
        simp only [initNames, hc, if_true, List.mem_append, List.mem_cons, List.mem_flatMap, List.mem_filter]
        right; right
        refine ⟨f, ⟨hf, hv⟩, ?_⟩
        simp only [fieldValUses, hv, if_true, List.mem_cons, List.not_mem_nil, or_false] at h
        rcases h with h | h <;> subst h <;> simp [fieldValBinds, hv, use]
    · simp at h
  · split at h
    · rename_i hc
      simp only [List.mem_singleton] at h; subst h
      exact mem_initGlobs_of c _ _ (Or.inr (Or.inr (by simp [initTail, hc, fx])))
    · simp at h

theorem initTopUses_bound (c : Case) (u : Entry) (h : u ∈ initTopUses c) :
    (u.name, u.obj) ∈ helperGlobs c := by
  simp only [initTopUses, List.mem_flatMap] at h
  obtain ⟨f, _, h⟩ := h
  split at h
  · simp only [List.mem_singleton] at h; subst h
    exact mem_initGlobs_of c _ _ (Or.inr (Or.inl ((mem_fixedBinds _ _ _).2 ⟨by decide, rfl⟩)))
  · split at h
    · simp only [List.mem_singleton] at h; subst h
      exact mem_initGlobs_of c _ _ (Or.inr (Or.inl ((mem_fixedBinds _ _ _).2 ⟨by decide, rfl⟩)))
    · simp at h

/-- **every name a generated method loads is bound by that method's own script** -/
theorem uses_bound (c : Case) (u : Entry) (h : u ∈ uses c) : (u.name, u.obj) ∈ helperGlobs c := by
  simp only [uses, List.mem_append] at h
  rcases h with ((h | h) | h) | h
  · split at h
    · rename_i hc
      rw [helperGlobs_eq]; simp only [List.mem_append, hc, if_true]
      left; left; left; exact reprUses_bound c u h
    · simp at h
  · split at h
    · rename_i hc
      rw [helperGlobs_eq]; simp only [List.mem_append, hc, if_true]
      left; left; right; exact eqUses_bound c u h
    · simp at h
  · split at h
    · rename_i hc
      rw [helperGlobs_eq]; simp only [List.mem_append, hc, if_true]
      left; right; exact hashUses_bound c u h
    · simp at h
  · simp only [initUses, List.mem_append, List.mem_filter] at h
    rcases h with ⟨h, _⟩ | h
    · exact initBodyUses_bound c u h
    · exact initTopUses_bound c u h

/-! ### the resolution table is the list of intended objects -/

/-- **every load finds exactly the object its own script meant** — for every class specification,
    every naming of its fields and every module namespace -/
theorem table_eq_uses (c : Case) : table c = uses c := by
  simp only [table]
  conv => rhs; rw [← List.map_id (uses c)]
  apply List.map_congr_left
  intro u hu
  have := resolve_helper c (moduleGlobs c) u.name u.obj (uses_bound c u hu)
  cases u
  simp_all [globalsOf]

/-- the `__getattr__` script's own globals: no module namespace is merged in, so every one of its
    loads finds the helper it was given, or the builtin — whatever the module binds -/
theorem getattrTable_eq_uses (c : Case) : getattrTable c = getattrUses c := by
  have hg : ∀ m, getattrGlobs m = fixedBinds Generated.c17GetattrFixed := by
    intro m; simp [getattrGlobs, getattrGlobsWith, getattrPart, Generated.c17GetattrMergeOrder]
  simp only [getattrTable, hg]
  conv => rhs; rw [← List.map_id (getattrUses c)]
  apply List.map_congr_left
  intro u hu
  simp only [getattrUses] at hu
  split at hu
  · simp only [List.mem_append, List.mem_cons, List.not_mem_nil, or_false] at hu
    rcases hu with (h | h | h) | h
    · subst h; decide
    · subst h; decide
    · subst h; decide
    · split at h
      · simp at h
      · simp only [List.mem_cons, List.not_mem_nil, or_false] at h
        rcases h with h | h | h <;> subst h <;> decide
  · simp at hu

theorem getattrUses_ok (c : Case) (u : Entry) (h : u ∈ getattrUses c) : entryOk c u = true := by
  simp only [getattrUses] at h
  split at h
  · simp only [List.mem_append, List.mem_cons, List.not_mem_nil, or_false] at h
    rcases h with (h | h | h) | h
    · subst h; simp [entryOk, fx, fixedObj, attrsObjectNames]
    · subst h; simp [entryOk, fx, fixedObj, attrsObjectNames]
    · subst h; simp [entryOk, fx, fixedObj, attrsObjectNames]
    · split at h
      · simp at h
      · simp only [List.mem_cons, List.not_mem_nil, or_false] at h
        rcases h with h | h | h <;> subst h <;> simp [entryOk, bi, usedBuiltins]
  · simp at h

theorem known_nil (c : Case) (h : known c = []) : paramShadows c = false := by
  simp only [known, knownK17c] at h
  cases hx : paramShadows c <;> simp_all

end Attrs.C17
