/-
  C14 — the model satisfies the declarative specification: name by name, for an arbitrary case.
-/
import AttrsModel.Proofs.C14Err
import AttrsModel.Proofs.C14Build

namespace Attrs.C14

/-! ### consequences of "no documented error condition holds" -/

structure NoErr (c : Case) : Prop where
  eqOrder : eqOrderOk c
  baseHook : frozenBaseHook c = false
  frozenOnSet : (sFrozen c && sOnSet c != .off) = false
  hashOk : sHash c ≠ .bad
  freezeCustom : (sAuto c && owns c "__setattr__" && sFrozen c) = false
  hooksCustom : (sHooks c && sAuto c && owns c "__setattr__") = false

theorem noErr_of_expectErr (c : Case) (h : expectErr c = false) : NoErr c := by
  rw [expectErr_eq] at h
  simp only [Bool.or_eq_false_iff] at h
  obtain ⟨⟨⟨⟨⟨⟨⟨⟨h1, h1'⟩, h2⟩, h3⟩, _⟩, h5⟩, h6⟩, _⟩, h8⟩ := h
  exact { eqOrder := by unfold eqOrderOk; simp [h1, h1'], baseHook := h2, frozenOnSet := h8,
          hashOk := by simpa using h6, freezeCustom := h3, hooksCustom := h5 }

theorem sHooks_onSet (c : Case) (h : sHooks c = true) : (sOnSet c != .off) = true := by
  unfold sHooks at h
  cases hs : sOnSet c <;> simp_all

/-- a frozen class gets no hook `__setattr__` and vice versa (unless a documented error holds) -/
theorem not_hooks_and_frozen (c : Case) (h : NoErr c) : (sHooks c && sFrozen c) = false := by
  cases hh : sHooks c
  · rfl
  · have := sHooks_onSet c hh
    have hf := h.frozenOnSet
    cases hfz : sFrozen c <;> simp_all

/-- **the builder writes exactly what the documented table tells it to write** (every name but attrs'
    own bookkeeping key) -/
theorem writeFor_eq_told (c : Case) (hcmp : c.api = .attrS ∨ c.fCmp = .unset) (h : NoErr c)
    (n : String) (hn : n ≠ ownSetattrKey) : writeFor (decisions c) n = toldSlot c n := by
  unfold writeFor toldSlot decisions
  simp only
  rw [isFrozen_eq, hooks_eq c h.baseHook h.frozenOnSet, gssDec_eq, strFlag_eq, eqDec_eq c hcmp h.eqOrder,
    orderDec_eq c hcmp h.eqOrder, hashDec_eq c hcmp h.eqOrder h.hashOk, matchArgsDec_eq, reprDec_eq, initDec_eq]
  have hx := not_hooks_and_frozen c h
  by_cases h1 : n = "__setattr__"
  · subst h1
    cases hh : sHooks c <;> cases hf : sFrozen c <;> simp_all
  · have h1' : (n == "__setattr__") = false := by simpa using h1
    have hn' : (n == ownSetattrKey) = false := by simpa using hn
    have hn'' : (n == "__attrs_own_setattr__") = false := hn'
    simp only [h1', hn'', Bool.false_eq_true, if_false]
    cases wantHash c <;> rfl

/-! ### consequences of well-formedness -/

theorem not_reserved_of_owns (c : Case) (hwf : wf c = true) (n : String) (ho : owns c n = true) :
    reserved.contains n = false := by
  unfold wf at hwf
  simp only [Bool.and_eq_true, List.all_eq_true] at hwf
  have := hwf.1.1.1.1.1.2 n (by simpa [owns] using ho)
  simpa using this

theorem hcmp_of_wf (c : Case) (hwf : wf c = true) : c.api = .attrS ∨ c.fCmp = .unset := by
  unfold wf at hwf
  simp only [Bool.and_eq_true, Bool.or_eq_true, beq_iff_eq] at hwf
  exact hwf.1.2

theorem reserved_fieldNames (n : String) (h : reserved.contains n = false) :
    fieldNames.contains n = false := by
  simp only [reserved, fieldNames, List.contains_cons, List.contains_nil, Bool.or_false,
    Bool.or_eq_false_iff] at h ⊢
  exact h.1

theorem reserved_slotsDropped (n : String) (h : reserved.contains n = false) :
    slotsDropped.contains n = false := by
  simp only [reserved, slotsDropped, fieldNames, List.cons_append, List.nil_append, List.contains_cons,
    List.contains_nil, Bool.or_false, Bool.or_eq_false_iff] at h ⊢
  exact ⟨h.1, h.2.2.1, h.2.2.2.1⟩

theorem not_owns_key (c : Case) (hwf : wf c = true) : owns c ownSetattrKey = false := by
  cases h : owns c ownSetattrKey
  · rfl
  · have := not_reserved_of_owns c hwf _ h
    simp [reserved, ownSetattrKey] at this

theorem told_not_dropped (c : Case) (n : String) (v : Slot) (h : toldSlot c n = some v) :
    slotsDropped.contains n = false := by
  cases hd : slotsDropped.contains n
  · rfl
  · simp only [slotsDropped, fieldNames, List.cons_append, List.nil_append, List.contains_cons,
      List.contains_nil, Bool.or_false, Bool.or_eq_true, beq_iff_eq] at hd
    rcases hd with hd | hd | hd <;> subst hd <;> simp +decide [toldSlot] at h

theorem told_not_field (c : Case) (n : String) (v : Slot) (h : toldSlot c n = some v) :
    fieldNames.contains n = false := by
  have := told_not_dropped c n v h
  simp only [slotsDropped, fieldNames, List.cons_append, List.nil_append, List.contains_cons,
    List.contains_nil, Bool.or_false, Bool.or_eq_false_iff] at this ⊢
  exact this.1

/-- a written `__setattr__` means the builder "wrote its own" -/
theorem wrote_of_writeFor_setattr (d : Dec) (v : Slot) (h : writeFor d "__setattr__" = some v) :
    wroteOwnSetattr d = true := by
  unfold writeFor at h
  unfold wroteOwnSetattr
  cases hh : d.hooks <;> cases hf : d.isFrozen <;> simp_all

theorem writeFor_key (d : Dec) : writeFor d ownSetattrKey = if d.hooks then some .vTrue else none := by
  simp +decide [writeFor, ownSetattrKey]

/-- when nothing was written the bookkeeping key is looked up through the MRO only -/
theorem resetsDict_case (c : Case) (hwf : wf c = true) :
    resetsDict (classDict c.body) (decisions c) (inheritedOwnSetattr c) =
      (!wroteOwnSetattr (decisions c) && inheritedOwnSetattr c) := by
  unfold resetsDict getattrOwnSetattr
  cases hw : wroteOwnSetattr (decisions c)
  · have hh : (decisions c).hooks = false := by
      unfold wroteOwnSetattr at hw
      cases h1 : (decisions c).hooks <;> simp_all
    have hk := not_owns_key c hwf
    have : (applyWrites (fieldNames.foldl Dict.erase (classDict c.body)) (builderWrites (decisions c))).has
        ownSetattrKey = false := by
      rw [has_written, has_foldl_erase, writeFor_key, hh]
      have e : hasOwn (classDict c.body) ownSetattrKey = false := by
        rw [hasOwn_classDict]
        have : (ownSetattrKey == "__hash__") = false := by decide
        simp only [owns] at hk
        rw [hk, this]; rfl
      unfold hasOwn at e
      simp [e]
    simp [this]
  · simp

theorem has_classDict_setattr (c : Case) :
    (classDict c.body).has "__setattr__" = owns c "__setattr__" := by
  have := hasOwn_classDict c.body "__setattr__"
  unfold hasOwn at this
  rw [this]; simp +decide [owns]

/-- the class has a `__setattr__` of its own after the writes iff attrs wrote one or the body binds one -/
theorem dictOwnSetattr_case (c : Case) :
    dictOwnSetattr (classDict c.body) (decisions c) =
      ((writeFor (decisions c) "__setattr__").isSome || owns c "__setattr__") := by
  unfold dictOwnSetattr
  rw [has_written, has_foldl_erase, has_classDict_setattr]
  simp +decide [fieldNames]

theorem not_attrsMade_absent : (!attrsMade .absent && Slot.absent != .other) = true := by decide
theorem not_attrsMade_pyNone : (!attrsMade .pyNone && Slot.pyNone != .other) = true := by decide
theorem not_attrsMade_obj : (!attrsMade .objSetattr && Slot.objSetattr != .other) = true := by decide

/-- what the class's own dict held before decoration, for a name the body does not bind -/
theorem get_classDict_not_owned (c : Case) (n : String) (ho : owns c n = false) :
    (classDict c.body).get n = .absent ∨ (classDict c.body).get n = .pyNone := by
  rw [get_classDict]
  simp only [owns] at ho
  rw [ho]
  simp only [Bool.false_eq_true, if_false]
  split <;> simp

theorem get_classDict_owned (c : Case) (n : String) (ho : owns c n = true) :
    (classDict c.body).get n = .user := by
  rw [get_classDict]
  simp only [owns] at ho
  rw [ho]; rfl

theorem has_classDict_owned (c : Case) (n : String) (ho : owns c n = true) :
    (classDict c.body).has n = true := by
  have := hasOwn_classDict c.body n
  unfold hasOwn at this
  simp only [owns] at ho
  rw [this, ho]; rfl

/-- **name by name, the resulting class dict is what the documented table demands** -/
theorem specName_final_gen (c : Case) (hwf : wf c = true) (hE : expectErr c = false)
    (n : String) : specName c n ((finalDict c).get n) = true := by
  have hcmp := hcmp_of_wf c hwf
  have hN := noErr_of_expectErr c hE
  unfold specName
  by_cases hn : n = ownSetattrKey
  · simp [hn]
  have hn' : (n == ownSetattrKey) = false := by simpa using hn
  simp only [hn', Bool.false_eq_true, if_false]
  have hw := writeFor_eq_told c hcmp hN n hn
  unfold finalDict
  cases hs : slots c
  · -- dict build
    simp only [Bool.false_eq_true, if_false]
    rw [get_patchOriginal, hw, resetsDict_case c hwf, hn']
    simp only [Bool.and_false, Bool.false_eq_true, if_false]
    cases ht : toldSlot c n with
    | some v =>
      have hnr : ((!wroteOwnSetattr (decisions c) && inheritedOwnSetattr c) && n == "__setattr__" &&
          !dictOwnSetattr (classDict c.body) (decisions c)) = false := by
        by_cases h1 : n = "__setattr__"
        · subst h1
          rw [wrote_of_writeFor_setattr (decisions c) v (by rw [hw, ht])]
          rfl
        · have : (n == "__setattr__") = false := by simpa using h1
          simp [this]
      simp [hnr]
    | none =>
      simp only [Option.getD_none]
      cases ho : owns c n
      · -- not bound by the body: nothing attrs-made
        simp only [Bool.false_eq_true, if_false]
        split
        · exact not_attrsMade_obj
        · split
          · exact not_attrsMade_absent
          · rcases get_classDict_not_owned c n ho with e | e <;> rw [e]
            · exact not_attrsMade_absent
            · exact not_attrsMade_pyNone
      · -- bound by the body: still the user's object
        simp only [if_true]
        have hres := not_reserved_of_owns c hwf n ho
        rw [reserved_fieldNames n hres, get_classDict_owned c n ho]
        simp only [Bool.false_eq_true, if_false]
        split
        · rename_i hr
          exfalso
          simp only [Bool.and_eq_true, beq_iff_eq, Bool.not_eq_true'] at hr
          obtain ⟨⟨_, hnm⟩, hcust⟩ := hr
          subst hnm
          rw [dictOwnSetattr_case, ho] at hcust
          simp at hcust
        · rfl
  · -- slotted build
    simp only [if_true]
    rw [get_createSlots, hw, hn']
    simp only [Bool.and_false, Bool.false_eq_true, if_false]
    cases ht : toldSlot c n with
    | some v =>
      have hnd := told_not_dropped c n v ht
      have h1 : (n == "__hash__" && slotsImplicitHash (classDict c.body) (decisions c)) = false := by
        by_cases h1 : n = "__hash__"
        · subst h1
          unfold slotsImplicitHash
          rw [hw, ht]; simp
        · have : (n == "__hash__") = false := by simpa using h1
          simp [this]
      have h2 : (resetsSlots (classDict c.body) (decisions c) (directOwnSetattr c) && n == "__setattr__") = false := by
        by_cases h1 : n = "__setattr__"
        · subst h1
          unfold resetsSlots
          rw [wrote_of_writeFor_setattr (decisions c) v (by rw [hw, ht])]
          rfl
        · have : (n == "__setattr__") = false := by simpa using h1
          simp [this]
      rw [h1, h2, hnd]; simp
    | none =>
      simp only [Option.getD_none]
      cases ho : owns c n
      · simp only [Bool.false_eq_true, if_false]
        split
        · exact not_attrsMade_pyNone
        · split
          · exact not_attrsMade_obj
          · split
            · exact not_attrsMade_absent
            · rcases get_classDict_not_owned c n ho with e | e <;> rw [e]
              · exact not_attrsMade_absent
              · exact not_attrsMade_pyNone
      · simp only [if_true]
        have hres := not_reserved_of_owns c hwf n ho
        rw [reserved_slotsDropped n hres, get_classDict_owned c n ho]
        simp only [Bool.false_eq_true, if_false]
        have h1 : (n == "__hash__" && slotsImplicitHash (classDict c.body) (decisions c)) = false := by
          by_cases h1 : n = "__hash__"
          · subst h1
            unfold slotsImplicitHash
            rw [has_classDict_owned c _ ho]; simp
          · have : (n == "__hash__") = false := by simpa using h1
            simp [this]
        rw [h1]
        simp only [Bool.false_eq_true, if_false]
        split
        · rename_i hr
          exfalso
          simp only [Bool.and_eq_true, beq_iff_eq] at hr
          obtain ⟨hrs, hnm⟩ := hr
          subst hnm
          unfold resetsSlots at hrs
          rw [has_classDict_setattr, ho] at hrs
          simp at hrs
        · rfl

theorem specName_final (c : Case) (hwf : wf c = true) (hE : expectErr c = false)
    (n : String) : specName c n ((finalDict c).get n) = true :=
  specName_final_gen c hwf hE n

end Attrs.C14
