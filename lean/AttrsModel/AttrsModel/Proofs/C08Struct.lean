/-
  C08 — lemmas about the stages of the modelled `_create_slots_class`: which keys each stage can touch,
  where slot names and cached-property names come from.
-/
import AttrsModel.Proofs.C08Dict

namespace Attrs.C08

/-! ### stage by stage: a key no stage writes is found as in the filtered copy -/

theorem get_cd0 (c : Case) (k : String) :
    Dict.get (cd0 c) k = if keepKey c k then Dict.get (clsDict c) k else none := by
  unfold cd0
  exact get_filter_key (clsDict c) (keepKey c) k

theorem get_cd1 (c : Case) (k : String) (h1 : k ≠ "__attrs_own_setattr__")
    (h2 : k = "__setattr__" → c.customSetattr = true) : Dict.get (cd1 c) k = Dict.get (cd0 c) k := by
  unfold cd1
  cases hm : c.setattrMode with
  | none =>
    dsimp only
    split
    · rename_i hc
      have hk : k ≠ "__setattr__" := by
        intro e
        have := h2 e
        simp [this] at hc
      rw [get_set_other _ _ _ _ hk, get_set_other _ _ _ _ h1]
    · rw [get_set_other _ _ _ _ h1]
  | frozen => rfl
  | hooks => rfl

theorem get_cd2 (c : Case) (k : String) (h3 : k ∉ cpropNames c)
    (h4 : k = "__getattr__" → (cachedProps c).isEmpty = true) : Dict.get (cd2 c) k = Dict.get (cd1 c) k := by
  unfold cd2
  split
  · rfl
  · rename_i he
    have hk : k ≠ "__getattr__" := fun e => he (h4 e)
    dsimp only
    rw [get_set_other _ _ _ _ hk, get_foldl_del_other _ _ _ h3]

theorem mem_reused_names (c : Case) (n : String) (h : n ∈ (reusedSlots c).map (·.1)) : n ∈ slotNames0 c := by
  unfold reusedSlots at h
  obtain ⟨ni, hni, rfl⟩ := List.mem_map.1 h
  obtain ⟨m, hm, hmi⟩ := List.mem_filterMap.1 hni
  cases he : existingSlot c.mro m with
  | none => simp [he] at hmi
  | some i => simp [he] at hmi; rw [← hmi]; exact hm

theorem get_cd3 (c : Case) (k : String) (h5 : k ∉ slotNames0 c) (h6 : k ≠ "__slots__") (h7 : k ≠ "__qualname__") :
    Dict.get (cd3 c) k = Dict.get (cd2 c) k := by
  unfold cd3
  dsimp only
  rw [get_set_other _ _ _ _ h7, get_set_other _ _ _ _ h6]
  apply get_foldl_set_other (reusedSlots c) (·.1) (fun ni => .reused ni.2)
  intro x hx e
  exact h5 (mem_reused_names c k (e ▸ List.mem_map_of_mem hx))

theorem mem_slotNames (c : Case) (n : String) (h : n ∈ slotNames c) :
    n ∈ slotNames0 c ∨ (n = Generated.hashCacheField ∧ c.cacheHash = true) := by
  unfold slotNames at h
  rcases List.mem_append.1 h with h | h
  · exact Or.inl (List.mem_filter.1 h).1
  · split at h
    · rename_i hc; simp at h; exact Or.inr ⟨h, hc⟩
    · cases h

theorem get_newDict (c : Case) (k : String) (h5 : k ∉ slotNames0 c) (h8 : k ≠ Generated.hashCacheField) :
    Dict.get (newDict c) k = Dict.get (cd3 c) k := by
  unfold newDict
  apply get_foldl_set_other _ (fun n => n) (fun _ => .member)
  intro x hx e
  have hx' := (List.mem_filter.1 hx).1
  rcases mem_slotNames c x hx' with h | h
  · exact h5 (e ▸ h)
  · exact h8 (e ▸ h.1)

/-- a key none of the stages writes or deletes comes through unchanged from the filtered copy -/
theorem get_newDict_untouched (c : Case) (k : String)
    (h1 : k ≠ "__attrs_own_setattr__") (h2 : k = "__setattr__" → c.customSetattr = true)
    (h3 : k ∉ cpropNames c) (h4 : k = "__getattr__" → (cachedProps c).isEmpty = true)
    (h5 : k ∉ slotNames0 c) (h6 : k ≠ "__slots__") (h7 : k ≠ "__qualname__")
    (h8 : k ≠ Generated.hashCacheField) :
    Dict.get (newDict c) k = Dict.get (cd0 c) k := by
  rw [get_newDict c k h5 h8, get_cd3 c k h5 h6 h7, get_cd2 c k h3 h4, get_cd1 c k h1 h2]

/-! ### where names come from -/

theorem mem_slotNames0 (c : Case) (n : String) (h : n ∈ slotNames0 c) :
    (n ∈ c.own ∨ (n = "__weakref__" ∧ addsWeakref c = true) ∨ n ∈ cpropNames c) ∧ c.inherited.contains n = false := by
  unfold slotNames0 at h
  obtain ⟨hn, hf⟩ := List.mem_filter.1 h
  refine ⟨?_, by simpa using hf⟩
  unfold names2 names1 attrNames at hn
  rcases List.mem_append.1 hn with hn | hn
  · rcases List.mem_append.1 hn with hn | hn
    · rcases List.mem_append.1 hn with hn | hn
      · have : c.inherited.contains n = true := by simpa using hn
        rw [this] at hf; cases hf
      · exact Or.inl hn
    · split at hn
      · rename_i ha; simp at hn; exact Or.inr (Or.inl ⟨hn, ha⟩)
      · cases hn
  · split at hn
    · cases hn
    · exact Or.inr (Or.inr hn)

/-- entries the setattr block writes are not body objects -/
theorem mem_cd1_orig (c : Case) (k : String) (it : Item) (h : (k, Entry.orig it) ∈ cd1 c) :
    (k, Entry.orig it) ∈ cd0 c := by
  unfold cd1 at h
  cases hm : c.setattrMode with
  | none =>
    rw [hm] at h
    dsimp only at h
    split at h
    · rcases mem_set _ _ _ _ _ h with h | h
      · rcases mem_set _ _ _ _ _ h with h | h
        · exact h
        · cases h.2
      · cases h.2
    · rcases mem_set _ _ _ _ _ h with h | h
      · exact h
      · cases h.2
  | frozen => rw [hm] at h; exact h
  | hooks => rw [hm] at h; exact h

theorem mem_cd0_orig (c : Case) (k : String) (it : Item) (h : (k, Entry.orig it) ∈ cd0 c) :
    (k, it) ∈ c.body ∧ keepKey c k = true := by
  unfold cd0 at h
  obtain ⟨hm, hk⟩ := List.mem_filter.1 h
  refine ⟨?_, hk⟩
  unfold clsDict at hm
  rcases List.mem_append.1 hm with hm | hm
  · obtain ⟨kv, hkv, e⟩ := List.mem_map.1 hm
    cases e
    exact hkv
  · cases hs : c.setattrMode <;> rw [hs] at hm <;> simp at hm

theorem mem_cachedProps (c : Case) (n : String) (f : Fn) (h : (n, f) ∈ cachedProps c) :
    (n, Item.cprop f) ∈ c.body ∧ keepKey c n = true := by
  unfold cachedProps at h
  obtain ⟨kv, hkv, e⟩ := List.mem_filterMap.1 h
  obtain ⟨k, v⟩ := kv
  have : v = .orig (.cprop f) ∧ k = n := by
    cases v with
    | orig it => cases it <;> simp at e; exact ⟨by rw [e.2], e.1⟩
    | _ => simp at e
  obtain ⟨rfl, rfl⟩ := this
  exact mem_cd0_orig c k _ (mem_cd1_orig c k _ hkv)

theorem mem_cpropNames (c : Case) (n : String) (h : n ∈ cpropNames c) :
    ∃ f, (n, Item.cprop f) ∈ c.body ∧ keepKey c n = true := by
  unfold cpropNames at h
  obtain ⟨nf, hnf, rfl⟩ := List.mem_map.1 h
  exact ⟨nf.2, mem_cachedProps c nf.1 nf.2 hnf⟩

/-- with distinct keys, a key bound to something that is not a cached property is not a cached-property name -/
theorem not_cpropName (c : Case) (k : String) (it : Item) (hn : (c.body.map (·.1)).Nodup) (hm : (k, it) ∈ c.body)
    (hc : ∀ f, it ≠ .cprop f) : k ∉ cpropNames c := by
  intro h
  obtain ⟨f, hf, _⟩ := mem_cpropNames c k h
  have := nodup_body_unique c.body hn k it (.cprop f) hm hf
  exact hc f this

end Attrs.C08
