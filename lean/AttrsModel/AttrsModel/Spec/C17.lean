/-
  C17 — what the property demands of an observation.

  Part A (kind "herm"): every global load of every generated method reaches the object the *field
  specification* calls for under that name — the callback / Attribute of the right field, attrs's own
  sentinel or module, or the builtin — whatever the defining module binds and however the fields are
  called; and the class behaves as in a clean module and as with neutral field names.

  Part B (kinds "hist", "conc"): each class's code objects point at a cache entry holding exactly
  their own source; classes with different source never share a filename; entries that were there
  before are still there.
-/
import AttrsModel.Model.C17
import AttrsModel.Model.C17Cache

namespace Attrs.C17
open Lean

/-! ## part A -/

def nodupStr : List String → Bool
  | [] => true
  | a :: rest => !rest.contains a && nodupStr rest

/-- attrs refuses a mandatory positional parameter after a defaulted one (ValueError at definition) -/
def orderOk : List Field → Bool → Bool
  | [], _ => true
  | f :: rest, hadDefault =>
    if f.init && !f.kwOnly then
      if f.dflt == .none then !hadDefault && orderOk rest hadDefault
      else orderOk rest true
    else orderOk rest hadDefault

/-- the property's preconditions: a class definition Python and attrs accept -/
def wf (c : Case) : Bool :=
  nodupStr (c.fields.map (·.name)) &&
  nodupStr ("self" :: params c) &&
  c.fields.all (fun f => f.name != "" && f.alias != "" && (!f.eqKey || f.eq)) &&
  orderOk c.fields false &&
  (!c.cls.cacheHash || (c.cls.genHash && !c.cls.isExc && c.cls.genInit)) &&
  (!c.cls.frozen || ((c.cls.clsOnSetattr == .none || c.cls.clsOnSetattr == .noop) &&
                      c.fields.all (fun f => f.onSetattr == .unset))) &&
  (!c.cls.preInitArgs || c.cls.preInit)

/-- names under which attrs itself provides an object to generated code -/
def attrsObjectNames : List String :=
  ["NOTHING", "attr_dict", "_config", "_compat", "_cached_setattr_get", "cached_properties", "original_getattr"]

/-- builtins the generated methods use by name -/
def usedBuiltins : List String :=
  ["NotImplemented", "AttributeError", "BaseException", "id", "getattr", "hash", "object", "__import__",
   "super", "hasattr"]

def initRuns (f : Field) : Bool := inInit f

/-- is `e` a correct resolution?  (declarative: field options ⇒ which object each name must mean) -/
def entryOk (c : Case) (e : Entry) : Bool :=
  match e.obj.kind with
  | .fixed => e.obj.arg == e.name && (attrsObjectNames.contains e.name || usedBuiltins.contains e.name)
  | .builtin => e.obj.arg == e.name && usedBuiltins.contains e.name
  | .factory => e.meth == "init" &&
      c.fields.any (fun f => f.name == e.obj.arg && initRuns f && hasFactory f && e.name == factoryName f.name)
  | .converter => e.meth == "init" &&
      c.fields.any (fun f => f.name == e.obj.arg && initRuns f && hasConv f && e.name == converterName f.name)
  | .validator => e.meth == "init" &&
      c.fields.any (fun f => f.name == e.obj.arg && initRuns f && f.validator && e.name == validatorName f.name)
  | .attribute => e.meth == "init" &&
      c.fields.any (fun f => f.name == e.obj.arg && initRuns f && f.validator && e.name == attributeName f.name)
  | .key =>
      (e.meth == "eq" && c.fields.any (fun f => f.name == e.obj.arg && f.eq && f.eqKey && e.name == eqKeyName f.name)) ||
      (e.meth == "hash" && c.fields.any (fun f => f.name == e.obj.arg && hashPart f && f.eqKey && e.name == hashKeyName f.name))
  | .reprFn => e.meth == "repr" &&
      c.fields.any (fun f => f.name == e.obj.arg && f.repr == .custom && e.name == reprCallName f.name)
  | .module | .unbound | .other => false

/-- resolutions the field specification calls for: every callback a field declares must be what the
    method that uses it finds under the callback's name, and the sentinels the protocol needs must be
    attrs's own -/
def required (c : Case) : List Entry :=
  (c.fields.filter initRuns).flatMap (fun f =>
    (if hasFactory f then [({ meth := "init", name := factoryName f.name, obj := ⟨.factory, f.name⟩ } : Entry)] else []) ++
    (if hasConv f then [{ meth := "init", name := converterName f.name, obj := ⟨.converter, f.name⟩ }] else []) ++
    (if f.validator then [{ meth := "init", name := validatorName f.name, obj := ⟨.validator, f.name⟩ },
                          { meth := "init", name := attributeName f.name, obj := ⟨.attribute, f.name⟩ },
                          { meth := "init", name := "_config", obj := ⟨.fixed, "_config"⟩ }] else []) ++
    (if f.init && hasFactory f then [{ meth := "init", name := "NOTHING", obj := ⟨.fixed, "NOTHING"⟩ }] else []) ++
    (if takesField f || (!f.init && f.dflt == .value)
      then [{ meth := "init", name := "attr_dict", obj := ⟨.fixed, "attr_dict"⟩ }] else [])) ++
  (if c.cls.isExc then [{ meth := "init", name := "BaseException", obj := ⟨.fixed, "BaseException"⟩ }] else []) ++
  (if eqGenerated c then
    (c.fields.filter (fun f => f.eq && f.eqKey)).map
      (fun f => ({ meth := "eq", name := eqKeyName f.name, obj := ⟨.key, f.name⟩ } : Entry)) else []) ++
  (if hashGenerated c then
    (c.fields.filter (fun f => hashPart f && f.eqKey)).map
      (fun f => ({ meth := "hash", name := hashKeyName f.name, obj := ⟨.key, f.name⟩ } : Entry)) else []) ++
  (if c.cls.genRepr then
    (c.fields.filter (fun f => f.repr == .custom)).map
      (fun f => ({ meth := "repr", name := reprCallName f.name, obj := ⟨.reprFn, f.name⟩ } : Entry)) else [])

def spec (c : Case) (o : Obs) : Bool :=
  o.defErr == "" &&
  o.poisonOk && o.neutralOk && o.sourceOk && o.sharedOk &&
  o.table.all (entryOk c) &&
  (required c).all (fun r => o.table.contains r)

/-- K17c: an `__init__` parameter shadows a global (or local helper) of the same name in the body.
    (K17a — module-level `NotImplemented` shadowing `__eq__`'s — and K17b — `_x_key` / `x_repr` helper
    names coinciding with `__attr_…_y` names — are repaired in attrs; see Proofs/C17OldScheme.lean.) -/
def knownK17c (c : Case) : Bool := paramShadows c

def known (c : Case) : List String := if knownK17c c then ["K17c"] else []

def sameSet {α : Type} [BEq α] (a b : List α) : Bool := a.all (b.contains ·) && b.all (a.contains ·)

def agreeA (m o : Obs) : Bool :=
  m.defErr == o.defErr && sameSet m.table o.table && sameSet m.injected o.injected &&
  m.poisonOk == o.poisonOk && m.neutralOk == o.neutralOk && m.sourceOk == o.sourceOk &&
  m.sharedOk == o.sharedOk

def check : Check Case Obs := { model := model, spec := spec, wf := wf, known := known }

/-! ## part B -/

def cacheWf (c : CacheCase) : Bool :=
  c.modul != "" && c.defs.all (·.qual != "") && c.sched.all (· < c.defs.length) &&
  nodupStr ((preCache c).map (·.1))

def entryOf (entries : List (String × Nat)) (fn : String) : Option Nat :=
  (entries.find? (·.1 == fn)).map (·.2)

def Def.refused (d : Def) : Bool := d.fails == some true

def cacheSpec (c : CacheCase) (o : CacheObs) : Bool :=
  o.files.length == c.defs.length &&
  -- each class's filename maps to that class's own script — whatever definitions, successful or
  -- refused after code generation, came before, after or in between
  (c.defs.zip o.files).all (fun p => p.1.refused || entryOf o.entries p.2 == some p.1.script) &&
  -- classes with different source never share a filename
  (c.defs.zip o.files).all (fun p => (c.defs.zip o.files).all (fun q =>
      p.1.refused || q.1.refused || p.1.script == q.1.script || p.2 != q.2)) &&
  -- what was cached before is still cached
  (c.pre.all (fun p => entryOf o.entries (candidate (uniqueFilename c.funcName c.modul p.1) p.2.1) == some p.2.2)) &&
  -- the cached text is the code that runs, for every class, and later definitions leave it alone
  o.sourceOk.all id && o.sourceOk.length == c.defs.length &&
  o.stable.all id

def cacheKnown (_ : CacheCase) : List String := []

/-- filenames of the classes that exist (a refused definition leaves no class to ask) -/
def liveFiles (c : CacheCase) (files : List String) : List String :=
  (c.defs.zip files).map (fun p => if p.1.refused then "" else p.2)

def agreeB (c : CacheCase) (m o : CacheObs) : Bool :=
  if o.realised then
    m.files.length == o.files.length && liveFiles c m.files == liveFiles c o.files && sameSet m.entries o.entries && m.sourceOk == o.sourceOk && m.stable == o.stable
  else
    -- an interleaving the interpreter would not take: only the schedule-independent part is compared
    m.sourceOk == o.sourceOk && m.stable == o.stable && m.files.length == o.files.length

/-- both scripts of every definition obey the same specification -/
def histSpec (c : CacheCase) (o : HistObs) : Bool :=
  cacheSpec c o.main && cacheSpec (gcase c) (o.sub c)

/-- the `getattr` filenames are predicted for sequential histories only: in a concurrent run only the
    operations on the `methods` files are scheduled -/
def histAgree (sequential : Bool) (c : CacheCase) (m o : HistObs) : Bool :=
  agreeB c m.main o.main &&
  (!sequential || !o.realised || agreeB (gcase c) (m.sub c) (o.sub c))

def cacheCheck : Check CacheCase HistObs :=
  { model := histModel, spec := histSpec, wf := cacheWf, known := cacheKnown }

/-! ## protocol -/

def handle (case obs : Json) : Except String Reply := do
  let kind ← (case.getObjValAs? String "kind")
  if kind == "herm" then
    let c ← fromJson? (α := Case) case
    let o ← fromJson? (α := Obs) obs
    let m := model c
    pure { agree := agreeA m o, specModel := spec c m, specObs := spec c o, wf := wf c,
           known := known c, model := toJson m }
  else
    let c ← fromJson? (α := CacheCase) case
    let o ← fromJson? (α := HistObs) obs
    let m := histModel c
    pure { agree := histAgree (kind == "hist") c m o, specModel := histSpec c m, specObs := histSpec c o, wf := cacheWf c,
           known := cacheKnown c, model := toJson m }

end Attrs.C17
