/-
  C08, metamorphic part — the two builds of one specification agree on construction (signature,
  annotations, outcome, values, callback trace, exception args) and on every other observable group.
-/
import AttrsModel.Model.C08Meta
import AttrsModel.Spec.C02

namespace Attrs.C08
open Attrs.Init

/-- a field specification without its layout fact -/
def unslot (a : Attr) : Attr := { a with isSlot := false }

/-- both cases describe the same specification, the same call and the same failing callback; they differ in
    `slots` and in the layout facts read from the two real classes -/
def sameSpec (c : MetaCase) : Bool :=
  let r := c.on.run
  let s := c.off.run
  r.cfg.slots && !s.cfg.slots &&
  r.cfg.frozen == s.cfg.frozen && r.cfg.cacheHash == s.cfg.cacheHash && r.cfg.isExc == s.cfg.isExc &&
  r.cfg.pre == s.cfg.pre && r.cfg.post == s.cfg.post && r.cfg.runValidators == s.cfg.runValidators &&
  r.cfg.collectByMro == s.cfg.collectByMro &&
  r.attrs.map unslot == s.attrs.map unslot && r.own == s.own && r.fault == s.fault &&
  c.on.call == c.off.call && c.on.isDefine == c.off.isDefine && c.on.clsOnSet == c.off.clsOnSet

def caseWf (c : Init.Case) : Bool :=
  C01.wf { c with run := { c.run with fault := none } } &&
  (c.run.fault.isNone || callOk (params c.run.attrs) c.call)

def metaWf (c : MetaCase) : Bool := caseWf c.on && caseWf c.off && sameSpec c

def metaSpec (_ : MetaCase) (o : MetaObs) : Bool :=
  o.on == o.off && o.diff == [] && o.resetOn == o.resetOff

/-- K6 ("slotted confused"): the slotted build resets an inherited attrs-made `__setattr__` only when a direct
    base carries the flag itself, the dict build when the flag resolved along the MRO is true; with a plain
    class as the direct base of the leaf and a hooked attrs class above it the slotted leaf keeps the
    ancestor's hooks (they fire during `__init__` / `__attrs_init__` and on assignment), the dict leaf does not -/
def metaResetDiffers (c : MetaCase) : Bool := metaSlotsReset c != metaDictReset c

/-- K3 (a frozen dict class stores an inherited slot field in `__dict__`, where lookup does not find it) can
    only hit the dict build (`C01_misplaced_needs_frozen_dict`): the two builds then differ. -/
def metaKnown (c : MetaCase) : List String :=
  (if c.off.eff.attrs.any (C01.misplaced c.off.eff) || c.on.eff.attrs.any (C01.misplaced c.on.eff) then ["K3"] else []) ++
  (if metaResetDiffers c then ["K6"] else [])

def metaCheck : Check MetaCase MetaObs :=
  { model := metaModel, spec := metaSpec, wf := metaWf, known := metaKnown }

end Attrs.C08
