/-
  C12 — what the property demands: evolve = the class's initializer on (changes ∪ current values of the
  other init fields); assoc = independent copy with named fields replaced; unknown names rejected; the
  original untouched; the result satisfies the class invariants.
-/
import AttrsModel.Model.C12
import AttrsModel.Spec.C01

namespace Attrs.C12
open Attrs.Init

def wf (c : Case) : Bool :=
  let attrs := c.base.run.attrs
  c.cur.map (·.1) == attrs.map (·.name) &&
  C01.distinct (c.changes.map (·.1)) &&
  c.changes.all (·.2 != NOTHING) && c.cur.all (fun kv => kv.2 != some NOTHING) &&
  C01.wf { c.base with call := { pos := [], kw := [] } } &&
  -- the original is a fully constructed instance: every init field is set
  (attrs.filter (·.init)).all (fun a => (curOf c.cur a.name).isSome) &&
  -- copying (assoc) through a generated `__getstate__` presupposes that every field is set, as C10 states for
  -- copies; a plain dict copy carries an unset field over as unset
  (c.op == .evolve || c.cur.all (·.2.isSome) || !c.copyNeedsAll)

def known (c : Case) : List String :=
  C01.known c.base ++ (if cacheMisplaced c.base.run && c.op == .evolve then ["K2"] else [])

/-- the value evolve passes for an init field: the change, else the current value -/
def passedFor (c : Case) (a : Attr) : Option Val :=
  match lookup a.alias c.changes with
  | some v => some v
  | none => curOf c.cur a.name

/-- the object a judged field must hold: the one given as the change, else the original's -/
def identDemand (changed : Bool) : Ident := if changed then .passed else .orig

/-- … and a field the original does not hold and that is not named stays unset (assoc) -/
def identDemandV (changed : Bool) (v : Option Val) : Ident :=
  if changed then .passed else if v.isSome then .orig else .unset

/-- what a direct call of the class with evolve's arguments stores: changed fields hold conv(new), other init
    fields conv(current), init=False fields are re-derived -/
def expectedValues (c : Case) : List (String × Option Val) :=
  c.base.run.attrs.map (fun a => (a.name,
    if a.init then (passedFor c a).map (convApply a)
    else match a.dflt with
      | .none => none
      | .value => some (convApply a (dfltVal a))
      | .factory ts => some (convApply a (factoryVal a ts))))

/-- some validator of the class (of ANY field that gets a statement, changed or carried over) rejects the
    instance holding those values: the class refuses to construct it -/
def vetoed (c : Case) : Bool :=
  c.base.run.cfg.runValidators &&
  (validatorIds c.base.run.attrs).any (fun ni => vetoFires c.veto (expectedValues c) ni.1 ni.2)

def spec (c : Case) (o : Obs) : Bool :=
  let attrs := c.base.run.attrs
  o.orig == c.cur &&
  (match c.op with
   | .evolve =>
     if c.changes.all (fun kv => (attrs.filter (·.init)).any (·.alias == kv.1)) then
       -- evolve is a call of the class with (changes ∪ current values): same exception, values, callbacks
       o.likeDirect &&
       (if vetoed c then
          -- what the class refuses to construct evolve must not hand out: the validator's exception
          o.exc == some .user
        else
          o.exc == none && o.fresh && o.invariants &&
          o.values == expectedValues c &&
          -- an init field without converter holds the very object given for it (the change, else the original's)
          (attrs.filter (·.init)).all (fun a => a.conv.isSome ||
            o.ident.contains (a.name, identDemand (c.changes.any (·.1 == a.alias)))))
     else o.exc == some .typeError
   | .assoc =>
     if c.changes.all (fun kv => attrs.any (·.name == kv.1)) then
       o.exc == none && o.fresh && o.invariants &&
       o.values == c.cur.map (fun kv => (kv.1, match lookup kv.1 c.changes with | some w => some w | none => kv.2)) &&
       -- replaced means replaced by the object given (also when it equals the old one); the rest is shared
       c.cur.all (fun kv => o.ident.contains (kv.1, identDemandV (c.changes.any (·.1 == kv.1)) kv.2)) &&
       -- raw writes: no converter, validator or hook of the class runs
       o.trace == []
     else o.exc == some .notFound)

def check : Check Case Obs := { model := model, spec := spec, wf := wf, known := known }

def handle := runCheck check

end Attrs.C12
