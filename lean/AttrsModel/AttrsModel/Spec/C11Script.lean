/-
  C11, T3 part — translation validation of the generated `__repr__`'s source.

  A `"script"` case describes a class; the observation is the IR the harness parsed from the real
  source text of the class's generated `__repr__` (harness/c11_ir.py), together with what each helper
  global of that function is bound to.

    model  = `genScript` of the class's fields and `repr_ns`;
    agree  = syntactic equality of the two scripts (statements, fragments, helper bindings);
    spec   = executing the OBSERVED script (`execScript`, through `modelS`) for the instances of a
             canonical family of heaps over that class — all fields set / each field unset / nothing
             set / every field pointing back to the instance, directly, through a list and through a
             second instance — from a fresh and a warm thread, first with the class's faults armed,
             then again, then `str`, and with two interleaved threads, yields what `C11.spec` demands.

  A behaviour-preserving rewrite of the emitted text is a disagreement whose spec still holds; a script
  that computes something else on some member of the family is a violation.  A script with an
  untranslated statement cannot be executed: its spec is vacuously true and it is reported through the
  disagreement.  With `C11_script_correct` (executing `genScript` IS the model's resumption), agreement
  on a class binds every theorem of C11 to the text that really runs for that class.
-/
import AttrsModel.Model.C11IR
import AttrsModel.Spec.C11Base

namespace Attrs.C11.Script
open Attrs.C11.IR Lean

structure Case where
  cls : Cls
  deriving Repr, FromJson, ToJson, Inhabited

structure Obs where
  script : Script
  deriving BEq, Repr, FromJson, ToJson, Inhabited

/-- every field of the class pointing at node `tgt`, except the ones named in `skip` -/
def valsTo (c : Cls) (tgt : Nat) (skip : List String) : List (String × Nat) :=
  (c.fields.filter fun f => !skip.contains f.name).map fun f => (f.name, tgt)

def mkCase (c : Cls) (nodes : List Node) (warm : Bool) (threads : Nat) : C11.Case :=
  { heap := { classes := [c], nodes := nodes }, root := 0, warm := warm, threads := threads,
    sched := if threads = 0 then [] else [0, 1, 0, 1, 1, 0, 0, 1, 1, 1, 0] }

/-- the canonical family of operands of a class -/
def operands (c : Cls) : List C11.Case :=
  let names := c.fields.map (·.name)
  let shapes : List (List Node) :=
    [ [.inst 0 (valsTo c 1 []), .atom "7"],                                   -- all set
      [.inst 0 []],                                                           -- nothing set
      [.inst 0 (valsTo c 0 [])],                                              -- every field is the instance
      [.inst 0 (valsTo c 1 []), .list [0, 0]],                                -- back through a list
      [.inst 0 (valsTo c 1 []), .inst 0 (valsTo c 0 [])] ]                    -- back through a second instance
    ++ names.map (fun n => [.inst 0 (valsTo c 1 [n]), .atom "7"])            -- each field unset
  (shapes.flatMap fun nodes => [mkCase c nodes false 0, mkCase c nodes true 0])
    ++ [mkCase c [.inst 0 (valsTo c 1 []), .list [0]] false 2]

structure Witness where
  case : C11.Case
  got  : C11.Obs
  deriving ToJson

/-- the first operand on which the script does not do what the property demands -/
def firstFailure (c : Case) (s : Script) : Option Witness :=
  (operands c.cls).findSome? fun case =>
    let o := modelS s case
    if C11.spec case o then none else some { case := case, got := o }

def spec (c : Case) (o : Obs) : Bool :=
  o.script.hasUnknown || (operands c.cls).all fun case => C11.spec case (modelS o.script case)

def model (c : Case) : Obs := { script := genScript c.cls.fields c.cls.reprNs }

def wf (c : Case) : Bool := c.cls.wf && decide ((c.cls.fields.map (·.name)).Nodup)

def known (_ : Case) : List String := []

def check : Check Case Obs := { model := model, spec := spec, wf := wf, known := known }

/-- `runCheck check`, with the failing operand of the observed script (if any) attached to the model
    output as a diagnostic for the replay file -/
def handle (case obs : Json) : Except String Reply := do
  let c ← fromJson? (α := Case) case
  let o ← fromJson? (α := Obs) obs
  let m := model c
  let w : Json := if o.script.hasUnknown then Json.null else
    match firstFailure c o.script with
    | some w => toJson w
    | none => Json.null
  pure { agree := m == o, specModel := spec c m, specObs := spec c o, wf := wf c, known := known c,
         model := Json.mkObj [("script", toJson m.script), ("failing_operand_of_observed_script", w)] }

end Attrs.C11.Script
