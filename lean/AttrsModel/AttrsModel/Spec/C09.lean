/-
  C09 — what the property demands of an observation, written from the statement and the documented
  tables (docs/comparison.md, the `attr.s` / `define` docstrings), not by re-running the model:
    * definition time: `cmp` mixed with `eq`/`order` and `order=True` with `eq=False` are rejected
      (class level and field level), everything else is accepted;
    * ordering is generated iff the documented table says so (mirrors eq under attr.s, off by
      default under define, explicit flags win, auto-detection of own methods only when asked);
    * when generated: same class ⇒ each of the four methods / operators gives exactly the result of
      comparing the tuples of order-participating (keyed) field values, in field order, inherited
      fields first; any other class ⇒ NotImplemented, no value is compared, the operator raises
      TypeError in both directions;
    * x<y ⇔ y>x, x<=y ⇔ y>=x (values' reflected comparisons agree — see Model); for value domains
      that are strict total orders compatible with `==`: x<=y ⇔ x<y ∨ tuples equal (same for >=).
-/
import AttrsModel.Model.C09

namespace Attrs.C09

/-! ### well-formedness of cases -/

def ofB (b : Bool) : Out := if b then .T else .F

/-- the comparisons of two natural numbers -/
def natScript (a b : Nat) : Script :=
  { eq := ofB (a == b), lt := ofB (decide (a < b)), le := ofB (decide (a ≤ b)),
    gt := ofB (decide (b < a)), ge := ofB (decide (b ≤ a)) }

def natPairOk (p : Pair) (a b : Nat) : Bool :=
  p.s == natScript a b && (!p.same || a == b)

def natOk (f : Field) : Bool :=
  match f.nat with
  | none => true
  | some n =>
    natPairOk f.raw n.rx n.ry && natPairOk f.ek n.ex n.ey && natPairOk f.ok n.ox n.oy &&
    -- key functions are functions: the same raw object gives equal keys
    (!f.raw.same || (n.ex == n.ey && n.ox == n.oy))

/-- distinct field names, no method listed twice, declared numbers match the scripts -/
def wf (c : Case) : Bool :=
  (c.fields.map (·.name)).eraseDups.length == c.fields.length &&
  c.own.eraseDups.length == c.own.length &&
  c.fields.all natOk

/-! ### definition time -/

def FArg.given (a : FArg) : Bool := a != .unset

/-- `attr.ib(cmp=…, eq=…, order=…)` must be rejected -/
def fieldRejected (f : Field) : Bool :=
  (f.cmp.given && (f.eq.given || f.order.given)) ||
  (f.eq == .f && (f.order == .t || f.order == .key))

/-- documented participation: `order=` wins, else `cmp=`, else ordering mirrors `eq=` (key included) -/
def declPart (f : Field) : Bool × View :=
  match f.order, f.cmp, f.eq with
  | .t, _, _ => (true, .raw)
  | .f, _, _ => (false, .raw)
  | .key, _, _ => (true, .ok)
  | .unset, .t, _ => (true, .raw)
  | .unset, .f, _ => (false, .raw)
  | .unset, .key, _ => (true, .ck)
  | .unset, .unset, .f => (false, .raw)
  | .unset, .unset, .key => (true, .ek)
  | .unset, .unset, _ => (true, .raw)

def Arg4.given (a : Arg4) : Bool := a == .t || a == .f
def Arg4.val (a : Arg4) : Bool := a == .t

/-- documented class-level table -/
inductive Decl where
  | reject   -- ValueError at definition time
  | on | off
  | auto     -- on, unless auto_detect is in force and the class body has one of the four methods
  deriving DecidableEq, Repr

def onOff (b : Bool) : Decl := if b then .on else .off

def declClass (api : Api) (cmp eq order : Arg4) : Decl :=
  if cmp.given && (eq.given || order.given) then .reject
  else if cmp.given then onOff cmp.val
  else
    -- effective eq: explicit, else "default" (make_class resolves the default to True itself)
    let eqEff : Decl := if eq.given then onOff eq.val else if api == .makeClass then .on else .auto
    if order.given then
      if order.val && eqEff == .off then .reject else onOff order.val
    else if api == .define && order == .unset then .off     -- define: order=False by default
    else eqEff                                               -- ordering mirrors equality

/-- documented default of auto_detect: True for define, False for attr.s / make_class -/
def declAutoDetect (c : Case) : Bool :=
  match c.autoDetect with
  | .t => true
  | .f => false
  | .unset => c.api == .define

def declRejects (c : Case) : Bool := declClass c.api c.cmp c.eq c.order == .reject

def declGenerated (c : Case) : Bool :=
  match declClass c.api c.cmp c.eq c.order with
  | .on => true
  | .auto => !(declAutoDetect c && !c.own.isEmpty)
  | _ => false

/-- `make_class(..., auto_detect=True)` with an ordering method in `class_body` and nothing said about
    cmp/eq/order: neither the statement nor the documentation says whether make_class's own default
    (it resolves eq to True before calling attr.s) counts as an explicit flag that overrides
    auto-detection (it does on the pinned tree: `declClass` says `on`); leaving the user's methods alone
    is accepted too. -/
def unspecified (c : Case) : Bool :=
  c.api == .makeClass && !c.cmp.given && !c.eq.given && !c.order.given && declAutoDetect c && !c.own.isEmpty

/-! ### comparison -/

def eqish (it : Item) : Bool := it.same || it.s.eq.isTruthy

/-- tuple comparison, declaratively: look at the first position whose items are neither identical
    nor equal; none ⇒ the tuples are equal (`<`,`>` False, `<=`,`>=` True); otherwise whatever the
    operator gives on that pair (an exception if its `==` raised). -/
def declCmp (op : Op) (items : List Item) : Res :=
  match items.find? (fun it => !eqish it) with
  | none => lenRes op
  | some it => if it.s.eq == .raises then .raised else Res.ofOut (it.s.get op)

def declItem (fwd identical : Bool) (f : Field) : Item :=
  let v := (declPart f).2
  let p := match v with | .raw => f.raw | .ek => f.ek | _ => f.ok
  { tag := f.name ++ v.suffix,
    same := identical || f.raw.same || (v != .raw && p.same),
    s := if fwd then p.s else p.s.mirror }

/-- order-participating fields of C in field order (inherited ones first) as tuple positions -/
def declItems (c : Case) (fwd : Bool) : List Item :=
  ((c.fields.filter (·.inBase) ++ c.fields.filter (fun f => !f.inBase)).filter (fun f => (declPart f).1)).map
    (declItem fwd (c.rhs == .identical))

/-- the documented keyed order fields of C, as `name:view` -/
def declKeyTags (c : Case) : List String :=
  ((c.fields.filter (·.inBase) ++ c.fields.filter (fun f => !f.inBase)).filter
      (fun f => (declPart f).1 && (declPart f).2 != .raw)).map (fun f => f.name ++ (declPart f).2.suffix)

def sameClass (c : Case) : Bool := c.rhs == .same || c.rhs == .identical

def Script.boolean (s : Script) : Bool :=
  [s.eq, s.lt, s.le, s.gt, s.ge].all (fun o => o == .T || o == .F)

/-- the script of a strict total order compatible with `==`: exactly one of `<`, `==`, `>`;
    `<=` is `<` or `==`; `>=` is `>` or `==` -/
def Script.total (s : Script) : Bool :=
  s.boolean &&
  ((s.lt == .T && s.eq == .F && s.gt == .F) || (s.lt == .F && s.eq == .T && s.gt == .F) ||
   (s.lt == .F && s.eq == .F && s.gt == .T)) &&
  s.le == ofB (s.lt == .T || s.eq == .T) && s.ge == ofB (s.gt == .T || s.eq == .T)

/-- the values compared form a strict total order compatible with `==` and identity:
    every position's script is total, identical ⇒ equal -/
def orderly (c : Case) : Bool :=
  (declItems c true).all (fun it => it.s.total && (!it.same || it.s.eq == .T))

def tuplesEqual (c : Case) : Bool := (declItems c true).all eqish

def allowedTags (its : List Item) : List String :=
  its.flatMap (fun it => [it.tag ++ ":eq", it.tag ++ ":ord"])

def ResQ.all (q : ResQ) (p : Res → Bool) : Bool := p q.lt && p q.le && p q.gt && p q.ge
def ResQ.get (q : ResQ) : Op → Res
  | .lt => q.lt | .le => q.le | .gt => q.gt | .ge => q.ge
def TrQ.get (q : TrQ) : Op → List String
  | .lt => q.lt | .le => q.le | .gt => q.gt | .ge => q.ge
def StQ.toList (q : StQ) : List Status := [q.lt, q.le, q.gt, q.ge]

def allOps : List Op := [.lt, .le, .gt, .ge]

def specSame (c : Case) (o : Obs) : Bool :=
  let its := declItems c true
  let rits := declItems c false
  allOps.all (fun op =>
    o.direct.get op == declCmp op its &&
    o.ops.get op == declCmp op its &&
    o.rops.get op == declCmp op rits &&
    -- only order-participating fields are compared, each through its order key
    (o.trace.get op).all (fun t => (allowedTags its).contains t) &&
    -- only the keys of order-participating keyed fields are ever applied
    (o.keys.get op).all (fun t => (declKeyTags c).contains t)) &&
  -- mutual consistency: converse (values' reflected comparisons agree) …
  o.ops.lt.isTruthy == o.rops.gt.isTruthy && o.ops.le.isTruthy == o.rops.ge.isTruthy &&
  o.ops.gt.isTruthy == o.rops.lt.isTruthy && o.ops.ge.isTruthy == o.rops.le.isTruthy &&
  -- … and, over a strict total order, `<=` is `<` or equal tuples
  (!orderly c ||
    (o.ops.le.isTruthy == (o.ops.lt.isTruthy || tuplesEqual c) &&
     o.ops.ge.isTruthy == (o.ops.gt.isTruthy || tuplesEqual c)))

def specOther (o : Obs) : Bool :=
  o.direct.all (· == .NI) && o.ops.all (· == .typeErr) && o.rops.all (· == .typeErr) &&
  o.trace.lt == [] && o.trace.le == [] && o.trace.gt == [] && o.trace.ge == [] &&
  o.keys.lt == [] && o.keys.le == [] && o.keys.gt == [] && o.keys.ge == []

def spec (c : Case) (o : Obs) : Bool :=
  if c.api == .define && c.cmp != .unset then true      -- define() has no cmp=: outside the statement
  else
    o.fieldErrs == (c.fields.filter fieldRejected).map (·.name) &&
    (o.clsErr == .valueError) == declRejects c &&
    if declRejects c || c.fields.any fieldRejected then !o.built
    else
      o.clsErr == .ok && o.built &&
      ((unspecified c && o.status.toList.all (· != .gen)) ||
       ((if declGenerated c then o.status.toList.all (· == .gen) else o.status.toList.all (· != .gen)) &&
        (if declGenerated c then (if sameClass c then specSame c o else specOther o) else true)))

def known (_ : Case) : List String := []

def check : Check Case Obs := { model := model, spec := spec, wf := wf, known := known }

def handle := runCheck check

end Attrs.C09
