/-
  C01, T3 part — translation validation of the generated initializer's source.

  A `"script"` case describes a class (no call); the observation is the IR the harness parsed from the real
  source text of the class's `__init__` / `__attrs_init__` (harness/ir_from_source.py).

    model  = `genInit c.eff`, the script the model generator emits for the class;
    agree  = syntactic equality of the two scripts;
    spec   = executing the OBSERVED script (`execScript`, through `scriptObs`) on a canonical family of calls
             derived from its own parameter list — every subset of the optional parameters supplied by
             keyword, at most 64 calls — yields exactly what `C01.spec` and `C02.spec` demand (values,
             outcome, signature; the complete callback trace; and, for every callback of that trace failing,
             the cut trace / stored prefix of C02; and the validator switch off).

  So a behaviour-preserving rewrite of the emitted text is a disagreement whose spec still holds (the verdict
  rules then search for a failing input and report `no-failing-input-found`), while a script that computes
  something else for some call shape is a violation, whichever call shapes the T2 sampler happened to try.
  A script with an untranslated statement cannot be executed: its spec is vacuously true and it is reported
  through the disagreement.

  With `C01_script_correct` (Properties/C01.lean: executing `genInit r` *is* `body r`), agreement on a sampled
  class binds every ∀-call theorem of C01/C02 to the text that really runs for that class.
-/
import AttrsModel.Model.InitIR
import AttrsModel.Spec.C02

namespace Attrs.C01.Script
open Attrs.Init Lean

structure Case where
  run : RunIn
  isDefine : Bool
  clsOnSet : ClsOnSet
  deriving Repr, FromJson, ToJson, Inhabited

structure Obs where
  script : InitScript
  deriving DecidableEq, Repr, FromJson, ToJson, Inhabited

/-- Historical note: T3 found that an explicitly written `on_setattr=[setters.convert, setters.validate]` is a
    fresh pipe object which `_ClassBuilder.__init__` never normalises away (only the `_DEFAULT_ON_SETATTR` object
    itself, `setters.validate` and `setters.convert` are), while the model treated it like define's default. The
    two readings cannot be told apart by behaviour, only by the generated text. `Init.clsHookOf` now follows the
    code (`.pipeCV` is a hook like any other), so no translation is needed here any more. -/
def asWritten : ClsOnSet → ClsOnSet := id

/-- the class with one call, a fault position and a validator-switch state -/
def Case.at (c : Case) (call : Call) (fault : Option EventId) (runV : Bool) : Init.Case :=
  { run := { c.run with fault := fault, cfg := { c.run.cfg with runValidators := runV } },
    call := call, isDefine := c.isDefine, clsOnSet := asWritten c.clsOnSet }

def Case.eff (c : Case) : RunIn := (c.at { pos := [], kw := [] } c.run.fault c.run.cfg.runValidators).eff

def subsets {α : Type} : List α → List (List α)
  | [] => [[]]
  | x :: xs => let r := subsets xs; r ++ r.map (x :: ·)

/-- which optional parameters are supplied: all subsets when there are at most 6 of them; otherwise none,
    all, every single one, every all-but-one, then further subsets up to the cap -/
def optionalChoices (opt : List String) : List (List String) :=
  if opt.length ≤ 6 then subsets opt else
  let special := [[], opt] ++ opt.map (fun p => [p]) ++ opt.map (fun p => opt.filter (· != p))
  (special ++ (subsets opt).filter (fun s => !special.contains s)).take 64

def tokenOf (p : String) : Val := "t." ++ p

/-- the canonical calls of a parameter list: mandatory parameters always supplied, everything by keyword -/
def calls (s : InitScript) : List Call :=
  let opt := (s.params.filter (fun p => p.dflt != .required)).map (·.name)
  (optionalChoices opt).map (fun chosen =>
    { pos := [],
      kw := (s.params.filter (fun p => p.dflt == .required || chosen.contains p.name)).map
              (fun p => (p.name, tokenOf p.name)) })

/-- one run of the script: what C01 demands (when no callback fails) and what C02 demands -/
def holdsAt (c : Case) (s : InitScript) (call : Call) (fault : Option EventId) (runV : Bool) : Bool :=
  let ic := c.at call fault runV
  let o := scriptObs s ic.eff call
  (fault.isSome || C01.spec ic (C01.view o)) &&
  C02.spec ic { o with cache := none }

/-- the runs checked for one call: no fault; each callback of the expected trace failing; validators off -/
def runsOf (c : Case) (call : Call) : List (Option EventId × Bool) :=
  let ic := c.at call none true
  [(none, true), (none, false)] ++ (C02.expectedTrace ic.eff call).map (fun e => (some e.id, true))

structure Witness where
  call : Call
  fault : Option EventId
  runValidators : Bool
  got : Init.Obs
  deriving ToJson

/-- the first run on which the script does not do what the property demands -/
def firstFailure (c : Case) (s : InitScript) : Option Witness :=
  (calls s).findSome? (fun call =>
    (runsOf c call).findSome? (fun fr =>
      if holdsAt c s call fr.1 fr.2 then none
      else some { call := call, fault := fr.1, runValidators := fr.2,
                  got := scriptObs s (c.at call fr.1 fr.2).eff call }))

def spec (c : Case) (o : Obs) : Bool :=
  o.script.hasUnknown || (firstFailure c o.script).isNone

def model (c : Case) : Obs := { script := genInit c.eff }

def wf (c : Case) : Bool := C01.wf (c.at { pos := [], kw := [] } c.run.fault c.run.cfg.runValidators)

def known (c : Case) : List String := C01.known (c.at { pos := [], kw := [] } c.run.fault c.run.cfg.runValidators)

def check : Check Case Obs := { model := model, spec := spec, wf := wf, known := known }

/-- `runCheck check`, with the failing run of the observed script (if any) attached to the model output as a
    diagnostic for the replay file -/
def handle (case obs : Json) : Except String Reply := do
  let c ← fromJson? (α := Case) case
  let o ← fromJson? (α := Obs) obs
  let m := model c
  let w : Json := if o.script.hasUnknown then Json.null else
    match firstFailure c o.script with
    | some w => toJson w
    | none => Json.null
  pure { agree := m == o, specModel := spec c m, specObs := spec c o, wf := wf c, known := known c,
         model := Json.mkObj [("script", toJson m.script), ("failing_run_of_observed_script", w)] }

end Attrs.C01.Script
