/-
  C14 — what the property demands, written as the *documented* decision table over the names the class
  body binds (no class dict, no builder, no code order), with the documented defaults written out by hand
  (the model reads them from the T1 tables; `C14_defaults_documented` compares the two).

  Reading of the statement fixed here:
    * "told to generate" a name = the documented table decides to generate its group: an explicit `True`, or
      no explicit flag and (no auto-detection, or none of the group's names is the class's own) and the
      documented default is on.  Under plain `attr.s` (auto_detect off) the defaults *do* tell attrs to write
      `__repr__`, `__eq__`, `__init__`, … over methods the body defines; that is documented and allowed.
    * frozen classes (by argument or by inheriting from a frozen attrs class) are told to get attrs'
      `__setattr__`/`__delattr__`; an effective `on_setattr` tells attrs to write `__setattr__`.
    * `__hash__`: three outcomes (generate / set to None / leave alone), documented in terms of eq and frozen.
    * an own `__hash__` includes the `__hash__ = None` CPython adds to a body that defines `__eq__`.
    * exception classes under `auto_exc`: the values of eq, order and hash are ignored (documented).
    * every name that attrs was not told to write and that the body binds must still be bound to the user's
      own object in the resulting class's dict; a name attrs was not told to write and the body does not bind
      must not hold anything attrs-made.
    * definition errors are C15's; here only: no error unless one of the documented error conditions holds.
-/
import AttrsModel.Model.C14

namespace Attrs.C14

/-! ### documented defaults -/

structure Doc where
  autoDetect : Bool
  slots      : Bool
  frozen     : Bool
  autoExc    : Bool
  /-- `order` left out: mirror eq (attr.s) or off (define) -/
  orderMirrorsEq : Bool
  str        : Bool := false
  matchArgs  : Bool := true
  cacheHash  : Bool := false

def doc : Api → Doc
  | .attrS  => { autoDetect := false, slots := false, frozen := false, autoExc := false, orderMirrorsEq := true }
  | .define => { autoDetect := true,  slots := true,  frozen := false, autoExc := true,  orderMirrorsEq := false }
  | .frozen => { autoDetect := true,  slots := true,  frozen := true,  autoExc := true,  orderMirrorsEq := false }

def sAuto (c : Case) : Bool := c.oAutoDetect.getD (doc c.api).autoDetect
def sSlots (c : Case) : Bool := c.oSlots.getD (doc c.api).slots
def sFrozenFlag (c : Case) : Bool := c.oFrozen.getD (doc c.api).frozen
def sAutoExc (c : Case) : Bool := c.oAutoExc.getD (doc c.api).autoExc
def sStr (c : Case) : Bool := c.oStr.getD (doc c.api).str
def sMatchArgs (c : Case) : Bool := c.oMatchArgs.getD (doc c.api).matchArgs
def sCacheHash (c : Case) : Bool := c.oCacheHash.getD (doc c.api).cacheHash

/-- an explicit `True` / `False`, if one was written -/
def written : Flag → Option Bool
  | .t => some true
  | .f => some false
  | _ => none

def owns (c : Case) (n : String) : Bool := c.body.contains n
def ownsAny (c : Case) (ns : List String) : Bool := ns.any (owns c)
/-- own `__hash__`, counting the `__hash__ = None` CPython adds next to a body-defined `__eq__` -/
def ownsHash (c : Case) : Bool := owns c "__hash__" || owns c "__eq__"

/-- THE TABLE: explicit flag wins; else auto-detection skips a group one of whose names is own; else the default -/
def tell (flag : Option Bool) (autoDetect own dflt : Bool) : Bool :=
  match flag with
  | some b => b
  | none => if autoDetect && own then false else dflt

/-- `cmp=` is shorthand for eq and order at once -/
def sEqFlag (c : Case) : Option Bool :=
  match written c.fCmp with
  | some b => some b
  | none => written c.fEq

def sOrderFlag (c : Case) : Option Bool :=
  match written c.fCmp with
  | some b => some b
  | none =>
    match c.fOrder with
    | .t => some true
    | .f => some false
    | .non => sEqFlag c
    | .unset => if (doc c.api).orderMirrorsEq then sEqFlag c else some false

def sIsExc (c : Case) : Bool := sAutoExc c && c.excBase

def wantRepr (c : Case) : Bool := tell (written c.fRepr) (sAuto c) (ownsAny c ["__repr__"]) true
def wantEqRaw (c : Case) : Bool := tell (sEqFlag c) (sAuto c) (ownsAny c ["__eq__", "__ne__"]) true
def wantEq (c : Case) : Bool := !sIsExc c && wantEqRaw c
def wantOrder (c : Case) : Bool :=
  !sIsExc c && tell (sOrderFlag c) (sAuto c) (ownsAny c ["__lt__", "__le__", "__gt__", "__ge__"]) true
def wantInit (c : Case) : Bool := tell (written c.fInit) (sAuto c) (ownsAny c ["__init__"]) true
def wantGss (c : Case) : Bool :=
  tell (written c.fGss) (sAuto c) (ownsAny c ["__getstate__", "__setstate__"]) (sSlots c)
def wantMatchArgs (c : Case) : Bool := c.py310 && sMatchArgs c && !owns c "__match_args__"

/-- frozen by argument, or by inheriting `__setattr__` from a frozen attrs class -/
def sFrozen (c : Case) : Bool :=
  sFrozenFlag c ||
    (c.attrsBase == .frozen && !owns c "__setattr__" && !(c.plainMid && c.baseDefines.contains "__setattr__"))

/-- `unsafe_hash` takes precedence over its alias `hash` unless it is None / left out -/
def sHash (c : Case) : HFlag :=
  match c.fUnsafeHash with
  | .unset | .non => c.fHash
  | u => u

def wantHash (c : Case) : HashDec :=
  match sHash c with
  | .t => if sIsExc c then .leave else .gen
  | .f => .leave
  | .bad => .leave
  | _ =>
    if sAuto c && ownsHash c then .leave
    else if sIsExc c || !wantEqRaw c then .leave
    else if sFrozen c then .gen
    else .setNone

inductive SOnSet where
  | off | custom | validate | default
  deriving DecidableEq, Repr

/-- the class-level on_setattr in force -/
def sOnSet (c : Case) : SOnSet :=
  let passed : SOnSet := match c.onSetattr with
    | .hook => .custom
    | .validate => .validate
    | _ => .off
  match c.api with
  | .attrS => passed
  | _ =>
    -- define: below a frozen class hooks are disabled; mutable classes convert and validate by default
    if c.attrsBase == .frozen && !(c.plainMid && c.baseDefines.contains "__setattr__") then .off
    else if !sFrozenFlag c && (c.onSetattr == .unset || c.onSetattr == .non) then .default
    else passed

/-- a hook would actually run on assignment (`validate`/default only matter if the field has a validator) -/
def sHooks (c : Case) : Bool :=
  !sFrozenFlag c &&
    (match sOnSet c with
     | .custom => true
     | .validate | .default => c.fieldValidator
     | .off => false)

/-- what attrs was told to put under `n`, if anything -/
def toldSlot (c : Case) (n : String) : Option Slot :=
  if n == "__setattr__" then
    (if sFrozen c then some .frozenSetattr else if sHooks c then some .gen else none)
  else if n == "__delattr__" then (if sFrozen c then some .frozenDelattr else none)
  else if n == "__getstate__" || n == "__setstate__" then (if wantGss c then some .gen else none)
  else if n == "__str__" then (if sStr c then some .gen else none)
  else if n == "__eq__" || n == "__ne__" then (if wantEq c then some .gen else none)
  else if n == "__lt__" || n == "__le__" || n == "__gt__" || n == "__ge__" then
    (if wantOrder c then some .gen else none)
  else if n == "__hash__" then
    (match wantHash c with | .gen => some .gen | .setNone => some .pyNone | .leave => none)
  else if n == "__match_args__" then (if wantMatchArgs c then some .genTuple else none)
  else if n == "__repr__" then (if wantRepr c then some .gen else none)
  else if n == "__init__" then (if wantInit c then some .gen else none)
  else if n == "__attrs_init__" then (if wantInit c then none else some .gen)
  else none

/-- the documented definition-time errors (kinds and order are C15's business) -/
def expectErr (c : Case) : Bool :=
  -- "Don't mix cmp with eq and order"
  ((written c.fCmp).isSome && ((written c.fEq).isSome || (written c.fOrder).isSome)) ||
  -- "order can only be True if eq is True too"
  (sEqFlag c == some false && sOrderFlag c == some true) ||
  -- define below a frozen class with an explicit hook
  (c.api != .attrS && c.attrsBase == .frozen && !(c.plainMid && c.baseDefines.contains "__setattr__") &&
    (c.onSetattr == .hook || c.onSetattr == .validate)) ||
  -- "Can't freeze a class with a custom __setattr__"
  (sAuto c && owns c "__setattr__" && sFrozen c) ||
  -- "__str__ can only be generated if a __repr__ exists"
  (sStr c && !wantRepr c && !owns c "__repr__") ||
  -- "Can't combine custom __setattr__ with on_setattr hooks"
  (sHooks c && sAuto c && owns c "__setattr__") ||
  -- "Invalid value for hash"
  (sHash c == .bad) ||
  -- cache_hash needs a generated __hash__ and a generated __init__
  (sCacheHash c && (wantHash c != .gen || !wantInit c)) ||
  -- "Frozen classes can't use on_setattr"
  (sFrozen c && sOnSet c != .off)

def attrsMade : Slot → Bool
  | .gen | .genBroken | .genTuple | .frozenSetattr | .frozenDelattr => true
  | _ => false

/-- the demand on one name of the resulting class's dict -/
def specName (c : Case) (n : String) (s : Slot) : Bool :=
  if n == ownSetattrKey then true                     -- attrs' own bookkeeping: nothing demanded
  else match toldSlot c n with
    | some v => s == v                                -- told to generate: it is there (and behaves: `gen`)
    | none =>
      if owns c n then s == .user                     -- the user's own object is still the one found
      else !attrsMade s && s != .other                -- skipped: nothing attrs-made appears

def spec (c : Case) (o : Obs) : Bool :=
  if expectErr c then true
  else
    o.err == none &&
    (watch c).all (fun n => o.slots.any (fun p => p.1 == n)) &&
    o.slots.all (fun p => specName c p.1 p.2)

/-- names a class body cannot meaningfully bind here (field names, what class creation itself sets) -/
def reserved : List String :=
  ["x", "y", "__dict__", "__weakref__", "__slots__", "__qualname__", "__module__", "__doc__",
   "__annotations__", "__attrs_attrs__", "__attrs_own_setattr__", "__attrs_pre_init__",
   "__attrs_post_init__", "__attrs_init_subclass__", "_attrs_cached_hash"]

def nodup : List String → Bool
  | [] => true
  | a :: l => !l.contains a && nodup l

def wf (c : Case) : Bool :=
  nodup c.body && c.body.all (fun n => !reserved.contains n) &&
  nodup c.baseDefines && c.baseDefines.all (fun n => !reserved.contains n) &&
  (c.baseDefines.isEmpty || c.plainMid) &&
  (c.api == .attrS || c.fCmp == .unset) &&
  c.history.all (fun b => nodup b && b.all (fun n => !reserved.contains n))

/-- No listed deviation is left: K8 (own `__setattr__` replaced by `object.__setattr__` below an attrs-made
    `__setattr__` when auto-detection is off) is repaired — the reset never touches a `__setattr__` of the
    class body (fixes/C14/K8.diff). -/
def known (_ : Case) : List String := []

def check : Check Case Obs := { model := model, spec := spec, wf := wf, known := known }
def handle := runCheck check

end Attrs.C14
