/-
  C04, T3 part — translation validation of the generated `__hash__` source.

  A `"script"` case describes a class chain (no instances, no history); the observation is the IR the harness
  parsed (harness/c04_ir.py) from the real source text of the last class's `__hash__` and of the `__hash__` of
  its twin (the same chain defined without cache_hash), or nothing when that class has no attrs-generated
  `__hash__` of its own.

    model  = `genHashOf` of the last class (and `genHash … false` for the twin);
    agree  = syntactic equality;
    spec   = executing the OBSERVED scripts (`execScript`) on every pair of value vectors (x, alt) over the
             case's scripted domain — first `hash(x)`, second `hash(x)`, `hash` of a fresh instance built from
             `alt`, the twin's `hash` of x's values — yields results on which the local specification
             `C04.specOp` holds for both calls (never raises, equals the uncached value, function of the
             participating keyed values, equal ⇒ equal hashes) and, with cache_hash, only one of the two
             calls computes.

  So a behaviour-preserving rewrite of the emitted text is a disagreement whose spec still holds (reported as
  `no-failing-input-found`), a script that hashes something else for some value vector is a violation with the
  vectors in the reply.  With `C04_script_correct` (executing `genHashOf n` is the model's `hashCall`),
  agreement on a class binds the ∀-theorems of C04 to the text that really runs for that class.
-/
import AttrsModel.Model.C04IR
import AttrsModel.Spec.C04Base

namespace Attrs.C04.Script
open Lean Attrs.C04 Attrs.C04.IR

structure Obs where
  script : Option HashScript
  twin   : Option HashScript
  deriving DecidableEq, Repr, FromJson, ToJson, Inhabited

/-- the class whose `__hash__` text is examined: the last one, if it is an attrs class that generates one -/
def leafGen (ns : List Node) : Option Node :=
  if built ns then
    match ns.getLast? with
    | some n => if n.isAttrs && n.outcome == .generated then some n else none
    | none => none
  else none

def model (c : Case) : Obs :=
  match leafGen (nodesWith codeOutcome c) with
  | some n => { script := some (genHashOf n), twin := some (genHash n.fields n.facts.frozenEff false) }
  | none => { script := none, twin := none }

/-- all vectors of length `k` over `0 … d-1` -/
def vectors (d : Nat) : Nat → List (List Nat)
  | 0 => [[]]
  | k + 1 => (vectors d k).flatMap (fun v => (List.range d).map (fun a => a :: v))

structure Witness where
  x : List Nat
  alt : List Nat
  call : Nat
  got : Res
  deriving ToJson

/-- the result record of one `hash(x)` through the script, as `C04.hashOp` builds it from `hashCall` -/
def resOf (c : Case) (L : Layout) (s : HashScript) (r ru ra : Out × List Nat × Bool × Inst) (x alt : List Nat) : Res :=
  let cnt := if r.2.2.1 then s.counts else (0, 0)
  { out := r.1, vals := x,
    sameUncached := r.1 == .ok && ru.1 == .ok && r.2.1 == ru.2.1,
    eqAlt := eqCall c L false x alt,
    hashAlt := r.1 == .ok && ra.1 == .ok && ra.2.1 == r.2.1,
    nKey := cnt.1, nVal := cnt.2 }

def firstFailure (c : Case) (n : Node) (s t : HashScript) : Option Witness :=
  let L := layoutOf (nodesWith docOutcome c)
  let salt := n.k + 2
  let vs := vectors c.eqc.length n.fields.length
  vs.findSome? (fun x =>
    let r1 := execScript c L salt s (newInst L x)
    let r2 := execScript c L salt s r1.2.2.2
    let ru := execScript c L salt t (newInst L x)
    vs.findSome? (fun alt =>
      let ra := execScript c L salt s (newInst L alt)
      let res1 := resOf c L s r1 ru ra x alt
      let res2 := resOf c L s r2 ru ra x alt
      if !specOp c L (.hash 0 alt) res1 then some { x := x, alt := alt, call := 1, got := res1 }
      else if !specOp c L (.hash 0 alt) res2 then some { x := x, alt := alt, call := 2, got := res2 }
      else if n.facts.cacheOn && computed res1 && computed res2 then
        some { x := x, alt := alt, call := 2, got := res2 }
      else none))

def spec (c : Case) (o : Obs) : Bool :=
  match leafGen (nodesWith docOutcome c), o.script, o.twin with
  | some n, some s, some t => s.hasUnknown || t.hasUnknown || (firstFailure c n s t).isNone
  | none, none, none => true
  | _, _, _ => false

def wf (c : Case) : Bool :=
  C04.wf c && c.insts.isEmpty && c.ops.isEmpty && !c.excBase && (allFields c).length ≤ 3 &&
  c.chain.all (fun k => k.api == .plain || (!k.ownInit && (facts k false false).initOn)) &&
  !k3shape (nodesWith docOutcome c).reverse

/-- K2: a fresh instance of such a class has no readable cache, so its script cannot succeed -/
def known (c : Case) : List String :=
  if (leafGen (nodesWith codeOutcome c)).isSome && k2 (layoutOf (nodesWith codeOutcome c)) then ["K2"] else []

def check : Check Case Obs := { model := model, spec := spec, wf := wf, known := known }

def handle (case obs : Json) : Except String Reply := do
  let c ← fromJson? (α := Case) case
  let o ← fromJson? (α := Obs) obs
  let m := model c
  let w : Json :=
    match leafGen (nodesWith docOutcome c), o.script, o.twin with
    | some n, some s, some t =>
      if s.hasUnknown || t.hasUnknown then Json.null else
      (match firstFailure c n s t with | some w => toJson w | none => Json.null)
    | _, _, _ => Json.null
  pure { agree := m == o, specModel := spec c m, specObs := spec c o, wf := wf c, known := known c,
         model := Json.mkObj [("script", toJson m.script), ("twin", toJson m.twin),
                              ("failing_vectors_of_observed_script", w)] }

end Attrs.C04.Script
