/-
  C15 — what the property demands, stated rule by rule (no order of evaluation, no early exit):

  * every contradiction of the property's table (`Rule`) is rejected with its documented exception type —
    when several rules apply at once, the type of any one of them;
  * a specification to which no rule applies is defined without error;
  * after a failed decoration the class object is exactly as before (`touched = []`).

  Readings the statement leaves open are accepted either way (`MayRule`): a *field-level*
  `on_setattr=setters.NO_OP` on a frozen class (attrs rejects any field-level on_setattr there, although
  NO_OP is no hook), and `define(on_setattr=hook)` on a class that has its own `__setattr__` below a frozen
  base (the own method hides the inherited frozenness, yet `define` looks at the bases).

  `str=True` on a class that ends up without any `__repr__` of its own (none generated: `repr=False`, and none
  written in the class body) is rejected with ValueError; attrs's tests assert this for `repr=False, str=True`.
  The combination is contradictory in itself ("a `__str__` identical to `__repr__`" without a `__repr__`), so
  "otherwise valid" is read as not covering it; it is not in the statement's table either, so the rejection is
  accepted, not demanded (third `MayRule`).  Before the repair recorded as K15a an own `__repr__` found by
  auto_detect was rejected too although a `__repr__` existed; that case is now demanded to define.
-/
import AttrsModel.Model.C15

namespace Attrs.C15

/-! ### vocabulary of the rules (what the documentation calls things) -/

/-- `auto_detect` in effect (attr.s: off unless asked; define: on unless switched off) -/
def Case.detect (c : Case) : Bool :=
  match c.autoDetect, c.api with
  | .t, _ => true
  | .f, _ => false
  | .unset, .define => true
  | .unset, _ => false

/-- the class is an exception class handled by `auto_exc` -/
def Case.excClass (c : Case) : Bool :=
  c.isBaseExc && (match c.autoExc, c.api with
    | .t, _ => true | .f, _ => false | .unset, .define => true | .unset, _ => false)

/-- instances end up frozen: asked for, or inherited and not hidden by an own `__setattr__` -/
def Case.frozenClass (c : Case) : Bool := c.frozen || (c.baseFrozen && !c.ownSetattr)

/-- the auto_attribs mode in effect: explicit, or for `define` "annotations unless some `field()` lacks one" -/
def Case.annotationMode (c : Case) : Bool :=
  match c.autoAttribs, c.api with
  | .t, _ => true
  | .f, _ => false
  | .unset, .define => !(!c.these && c.fields.any Field.unann)
  | .unset, _ => false

/-- the attributes of the class: inherited ones not re-declared, then own ones, through the transformer -/
def Case.attrs (c : Case) : List Attr := effAttrs c c.annotationMode

/-- documented table for a method group: explicit flag wins; otherwise generated unless auto-detection
    finds an own implementation -/
def generated (flag : F3) (detect own : Bool) : Bool :=
  match flag, detect, own with
  | .t, _, _ => true
  | .f, _, _ => false
  | .none, true, true => false
  | .none, _, _ => true

/-- `eq` as asked for: `cmp` stands for both, an explicit `eq` wins, otherwise None (attr.s / define) or
    True (make_class resolves it up-front) -/
def Case.eqAsked (c : Case) : F3 :=
  match c.cmp, c.eq, c.api with
  | .t, _, _ => .t
  | .f, _, _ => .f
  | .none, .t, _ => .t
  | .none, .f, _ => .f
  | .none, .none, .makeClass => .t
  | .none, .none, _ => .none

def Case.eqGenerated (c : Case) : Bool := generated c.eqAsked c.detect c.ownEq
def Case.initGenerated (c : Case) : Bool := generated c.init c.detect c.ownInit
def Case.reprGenerated (c : Case) : Bool := generated c.repr c.detect c.ownRepr

/-- the hash argument in effect: `unsafe_hash` wins over `hash` (PEP 681); left at None, an auto-detected own
    `__hash__` counts as False -/
def Case.hashAsked (c : Case) : HashArg :=
  match c.unsafeHash, c.hash with
  | .t, _ => .t
  | .f, _ => .f
  | .bad, _ => .bad
  | .none, .t => .t
  | .none, .f => .f
  | .none, .bad => .bad
  | .none, .none => if c.detect && c.ownHash then .f else .none

/-- documented hashability table: a `__hash__` is generated for True, and for None when eq is generated and
    the class is frozen; never for exception classes -/
def Case.hashGenerated (c : Case) : Bool :=
  !c.excClass &&
  (match c.hashAsked with
   | .t => true
   | .none => c.eqGenerated && c.frozenClass
   | .f | .bad => false)

/-- the order argument as the user means it (`define` defaults to False) -/
def Case.orderAsked (c : Case) : F3 :=
  match c.order, c.api with
  | .t, _ => .t | .f, _ => .f | .none, _ => .none
  | .unset, .define => .f
  | .unset, _ => .none

/-- the user asked for class-level hooks -/
def Case.userHooks (c : Case) : Bool :=
  match c.onSetattr with
  | .hook | .validate | .convert | .dflt => true
  | .none | .noop => false

/-- class-level hooks that are actually in force on a non-frozen class: the user's (validate / convert only
    when some field has a validator / converter), or `define`'s default pipe when some field has either -/
def Case.classHooksInForce (c : Case) : Bool :=
  let hasV := c.attrs.any (·.validator)
  let hasC := c.attrs.any (·.converter)
  match c.onSetattr with
  | .hook => !(c.api == .define && c.baseFrozen)
  | .validate => hasV && !(c.api == .define && c.baseFrozen)
  | .convert => hasC && !(c.api == .define && c.baseFrozen)
  | .dflt => (hasV || hasC) && !(c.api == .define && c.baseFrozen)
  | .noop => false
  | .none => c.api == .define && !c.baseFrozen && !c.frozen && (hasV || hasC)

/-- some attribute would get a hook on assignment -/
def Case.someFieldHooked (c : Case) : Bool :=
  c.attrs.any (fun a => a.onSetattr == .hook || (a.onSetattr == .none && c.classHooksInForce))

/-- a mandatory positional attribute after a defaulted positional one -/
def mandatoryAfterDefault : List Attr → Bool
  | [] => false
  | a :: rest =>
    (a.positional && a.dflt && rest.any (fun b => b.positional && !b.dflt)) || mandatoryAfterDefault rest

/-! ### the table -/

/-- how many times the field is given a default: `default=`, `factory=`, each `@x.default` -/
def defaultSources (f : Field) : Nat :=
  (if f.dflt then 1 else 0) + (if f.factory then 1 else 0) + (if f.deco then 1 + f.decoMore else 0)

inductive Rule where
  | mandatoryAfterDefault   -- also via inheritance or a field transformer
  | orderWithoutEq          -- class level
  | cmpMixed                -- class level: cmp with eq / order
  | fieldOrderWithoutEq
  | fieldCmpMixed
  | defaultAndFactory
  | secondDefault
  | annotationAndType
  | unannotated
  | cacheHashNoHash
  | cacheHashNoInit
  | hashNotBool
  | fieldHashNotBool
  | hooksOnFrozen           -- class-level hooks, frozen class (also by inheritance)
  | fieldHooksOnFrozen      -- field-level hooks (own or inherited field), frozen class
  | hooksWithOwnSetattr
  | frozenWithOwnSetattr
  deriving DecidableEq, Repr, Inhabited

def Rule.all : List Rule :=
  [.mandatoryAfterDefault, .orderWithoutEq, .cmpMixed, .fieldOrderWithoutEq, .fieldCmpMixed,
   .defaultAndFactory, .secondDefault, .annotationAndType, .unannotated, .cacheHashNoHash,
   .cacheHashNoInit, .hashNotBool, .fieldHashNotBool, .hooksOnFrozen, .fieldHooksOnFrozen,
   .hooksWithOwnSetattr, .frozenWithOwnSetattr]

/-- the documented exception type -/
def Rule.kind : Rule → Exc
  | .secondDefault => .defaultAlreadySet
  | .unannotated => .unannotated
  | .cacheHashNoHash | .cacheHashNoInit | .hashNotBool | .fieldHashNotBool => .typeError
  | _ => .valueError

/-- the fields that are really made with `attr.ib()` / `field()` -/
def Case.made (c : Case) : List Field := c.fields.filter (fun f => !f.bare)

def Rule.applies (c : Case) : Rule → Bool
  | .mandatoryAfterDefault => C15.mandatoryAfterDefault c.attrs
  | .orderWithoutEq => c.cmp == .none && c.orderAsked == .t && c.eq == .f
  | .cmpMixed => c.cmp != .none && (c.eq != .none || c.orderAsked != .none)
  | .fieldOrderWithoutEq =>
    c.made.any (fun f => f.cmp == .none && f.eq == .f && (f.order == .t || f.order == .key))
  | .fieldCmpMixed => c.made.any (fun f => f.cmp != .none && (f.eq != .none || f.order != .none))
  | .defaultAndFactory => c.made.any (fun f => f.dflt && f.factory)
  | .secondDefault => c.made.any (fun f => f.deco && decide (defaultSources f ≥ 2))
  | .annotationAndType => (ownSource c c.annotationMode).any (fun f => f.annotated && f.typeArg)
  | .unannotated => c.autoAttribs == .t && !c.these && c.fields.any Field.unann
  | .cacheHashNoHash => c.cacheHash && !c.hashGenerated
  | .cacheHashNoInit => c.cacheHash && !c.initGenerated
  | .hashNotBool => c.hashAsked == .bad
  | .fieldHashNotBool => c.made.any (fun f => f.hash == .bad)
  | .hooksOnFrozen => c.frozenClass && c.userHooks
  | .fieldHooksOnFrozen => c.frozenClass && c.attrs.any (fun a => a.onSetattr == .hook)
  | .hooksWithOwnSetattr => c.detect && c.ownSetattr && !c.frozen && c.someFieldHooked
  | .frozenWithOwnSetattr => c.detect && c.ownSetattr && c.frozen

/-- readings left open by the statement: rejection (ValueError) and acceptance are both fine -/
inductive MayRule where
  | fieldNoopOnFrozen
  | defineHooksBelowFrozenHidden
  | strWithoutAnyRepr
  deriving DecidableEq, Repr, Inhabited

def MayRule.all : List MayRule := [.fieldNoopOnFrozen, .defineHooksBelowFrozenHidden, .strWithoutAnyRepr]

def MayRule.applies (c : Case) : MayRule → Bool
  | .fieldNoopOnFrozen => c.frozenClass && c.attrs.any (fun a => a.onSetattr == .noop)
  | .defineHooksBelowFrozenHidden => c.api == .define && c.baseFrozen && c.ownSetattr && c.userHooks
  | .strWithoutAnyRepr => c.str && !c.reprGenerated && !c.ownRepr

def MayRule.kind : MayRule → Exc
  | _ => .valueError

/-- some rule of the table applies -/
def mustFail (c : Case) : Bool := Rule.all.any (·.applies c)

/-- `k` is the documented type of some applicable rule (or of an open reading) -/
def allowedKind (c : Case) (k : Exc) : Bool :=
  Rule.all.any (fun r => r.applies c && r.kind == k) ||
  MayRule.all.any (fun r => r.applies c && r.kind == k)

def spec (c : Case) (o : Obs) : Bool :=
  o.touched == [] &&
  (match o.exc with
   | none => !mustFail c
   | some k => allowedKind c k)

/-! ### preconditions and listed deviations -/

def distinct (l : List String) : Bool := l.eraseDups.length == l.length

/-- the base class is itself a valid definition -/
def baseOk (c : Case) : Bool :=
  !mandatoryAfterDefault c.baseAttrs && (!c.baseFrozen || c.baseAttrs.all (fun a => a.onSetattr == .none))

def Field.bareOk (f : Field) : Bool :=
  !f.bare ||
  (f.annotated && !f.factory && !f.deco && f.decoMore == 0 && f.valDeco == 0 && f.init && !f.kwOnly && f.cmp == .none && f.eq == .none &&
   f.order == .none && f.hash == .none && f.onSetattr == .none && !f.typeArg && !f.validator && !f.converter)

def wf (c : Case) : Bool :=
  distinct (c.fields.map (·.name)) && distinct (c.baseAttrs.map (·.name)) &&
  c.fields.all Field.bareOk && c.fields.all (fun f => f.decoMore == 0 || f.deco) &&
  c.onSetattr != .dflt &&
  (c.api != .define || c.cmp == .none) &&
  (c.api != .makeClass || (c.these && c.autoAttribs == .unset)) &&
  -- CPython: a class body with `__eq__` gets `__hash__ = None`
  (!c.ownEq || c.ownHash) &&
  baseOk c

/-- no listed deviation is left (K15a — `str=True` with an own `__repr__` found by auto_detect was rejected —
    is repaired in attrs; its witness is a corpus regression case) -/
def known (_ : Case) : List String := []

def check : Check Case Obs := { model := model, spec := spec, wf := wf, known := known }

def handle := runCheck check

end Attrs.C15
