/-
  C10 — what the property demands of one operation, stated on the observation only:
  the operation succeeds with a distinct instance of the same class; every field (own and inherited) carries
  the original's current value; the result compares equal (when the class resolves a generated `__eq__`);
  it is hashable like, and hashes equal to, a freshly built equal instance (when the class resolves a
  generated `__hash__`) — which is what "the cached hash is not carried over, the copy recomputes it" means
  observably — and equal to the original's hash unless the original itself was changed after it was hashed;
  deepcopy / pickle never transport the cached value.
-/
import AttrsModel.Model.C10

namespace Attrs.C10

/-- the class resolves an attrs-generated `__hash__` -/
def hashGenerated (s : Summary) : Bool :=
  match s.hash with
  | .gen _ _ _ _ => true
  | _ => false

def gsNames (s : Summary) : Option (List String) :=
  match s.gs with
  | .gen names _ _ => some names
  | _ => Option.none

/-- position of `n` in `names` -/
def indexOf (n : String) : List String → Nat
  | [] => 0
  | m :: r => if m = n then 0 else indexOf n r + 1

/-- the property's own preconditions: a well-formed chain ending in an attrs class, definable classes, the
    changed field exists, a real protocol, and — "an instance whose fields are all set" — every field readable
    on the constructed original -/
def wf (c : Case) : Bool :=
  let s := summarize (fullChain c)
  !c.chain.isEmpty && s.lastAttrs && s.ok &&
  (match c.mutate with | some m => s.names.contains m | Option.none => true) &&
  (match c.op with | .pickle p => p ≤ 5 | _ => true) &&
  c.chain.all (fun k => k.kind != .exc) && (!c.mutInPlace || c.mutate.isSome) &&
  -- exception chains: opt-outs, user-written state methods and the legacy tuple call are left to ordinary chains
  (!c.exc || (!s.anyOptOutOrUser && !isLegacy c.op)) &&
  (match construct s v0 c.assignUnset with
   | some i => s.names.all (fun n => (read s.layout i n).isSome)
   | Option.none => false)

def spec (c : Case) (o : Obs) : Bool :=
  let s := summarize (fullChain c)
  match c.op with
  | .legacy len =>
    -- a tuple state is assigned positionally to the names the generated `__setstate__` knows
    (match gsNames s with
     | some names =>
       o.exc == Option.none &&
       o.fields == s.names.map (fun n =>
         (n, if names.contains n && indexOf n names < len then some ("t" ++ toString (indexOf n names)) else Option.none))
     | Option.none => true)
  | op =>
    o.exc == Option.none && o.distinct && o.sameClass &&
    o.fields == s.names.map (fun n => (n, some (cur c n))) &&
    (s.eq.isNone || o.eqOrig == .T) &&
    (!hashGenerated s ||
      (o.hashCopy == .ok && o.hashEqFresh && ((c.hashedBefore && c.mutate.isSome) || o.hashEqOrig))) &&
    (op == .copy || o.cacheAfter != .carried)

/-! ### Known deviations (DESIGN §6; K4, K10a, K10c are repaired in attrs and no longer listed) -/

/-- K1: the resolved `__hash__` caches but was generated for a base: the class's own `__init__` never
    creates the cache attribute -/
def k1 (s : Summary) : Bool :=
  match s.hash with
  | .gen _ true _ false => true
  | _ => false

/-- K2: a frozen dict caching class whose cache attribute is a slot of a base: `__init__` writes the cache
    into `__dict__`, `__hash__` reads the empty slot -/
def k2 (s : Summary) : Bool := s.lastCache && s.frozen && !s.lastSlots && decide (CACHE ∈ s.slotNames)

/-- the class resolves a `__getstate__`/`__setstate__` pair attrs generated for a *base* (only possible when
    the class itself passed `getstate_setstate=False`, see `C10_inherited_pair_only_by_opt_out`) and that pair
    lacks some of the class's fields -/
def inhLosesFields (s : Summary) : Bool :=
  match s.gs with
  | .gen names _ false => s.names.any (fun n => !names.contains n)
  | _ => false

/-- same resolution, and the base's `__setstate__` does not initialise the hash cache this class's
    `__hash__` needs -/
def inhLosesCache (s : Summary) : Bool :=
  match s.gs with
  | .gen _ false false => s.cached
  | _ => false

/-- K11, second form: the class opted out of its own state methods and the pair it inherits from an attrs
    base does not cover it -/
def optOutLoses (s : Summary) : Bool := s.lastOptOut && (inhLosesFields s || inhLosesCache s)

/-- the default reduction fails: protocols 0/1 refuse `__slots__` without `__getstate__`; a frozen class
    cannot take slot values back through `setattr` -/
def dfltFails (s : Summary) (c : Case) : Bool :=
  !c.exc && s.gs == .dflt &&
  ((isLow c.op && refuses01 s) ||
   (s.frozen && (match history s c c.hashedBefore with
                 | some x => anySlotSet s.layout x
                 | Option.none => false)))

/-- a slotted attrs class of the chain opted out with `getstate_setstate=False` -/
def optedOut (c : Case) : Bool := c.chain.any (fun k => k.isAttrs && k.slots && k.gs == .f)

/-- K5: `copy.copy` through the default reduction shares the `_CacheHashWrapper`; stale once a field changed
    after hashing -/
def k5 (s : Summary) (c : Case) : Bool :=
  s.gs == .dflt && c.op == .copy && s.cached && c.hashedBefore && c.mutate.isSome

/-- K10d: a frozen auto_exc class that resolves `BaseException.__setstate__` and keeps fields in `__dict__`:
    the copy's `__dict__` is restored with `setattr` → FrozenInstanceError on every route -/
def k10d (s : Summary) (c : Case) : Bool :=
  c.exc && s.gs == .dflt && s.frozen &&
  (match history s c c.hashedBefore with
   | some x => !(dictState s c.op x).isEmpty
   | Option.none => false)

/-- K10e: an auto_exc instance is rebuilt as `cls(*args)`; whatever lives in a *slot* and is not what `args`
    recorded at construction is lost: an init=False field (unset on the copy), or a field assigned later (the copy
    gets the construction-time value) -/
def k10e (s : Summary) (c : Case) : Bool :=
  c.exc && s.attrs.any (fun p => decide (p.1.name ∈ s.slotNames) &&
    (!p.1.init || (c.mutate == some p.1.name && !c.mutInPlace)))

def known (c : Case) : List String :=
  let s := summarize (fullChain c)
  if isLegacy c.op then [] else
  (if k1 s then ["K1"] else []) ++
  (if k2 s then ["K2"] else []) ++
  (if k5 s c then ["K5"] else []) ++
  (if (dfltFails s c && optedOut c) || optOutLoses s then ["K11"] else []) ++
  (if dfltFails s c && !optedOut c then ["K10b"] else []) ++
  (if k10d s c then ["K10d"] else []) ++
  (if k10e s c then ["K10e"] else [])

def check : Check Case Obs := { model := model, spec := spec, wf := wf, known := known }

def handle := runCheck check

end Attrs.C10
