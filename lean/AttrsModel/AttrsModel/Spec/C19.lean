/-
  C19 — converter combinators, filters and cmp_using obey their algebraic laws.
  Five sub-checks share the property id; a case carries a `"kind"` field:
    "conv"   converter expression trees (Model/C19Conv, Spec/C19Conv)
    "tobool" `to_bool`                   (Model/C19ToBool, Spec/C19ToBool)
    "din"    argument checks of `default_if_none`
    "filter" `filters.include/exclude`   (Model/C19Filt, Spec/C19Filt)
    "cmp"    `cmp_using`                 (Model/C19Cmp, Spec/C19Cmp)
  `Case`/`Obs` below are the disjoint sums, so that `C19_model_meets_spec` is one statement over all of them.
-/
import AttrsModel.Spec.C19Conv
import AttrsModel.Spec.C19ToBool
import AttrsModel.Spec.C19Filt
import AttrsModel.Spec.C19Cmp

namespace Attrs.C19
open Lean

inductive Case where
  | conv (c : Conv.Case)
  | tobool (c : ToBool.Case)
  | din (c : Din.Case)
  | filter (c : Filt.Case)
  | cmp (c : Cmp.Case)

inductive Obs where
  | conv (o : Conv.Obs)
  | tobool (o : ToBool.Obs)
  | din (o : Din.Obs)
  | filter (o : Filt.Obs)
  | cmp (o : Cmp.Obs)
  deriving DecidableEq

def model : Case → Obs
  | .conv c => .conv (Conv.model c)
  | .tobool c => .tobool (ToBool.model c)
  | .din c => .din (Din.model c)
  | .filter c => .filter (Filt.model c)
  | .cmp c => .cmp (Cmp.model c)

def spec : Case → Obs → Bool
  | .conv c, .conv o => Conv.spec c o
  | .tobool c, .tobool o => ToBool.spec c o
  | .din c, .din o => Din.spec c o
  | .filter c, .filter o => Filt.spec c o
  | .cmp c, .cmp o => Cmp.spec c o
  | _, _ => false

def wf : Case → Bool
  | .conv c => Conv.wf c
  | .tobool c => ToBool.wf c
  | .din c => Din.wf c
  | .filter c => Filt.wf c
  | .cmp c => Cmp.wf c

def known : Case → List String
  | .conv c => Conv.known c
  | .tobool c => ToBool.known c
  | .din c => Din.known c
  | .filter c => Filt.known c
  | .cmp c => Cmp.known c

/-- dispatch on the case's `"kind"`; each branch is `runCheck` of the sub-check, whose four components are the
    restrictions of `model`/`spec`/`wf`/`known` above to that summand -/
def handle (case obs : Json) : Except String Reply := do
  let k ← case.getObjValAs? String "kind"
  match k with
  | "conv" => runCheck Conv.check case obs
  | "tobool" => runCheck ToBool.check case obs
  | "din" => runCheck Din.check case obs
  | "filter" => runCheck Filt.check case obs
  | "cmp" => runCheck Cmp.check case obs
  | _ => .error s!"C19: unknown kind {k}"

end Attrs.C19
