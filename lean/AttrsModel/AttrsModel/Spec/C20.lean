/-
  C20 — what the property demands of an observed history, written over the *observations*: each step is
  related to the switch position observed just before it, and an exit is related to the position observed
  just before its matching enter, which is found by counting brackets backwards through the history (no
  stack of saved values).  The callbacks an operation must run are given as declarative lists
  (`flatMap`/`filter`), cut after the faulty one.
-/
import AttrsModel.Model.C20
import AttrsModel.Spec.C02

namespace Attrs.C20
open Attrs.Init

/-! ## What a construction / assignment / `validate()` must run, given the switch -/

/-- events up to and including the failing one -/
def cutIds (fault : Option EventId) : List EventId → List EventId
  | [] => []
  | e :: es => if fault = some e then [e] else e :: cutIds fault es

def hitsIds (fault : Option EventId) (es : List EventId) : Bool := es.any (fun e => decide (fault = some e))

/-- every member of every field's validator chain, in field order -/
def validatorPlan (fields : List Field) : List EventId :=
  fields.flatMap (fun f => (List.range f.validators).map (valId f))

/-- construction: the declarative trace of the initializer specification (Spec/C02: pre-init hook, per field
    its factory if the argument was left out and its converter, all validators iff enabled, post-init hook),
    as callback identities -/
def constructPlan (cls : Cls) (run : Bool) : List EventId :=
  (C02.expectedTrace (initCase cls run none).eff (initCase cls run none).call).map (·.id)

/-- `validate(inst)`: all validators iff enabled -/
def validatePlan (cls : Cls) (run : Bool) : List EventId :=
  if run then validatorPlan cls.fields else []

/-- the hooks an assignment to `f` goes through (documented resolution: the field's own `on_setattr` wins,
    `NO_OP` switches hooks off for that field, `define` converts and validates by default) -/
def hooked (cls : Cls) (f : Field) : List Prim :=
  match f.onSet, cls.clsOnSet, cls.isDefine with
  | .chain l, _, _ => l
  | .noOp, _, _ => []
  | .unset, .chain l, _ => l
  | .unset, .noOp, _ => []
  | .unset, .unset, true => [.convert, .validate]
  | .unset, .unset, false => []

def primPlan (run : Bool) (f : Field) (pos : Nat) : Prim → List EventId
  | .custom => [hookId f pos]
  | .convert => if f.conv then [convId f] else []
  | .validate => if run then (List.range f.validators).map (valId f) else []

def chainPlan (run : Bool) (f : Field) : Nat → List Prim → List EventId
  | _, [] => []
  | pos, p :: ps => primPlan run f pos p ++ chainPlan run f (pos + 1) ps

/-- assignment: user hooks and converters whatever the switch says; the field's validators wherever
    `setters.validate` is hooked, iff enabled -/
def assignPlan (cls : Cls) (run : Bool) (f : Field) : List EventId := chainPlan run f 0 (hooked cls f)

/-! ## Bracket matching by counting -/

/-- final nesting depth of a history started at depth `d`; `none` if it ever exits with nothing open -/
def bal : Nat → List Op → Option Nat
  | d, [] => some d
  | d, op :: ops =>
    if op.isEnter then bal (d + 1) ops
    else if op.isExit then (match d with | 0 => none | d' + 1 => bal d' ops)
    else bal d ops

/-- `hist` = the operations so far, most recent first, each with the switch position observed just before
    it.  The position observed before the enter that is `d` levels out from here. -/
def entryState : Nat → List (Op × Bool) → Option Bool
  | _, [] => none
  | d, (op, r) :: rest =>
    if op.isEnter then (match d with | 0 => some r | d' + 1 => entryState d' rest)
    else if op.isExit then entryState (d + 1) rest
    else entryState d rest

/-! ## One step -/

def runOutcome (fault : Option EventId) (plan : List EventId) (s : Step) : Bool :=
  s.events == cutIds fault plan && s.exc == (if hitsIds fault plan then some .user else none)

/-- callbacks of a construction that precede its validators step -/
def preGuard (e : EventId) : Bool := e.kind != "validator" && e.kind != "post"

/-- `prev`: the switch position observed before the step (`true` = validators run) -/
def stepOk (c : Case) (hist : List (Op × Bool)) (prev : Bool) (op : Op) (s : Step) : Bool :=
  -- both accessor pairs show the same cell, as real bools
  (match s.run.toBool? with
   | some r => s.disabled == B3.ofBool (!r)
   | none => false) &&
  (match op with
   | .setDisabled a =>
     (match a.asBool with
      | some b => s.exc == none && s.disabled == B3.ofBool b
      -- the property is silent on non-bool arguments to this setter (the code takes their truthiness)
      | none => true) &&
     s.events == []
   | .setRun a =>
     (match a.asBool with
      | some b => s.exc == none && s.run == B3.ofBool b
      | none => s.exc == some .typeError && s.run == B3.ofBool prev) &&
     s.events == []
   | .getDisabled => s.exc == none && s.ret == some (B3.ofBool (!prev)) && s.run == B3.ofBool prev && s.events == []
   | .getRun => s.exc == none && s.ret == some (B3.ofBool prev) && s.run == B3.ofBool prev && s.events == []
   | .enter => s.exc == none && s.disabled == .t && s.events == []
   | .exit | .exitExc =>
     (match entryState 0 hist with
      | some e => s.exc == none && !s.swallowed && s.run == B3.ofBool e
      | none => true) &&     -- nothing open: excluded by `wf`
     s.events == []
   | .construct k =>
     (match c.classes[k]? with
      -- validators iff the switch is on when the validators step is reached: the position before the call,
      -- moved by the body of the probing callback once per call of it among the observed callbacks that
      -- come before that step (everything that is neither a validator nor the post-init hook)
      | some cls => s.run == B3.ofBool prev &&
          runOutcome c.fault (constructPlan cls
            (iterB (probeCount c (s.events.filter preGuard)) (bodyStep c) prev)) s
      | none => true)        -- no such class: excluded by `wf`
   | .assign k i _ =>
     (match c.classes[k]? with
      | some cls => (match cls.fields[i]? with
        | some f => s.run == B3.ofBool prev && runOutcome c.fault (assignPlan cls prev f) s
        | none => true)      -- no such field: excluded by `wf`
      | none => true)
   | .validate k =>
     (match c.classes[k]? with
      | some cls => s.run == B3.ofBool prev && runOutcome c.fault (validatePlan cls prev) s
      | none => true))

def specGo (c : Case) : List (Op × Bool) → Bool → List Op → List Step → Bool
  | _, _, [], [] => true
  | hist, prev, op :: ops, s :: steps =>
    stepOk c hist prev op s &&
    (match s.run.toBool? with
     | some r => specGo c ((op, prev) :: hist) r ops steps
     | none => false)
  | _, _, _, _ => false

/-- the runs of the body during one operation: each satisfies the step rules (as a history without a probing
    callback) from where the previous run left the switch -/
def nestedRuns (c : Case) : Bool → List (List Step) → Bool
  | _, [] => true
  | cur, inv :: rest => specGo { c with probe := none } [] cur c.body inv && nestedRuns c (bodyStep c cur) rest

/-- nested observations: the probing callback's body ran once per call of that callback during the operation,
    and each run satisfies the step rules *starting from the switch position observed before the operation* —
    no operation moves the switch on the way to its callbacks -/
def nestedOk (c : Case) : Bool → List Op → List Step → List (List (List Step)) → Bool
  | _, [], [], [] => true
  | prev, _ :: ops, s :: steps, n :: ns =>
    (n.length == probeCount c s.events && nestedRuns c prev n) &&
    (match s.run.toBool? with
     | some r => nestedOk c r ops steps ns
     | none => false)
  | _, _, _, _ => false

def spec (c : Case) (o : Obs) : Bool :=
  specGo c [] c.start c.ops o.steps && nestedOk c c.start c.ops o.steps o.nested

/-- a reader names an existing class of the hierarchy (and an existing field of it) -/
def opOk (c : Case) : Op → Bool
  | .construct k => (c.classes[k]?).isSome
  | .assign k i _ => (match c.classes[k]? with
    | some cls => (cls.fields[i]?).isSome
    | none => false)
  | .validate k => (c.classes[k]?).isSome
  | _ => true

/-- well-bracketed history (an exit only when a context is open), readers on existing classes and fields,
    the faulty callback (if any) is a validator, and every class with its keyword call is well-formed for
    the initializer model (distinct valid names, every parameter passed once) -/
def wf (c : Case) : Bool :=
  (bal 0 c.ops).isSome &&
  c.ops.all (opOk c) &&
  -- a callback body closes the blocks it opens; it may leave the switch flipped unless the probing callback
  -- can run during one of the history's assignments (the hooks of an assignment each read the switch for
  -- themselves; flips between them are not modelled)
  (bal 0 c.body == some 0 && c.body.all (opOk c) &&
   ((bodyStep c true == true && bodyStep c false == false) ||
    c.ops.all (fun op => match op, c.probe with
      | .assign k i _, some p => (match c.classes[k]? with
        | some cls => (match cls.fields[i]? with
          | some f => !(assignPlan cls true f).contains p
          | none => true)
        | none => true)
      | _, _ => true))) &&
  (match c.fault with
   | none => true
   | some e => e.kind == "validator") &&
  c.classes.all (fun cls => C02.wf (initCase cls true c.fault))

/-- nothing is listed: the one deviation seen on the pinned tree (exit always re-enabled) was repaired by
    ee5b683; its witness is `C20_old_manager_violates` and a corpus case -/
def known (_ : Case) : List String := []

def check : Check Case Obs := { model := model, spec := spec, wf := wf, known := known }

def handle := runCheck check

end Attrs.C20
