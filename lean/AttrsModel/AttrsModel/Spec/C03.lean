/-
  C03 — the check's entry point.  Ordinary cases (one class, two operands; `Spec/C03Base.lean`) go through
  `runCheck check` unchanged; cases with `"kind": "script"` (T3; `Spec/C03Script.lean`) compare the real source
  text of the generated `__eq__` (and of the shared `__ne__` helper) with what the model generator emits.
-/
import AttrsModel.Spec.C03Base
import AttrsModel.Spec.C03Script

namespace Attrs.C03
open Lean

def handle (case obs : Json) : Except String Reply :=
  match case.getObjValAs? String "kind" with
  | .ok "script" => Script.handle case obs
  | _ => runCheck check case obs

end Attrs.C03
