/-
  C03 — what the property demands of an observation, written without reference to the
  generated code: a declarative predicate over the observed results.
-/
import AttrsModel.Model.C03

namespace Attrs.C03

/-- distinct field names, no `cmp` mixed with `eq` (that is C15's business) -/
def wf (c : Case) : Bool :=
  c.fields.all (fun f => (effEq f).isSome) &&
  (c.fields.map (·.name)).eraseDups.length == c.fields.length

/-- every eq-participating field compares truthy -/
def allEqual (c : Case) : Bool := (c.fields.filter participates).all (fun f => (outcome f).isTruthy)

def spec (c : Case) (o : Obs) : Bool :=
  if sameClass c.rhs then
    -- true exactly when every participating comparison is; never NotImplemented
    o.eqDirect != .NI && o.eqOp != .NI && o.eqDirect != .exc && o.eqOp != .exc &&
    o.eqDirect.isTruthy == allEqual c &&
    o.eqOp.isTruthy == allEqual c &&
    -- != is always the negation (a real bool)
    o.neDirect == Res.ofBool (!allEqual c) &&
    o.neOp == Res.ofBool (!allEqual c) &&
    -- only participating fields are ever compared, each through its key if it has one
    o.trace.all (fun t => (c.fields.filter participates).any (fun f => tag f == t))
  else
    -- any other right operand: both methods NotImplemented, Python falls back to identity
    o.eqDirect == .NI && o.neDirect == .NI &&
    o.eqOp == .F && o.neOp == .T && o.trace == []

def known (_ : Case) : List String := []

def check : Check Case Obs := { model := model, spec := spec, wf := wf, known := known }

def handle := runCheck check

end Attrs.C03
