/-
  C13 — what the property demands, written from the statement as an independent two-phase reference:

  1. `shapeD` / `shapeT`: a *total, purely structural* description of the value the statement promises
     (which keys, which containers become what, where the serializer sits, what stays the very same
     object) — no exceptions, no Python semantics;
  2. `realise`: Python's semantics of actually building the new containers of that description
     (`set(...)` / `dict(...)` raise `TypeError` on unhashable members / keys and merge equal ones).

  The code (and the model in `Model/C13.lean`) does both at once, at two sites (`asdict`'s own branches and
  `_asdict_anything`), with an `is_key` flag and `_make_collection`.

  Readings fixed where the statement is silent (DESIGN §5 C13):
  * "the value_serializer applied to every value" = every field value, with the instance and the attribute,
    *before* recursion (so recursion continues on what the serializer returned), and every scalar met inside
    containers, with `(None, None)`;
  * "original type with retain_collection_types" is about list / tuple / namedtuple / set / frozenset; dicts
    are always rebuilt by `dict_factory` (asdict) — for astuple by `dict` or, retaining, their own class;
  * astuple recurses into field values and their *direct* collection members / dict keys and values; anything
    deeper is returned as the very same object; astuple results are built by `tuple_factory`;
  * "collection-valued dict keys become tuples" is read deeply (a tuple key must be hashable, so collections
    inside it become tuples as well);
  * a description that cannot be built (an attrs instance as a dict key or set member turns into an
    unhashable dict) cannot be returned by anything: the call must raise (which exception is not demanded);
  * the statement does not talk about arguments that are not attrs instances: only "no mutation" is demanded.
-/
import AttrsModel.Model.C13

namespace Attrs.C13

/-! ## Phase 1: the promised shape -/

/-- where a value sits: a field of an instance of class `cls`, a member of a container, (inside) a dict key -/
inductive Ctx where
  | field (cls : Nat) (f : FI)
  | member
  | key
  deriving Repr, Inhabited

/-- the serializer's view of a value at a position -/
def serAt (m : SerMode) (ctx : Ctx) (v : Out) : Out :=
  match m, ctx with
  | .off, _ => v
  | _, .field c f => .ser (some c) (some f.name) v
  | _, _ => .ser none none v

/-- the wrapping serializer returns an opaque object for a field value: nothing to recurse into -/
def opaqueAt (m : SerMode) : Ctx → Bool
  | .field _ _ => m == .wrap
  | _ => false

/-- lists unless retaining; inside a dict key: tuples -/
def targetKind (o : Opts) (ctx : Ctx) (k : CKind) : CKind :=
  if o.retain then k else match ctx with
    | .key => .tuple
    | _ => .list

def memberCtx : Ctx → Ctx
  | .key => .key
  | _ => .member

mutual
/-- asdict, recurse=True: what the value at position `ctx` is replaced by -/
def shapeD (o : Opts) (ctx : Ctx) : PVal → Out
  | .atom a => if serApplies o.ser a then serAt o.ser ctx (.atom a) else .atom a
  | .inst c h fs =>
    if opaqueAt o.ser ctx then serAt o.ser ctx (embed (.inst c h fs))
    else .record o.df (shapeDFields o c fs)
  | .coll k xs =>
    if opaqueAt o.ser ctx then serAt o.ser ctx (embed (.coll k xs))
    else .coll false (targetKind o ctx k) (shapeDItems o (memberCtx ctx) xs)
  | .dict k ps =>
    if opaqueAt o.ser ctx then serAt o.ser ctx (embed (.dict k ps))
    else .dict false o.df (shapeDPairs o ps)
/-- the filter-passing fields, in field order, under their names -/
def shapeDFields (o : Opts) (c : Nat) : List (FI × PVal) → List (String × Out)
  | [] => []
  | (f, v) :: r =>
    if passes o.filter f v then (f.name, shapeD o (.field c f) v) :: shapeDFields o c r
    else shapeDFields o c r
def shapeDItems (o : Opts) (ctx : Ctx) : List PVal → List Out
  | [] => []
  | v :: r => shapeD o ctx v :: shapeDItems o ctx r
def shapeDPairs (o : Opts) : List (PVal × PVal) → List (Out × Out)
  | [] => []
  | (k, v) :: r => (shapeD o .key k, shapeD o .member v) :: shapeDPairs o r
end

def isScalarV : PVal → Bool
  | .atom a => a.isScalar
  | _ => false

/-- does the symbolic serializer replace this value? -/
def serAppliesV (m : SerMode) : PVal → Bool
  | .atom a => serApplies m a
  | _ => m == .wrap

/-- asdict, recurse=False: values untouched (but for the serializer) -/
def shapeDFlat (o : Opts) (c : Nat) : List (FI × PVal) → List (String × Out)
  | [] => []
  | (f, v) :: r =>
    if passes o.filter f v then
      (f.name, if serAppliesV o.ser v then serAt o.ser (.field c f) (embed v) else embed v) :: shapeDFlat o c r
    else shapeDFlat o c r

/-! ### with the substituting serializer: "the value_serializer applied to every value" — the value in the result
    is what the serializer returned; what it returned for a *field* value is converted like a field value, what it
    returned for a member / dict key / dict value is stored -/

mutual
def shapeS (o : Opts) (s : Subst) (ctx : Ctx) : PVal → Out
  | .atom a =>
    (match ctx with
     | .field c f => if s.target.hits (some f.name) (.atom a) then shapeD o.noSer (.field c f) s.repl else .atom a
     | _ => if s.target.hits none (.atom a) then embed s.repl else .atom a)
  | .inst c h fs =>
    (match ctx with
     | .field c' f =>
       if s.target.hits (some f.name) (.inst c h fs) then shapeD o.noSer (.field c' f) s.repl
       else .record o.df (shapeSFields o s c fs)
     | _ => .record o.df (shapeSFields o s c fs))
  | .coll k xs =>
    (match ctx with
     | .field c' f =>
       if s.target.hits (some f.name) (.coll k xs) then shapeD o.noSer (.field c' f) s.repl
       else .coll false (targetKind o ctx k) (shapeSItems o s (memberCtx ctx) xs)
     | _ => .coll false (targetKind o ctx k) (shapeSItems o s (memberCtx ctx) xs))
  | .dict k ps =>
    (match ctx with
     | .field c' f =>
       if s.target.hits (some f.name) (.dict k ps) then shapeD o.noSer (.field c' f) s.repl
       else .dict false o.df (shapeSPairs o s ps)
     | _ => .dict false o.df (shapeSPairs o s ps))
def shapeSFields (o : Opts) (s : Subst) (c : Nat) : List (FI × PVal) → List (String × Out)
  | [] => []
  | (f, v) :: r =>
    if passes o.filter f v then (f.name, shapeS o s (.field c f) v) :: shapeSFields o s c r
    else shapeSFields o s c r
def shapeSItems (o : Opts) (s : Subst) (ctx : Ctx) : List PVal → List Out
  | [] => []
  | v :: r => shapeS o s ctx v :: shapeSItems o s ctx r
def shapeSPairs (o : Opts) (s : Subst) : List (PVal × PVal) → List (Out × Out)
  | [] => []
  | (k, v) :: r => (shapeS o s .key k, shapeS o s .member v) :: shapeSPairs o s r
end

mutual
/-- astuple, recurse=True: the filter-passing values positionally -/
def shapeTFields (o : Opts) : List (FI × PVal) → List Out
  | [] => []
  | (f, v) :: r => if passes o.filter f v then shapeTField o v :: shapeTFields o r else shapeTFields o r
/-- a field value: instances become their astuple, collections / dicts are rebuilt one level deep -/
def shapeTField (o : Opts) : PVal → Out
  | .atom a => .atom a
  | .inst _ _ fs => tfOut o.tf (shapeTFields o fs)
  | .coll k xs => .coll false (if o.retain then k else .list) (shapeTMembers o xs)
  | .dict dk ps => .dict false (if o.retain then dk else .dict) (shapeTPairs o ps)
/-- a direct member: instances become their astuple, everything else is the very same object -/
def shapeTMember (o : Opts) : PVal → Out
  | .inst _ _ fs => tfOut o.tf (shapeTFields o fs)
  | .atom a => .atom a
  | .coll k xs => embed (.coll k xs)
  | .dict k ps => embed (.dict k ps)
def shapeTMembers (o : Opts) : List PVal → List Out
  | [] => []
  | v :: r => shapeTMember o v :: shapeTMembers o r
def shapeTPairs (o : Opts) : List (PVal × PVal) → List (Out × Out)
  | [] => []
  | (k, v) :: r => (shapeTMember o k, shapeTMember o v) :: shapeTPairs o r
end

/-- the promised value for a call on an attrs instance -/
def shape (c : Case) : Option Out :=
  match c.value with
  | .inst cls _ fs =>
    let o := c.opts
    match c.api, c.recurse with
    | .asdict, true =>
      (match c.activeSubst with
       | some s => some (.record o.df (shapeSFields o s cls fs))
       | none => some (.record o.df (shapeDFields o cls fs)))
    | .asdict, false =>
      (match c.activeSubst with
       | some s => some (.record o.df (flatS o s fs))
       | none => some (.record o.df (shapeDFlat o cls fs)))
    | .astuple, true => some (tfOut o.tf (shapeTFields o fs))
    | .astuple, false => some (tfOut o.tf (flatT o.filter fs))
  | _ => none

/-! ## Phase 2: building it in Python -/

mutual
/-- build every *new* container of a description bottom-up; objects of the argument are taken as they are -/
def realise : Out → Except String Out
  | .atom a => .ok (.atom a)
  | .inst s c h fs => .ok (.inst s c h fs)
  | .ser c f v => .ok (.ser c f v)
  | .coll true k xs => .ok (.coll true k xs)
  | .coll false k xs => (realiseL xs).bind (pyColl k)
  | .dict true k ps => .ok (.dict true k ps)
  | .dict false k ps => (realiseP ps).bind (pyDict k)
  | .record k ps => (realiseR ps).map (Out.record k)
def realiseL : List Out → Except String (List Out)
  | [] => .ok []
  | v :: r => consE (realise v) (realiseL r)
def realiseP : List (Out × Out) → Except String (List (Out × Out))
  | [] => .ok []
  | (k, v) :: r => consE (pairE (realise k) (realise v)) (realiseP r)
def realiseR : List (String × Out) → Except String (List (String × Out))
  | [] => .ok []
  | (n, v) :: r => consE ((realise v).map (fun x => (n, x))) (realiseR r)
end

/-! ## Comparing results: everything exact except the iteration order of (new) sets -/

def eqvN : Nat → Out → Out → Bool
  | 0, _, _ => false
  | _ + 1, .atom a, .atom b => a == b
  | n + 1, .inst s c h fs, .inst s' c' h' fs' =>
    s == s' && c == c' && h == h' && all2 (fun p q => p.1 == q.1 && eqvN n p.2 q.2) fs fs'
  | n + 1, .ser c f v, .ser c' f' v' => c == c' && f == f' && eqvN n v v'
  | n + 1, .coll s k xs, .coll s' k' ys =>
    s == s' && k == k' &&
    (if k.isSetish then
       xs.length == ys.length && xs.all (fun x => ys.any (fun y => eqvN n x y)) &&
       ys.all (fun y => xs.any (fun x => eqvN n x y))
     else all2 (eqvN n) xs ys)
  | n + 1, .dict s k ps, .dict s' k' qs =>
    s == s' && k == k' && all2 (fun p q => eqvN n p.1 q.1 && eqvN n p.2 q.2) ps qs
  | n + 1, .record k ps, .record k' qs =>
    k == k' && all2 (fun p q => p.1 == q.1 && eqvN n p.2 q.2) ps qs
  -- an empty new mapping looks the same whether it came from an instance without fields or from a dict
  | _ + 1, .record k [], .dict false k' [] => k == k'
  | _ + 1, .dict false k [], .record k' [] => k == k'
  | _ + 1, _, _ => false

def eqv (x y : Out) : Bool := eqvN (x.size + 1) x y

def Res.eqv : Res → Res → Bool
  | .ok x, .ok y => C13.eqv x y
  | .exc e, .exc e' => e == e'
  | _, _ => false

def Obs.eqv (a b : Obs) : Bool :=
  a.result.eqv b.result && a.argUnchanged == b.argUnchanged && a.roundtrip == b.roundtrip &&
  a.faultFired == b.faultFired && a.stable == b.stable && a.filterCalls == b.filterCalls &&
  a.serCalls == b.serCalls

instance : BEq Obs := ⟨Obs.eqv⟩

/-! ## Well-formed cases: trees that exist as Python values -/

def distinct : List Out → Bool
  | [] => true
  | x :: r => r.all (fun y => !pyEq x y && !pyEq y x) && distinct r

def namesDistinct : List String → Bool
  | [] => true
  | n :: r => !r.contains n && namesDistinct r

mutual
def wfV : PVal → Bool
  | .atom _ => true
  | .inst _ _ fs => wfF fs && namesDistinct ((embedF fs).map (fun p => p.1.name))
  | .coll k xs =>
    wfL xs && (if k.isSetish then (embedL xs).all hashable && distinct (embedL xs) else true)
  | .dict _ ps =>
    wfP ps && ((embedP ps).map (fun p => p.1)).all hashable && distinct ((embedP ps).map (fun p => p.1))
def wfF : List (FI × PVal) → Bool
  | [] => true
  | (_, v) :: r => wfV v && wfF r
def wfL : List PVal → Bool
  | [] => true
  | v :: r => wfV v && wfL r
def wfP : List (PVal × PVal) → Bool
  | [] => true
  | (k, v) :: r => wfV k && wfV v && wfP r
end

/-- the callback the fault sits in is actually passed to the call -/
def siteOK (c : Case) (f : Fault) : Bool :=
  match f.site with
  | .ser => c.api == .asdict && c.ser != .off
  | .filter => c.filter != .none
  | .dictFactory => c.api == .asdict && !c.ng
  | .tupleFactory => c.api == .astuple && !c.ng

mutual
/-- converting the replacement as a field value hands nothing to the serializer that it would replace again
    (else the real call recurses without end) -/
def replSafeF (t : Target) : PVal → Bool
  | .atom _ => true
  | .inst _ _ fs => replSafeFields t fs
  | .coll _ xs => replSafeL t xs
  | .dict _ ps => replSafeP t ps
def replSafeM (t : Target) : PVal → Bool
  | .atom a => !t.hits none (.atom a)
  | .inst _ _ fs => replSafeFields t fs
  | .coll _ xs => replSafeL t xs
  | .dict _ ps => replSafeP t ps
def replSafeFields (t : Target) : List (FI × PVal) → Bool
  | [] => true
  | (f, v) :: r =>
    (match t with
     | .field n => n != f.name
     | .all => false
     | .scalars => !isScalarV' v
     | .atomIs a => (match v with
       | .atom b => a != b
       | _ => true)) && replSafeF t v && replSafeFields t r
def replSafeL (t : Target) : List PVal → Bool
  | [] => true
  | v :: r => replSafeM t v && replSafeL t r
def replSafeP (t : Target) : List (PVal × PVal) → Bool
  | [] => true
  | (k, v) :: r => replSafeM t k && replSafeM t v && replSafeP t r
end

mutual
def noHashableInst : PVal → Bool
  | .atom _ => true
  | .inst _ h fs => h.isNone && noHashableInstF fs
  | .coll _ xs => noHashableInstL xs
  | .dict _ ps => noHashableInstP ps
def noHashableInstF : List (FI × PVal) → Bool
  | [] => true
  | (_, v) :: r => noHashableInst v && noHashableInstF r
def noHashableInstL : List PVal → Bool
  | [] => true
  | v :: r => noHashableInst v && noHashableInstL r
def noHashableInstP : List (PVal × PVal) → Bool
  | [] => true
  | (k, v) :: r => noHashableInst k && noHashableInst v && noHashableInstP r
end

/-- only the property's own preconditions: the tree exists as a Python value, the callback the fault sits in
    is passed.  (Generator invariant, not a precondition: faults are injected only into calls that complete
    without them, so the injected exception is the only one in play and "the k-th call" does not depend on the
    order of evaluation; see `fires`.)  With the substituting serializer: the replacement is a Python value, its
    conversion terminates (`replSafeF`), it holds no hashable instance (one object returned twice into one set
    would need object identity in `pyEq`), and no fault is injected. -/
def wf (c : Case) : Bool :=
  wfV c.value &&
  (match c.fault with
   | none => true
   | some f => siteOK c f) &&
  (match c.ser, c.subst with
   | .subst, some s =>
     c.api == .asdict && c.fault.isNone && wfV s.repl && replSafeF s.target s.repl && noHashableInst s.repl
   | .subst, none => false
   | _, _ => true)

/-! ## Known deviations: none (K13a / K13b / K13c were repaired in attrs; the former witnesses are
    regression cases in `corpus/C13`, the old behaviour is kept in `Proofs/C13Old.lean`) -/

def known (_ : Case) : List String := []

/-! ## The specification -/

/-- what is demanded of the result -/
inductive Demand where
  | nothing              -- the argument is not an attrs instance: the statement does not apply
  | value (v : Out)      -- the promised shape, built
  | raises               -- the promised shape cannot exist as a Python value: nothing can be returned
  deriving Repr, Inhabited

def demanded (c : Case) : Demand :=
  match shape c with
  | none => .nothing
  | some s => match realise s with
    | .ok v => .value v
    | .error _ => .raises

def Res.isExc : Res → Bool
  | .exc _ => true
  | .ok _ => false

/-- * no mutation; a repeated identical call gives the same (the functions depend on nothing but their
      arguments — not on what was converted before, nor on when a class became an attrs class);
    * an exception raised by a callback (value_serializer, filter, dict_factory, tuple_factory) propagates:
      it is not swallowed and no partial result is returned;
    * otherwise the result is the promised shape, built;
    * the filter and the serializer are consulted once per field occurrence (no memo across equal values). -/
def specMain (c : Case) (o : Obs) : Bool :=
  o.argUnchanged && o.stable &&
  (if o.faultFired then o.result.eqv (.exc "fault")
   else match demanded c with
     | .nothing => true
     | .value v => o.result.eqv (.ok v)
     | .raises => o.result.isExc) &&
  (if roundtripApplies c then o.roundtrip == some true else true)

/-- a call that returned consulted the filter / the serializer exactly once per occurrence -/
def specCalls (c : Case) (o : Obs) : Bool :=
  match o.result with
  | .ok _ => o.filterCalls == expectedCalls c .filter && o.serCalls == expectedCalls c .ser
  | .exc _ => true

def spec (c : Case) (o : Obs) : Bool := specMain c o && specCalls c o

def check : Check Case Obs := { model := model, spec := spec, wf := wf, known := known }

def handle := runCheck check

end Attrs.C13
