/-
  C03, T3 part — translation validation of the generated `__eq__` source (and of the `__ne__` helper).

  A `"script"` case describes a class (its fields with their cmp/eq/order arguments; no operands); the
  observation is what the harness read from the class that was really built (harness/c03_ir.py): the literal
  source lines of `C.__eq__`, their strict parse into the IR of `Model/C03IR.lean` with the bindings of the
  helper globals, the parse of the `__ne__` helper's source, and whether `C.__ne__` is that helper.

    model  = `genText` / `genEq` / `genNe` of the field list;
    agree  = syntactic equality (text lines AND IR AND bindings);
    spec   = executing the OBSERVED scripts (`execEq`, `execNe`) on a canonical family of operands derived from
             the field list — every vector of per-field outcomes over {T, F} for up to six fields (all four outcomes
             for up to two; above six: all-true and one field false at the ends and quarter points), plus non-bool
             variants of single fields, each with the outcomes of the OTHER two ways of
             comparing the field (raw / eq-keyed / order-keyed) set to the contrary, for operands of the same
             class, the identical object, and sub / super / foreign operands — yields what `C03.specRound` demands.

  So a behaviour-preserving rewrite of the emitted text is a disagreement whose spec still holds (the verdict
  rules then search for a failing input and report `no-failing-input-found`), while a script that computes
  something else on some operand family is a violation, whichever operands the T2 sampler happened to try.
  A script with an untranslated statement cannot be executed: its spec is vacuously true and it is reported
  through the disagreement.

  With `C03_script_correct` (Properties/C03.lean: executing `genEq fields` *is* the model's `eqMethod`), agreement
  on a class binds the ∀-operand theorems of C03 to the text that really runs for that class.
-/
import AttrsModel.Model.C03IR
import AttrsModel.Spec.C03Base

namespace Attrs.C03.Script
open Attrs.C03 Attrs.C03.IR Lean

structure Case where
  fields : List Field
  /-- the helper-name prefix the source of `_make_eq_script` uses (read from the source, T1) -/
  keyPrefix : String
  deriving Repr, FromJson, ToJson, Inhabited

structure Obs where
  text : List String
  eq : EqScript
  ne : NeScript
  /-- `C.__dict__["__ne__"]` is the shared helper whose source `ne` was parsed from -/
  neInstalled : Bool
  deriving DecidableEq, Repr, FromJson, ToJson, Inhabited

def model (c : Case) : Obs :=
  { text := genText c.keyPrefix c.fields, eq := genEq c.fields, ne := genNe, neInstalled := true }

def noLayer : Layer := { eq := .absent, ne := .absent }

/-- the class with one pair of operands: plain class (`eq=True`), nothing hashed, no faults -/
def Case.at (c : Case) (fields : List Field) (rhs : Rhs) : C03.Case :=
  { fields := fields, rhs := rhs, clsEq := .t, autoDetect := false, own := noLayer, ancestors := [],
    subLayer := noLayer, foreignLayer := noLayer, metaLayer := noLayer,
    hist := { cacheHash := false, hashedX := false, hashedY := false, reassignedX := [], reassignedY := [] } }

def contrary (o : Outcome) : Outcome := if o.isTruthy then .F else .T

/-- the field with the way `==` must compare it answering `o` and the two other ways answering the contrary -/
def withOutcome (f : Field) (o : Outcome) : Field :=
  if hasKey f then { f with keyed := o, raw := contrary o, orderKeyed := contrary o, fault := .none }
  else { f with raw := o, keyed := contrary o, orderKeyed := contrary o, fault := .none }

def vectors {α : Type} (dom : List α) : Nat → List (List α)
  | 0 => [[]]
  | n + 1 => (vectors dom n).flatMap (fun v => dom.map (· :: v))

def setAt (fs : List Field) (i : Nat) (o : Outcome) : List Field :=
  (fs.zipIdx).map (fun (f, j) => if j == i then withOutcome f o else withOutcome f .T)

/-- the positions at which single fields are varied: all of them up to 8 fields; otherwise both ends, their
    neighbours and the quarter points (size thresholds show in the text, not in which field is varied) -/
def positions (n : Nat) : List Nat :=
  if n ≤ 8 then List.range n else [0, 1, n / 4, n / 2, 3 * n / 4, n - 2, n - 1].eraseDups

/-- the canonical outcome assignments of a field list -/
def assignments (fs : List Field) : List (List Field) :=
  let dom : List Outcome := if fs.length ≤ 2 then [.T, .F, .truthy, .falsy] else [.T, .F]
  let full := if fs.length ≤ 6 then (vectors dom fs.length).map (fun v => (fs.zip v).map (fun (f, o) => withOutcome f o))
              else [fs.map (withOutcome · .T)] ++ (positions fs.length).map (fun i => setAt fs i .F)
  full ++ (positions fs.length).flatMap (fun i => [setAt fs i .truthy, setAt fs i .falsy])

/-- the canonical operand family -/
def operands (c : Case) : List C03.Case :=
  (assignments c.fields).map (fun fs => c.at fs .same) ++
  [c.at (c.fields.map (withOutcome · .T)) .identical,
   c.at (c.fields.map (withOutcome · .F)) .identical,
   c.at (c.fields.map (withOutcome · .T)) .sub,
   c.at (c.fields.map (withOutcome · .T)) .super,
   c.at (c.fields.map (withOutcome · .T)) .foreign]

/-- one round as the observed scripts compute it -/
def scriptRound (o : Obs) (k : C03.Case) : Round :=
  roundOfEq (execEq o.eq (envOf k.fields) (sameClass k.rhs))
    (fun r => if o.neInstalled then execNe o.ne r else .exc) k

structure Witness where
  operands : C03.Case
  got : Round
  deriving ToJson

/-- the first operand pair on which the scripts do not do what the property demands -/
def firstFailure (c : Case) (o : Obs) : Option Witness :=
  (operands c).findSome? (fun k =>
    let r := scriptRound o k
    if specRound k r then none else some { operands := k, got := r })

def executable (o : Obs) : Bool := !o.eq.hasUnknown && !o.ne.hasUnknown

def spec (c : Case) (o : Obs) : Bool := !executable o || (firstFailure c o).isNone

def wf (c : Case) : Bool := C03.wf (c.at c.fields .same)

def known (_ : Case) : List String := []

def check : Check Case Obs := { model := model, spec := spec, wf := wf, known := known }

/-- `runCheck check`, with the failing operands of the observed script (if any) attached to the model output
    as a diagnostic for the replay file -/
def handle (case obs : Json) : Except String Reply := do
  let c ← fromJson? (α := Case) case
  let o ← fromJson? (α := Obs) obs
  let m := model c
  let w : Json := if !executable o then Json.null else
    match firstFailure c o with
    | some w => toJson w
    | none => Json.null
  pure { agree := m == o, specModel := spec c m, specObs := spec c o, wf := wf c, known := known c,
         model := Json.mkObj [("text", toJson m.text), ("eq", toJson m.eq), ("ne", toJson m.ne),
                              ("neInstalled", toJson m.neInstalled),
                              ("failing_operands_of_observed_script", w)] }

end Attrs.C03.Script
