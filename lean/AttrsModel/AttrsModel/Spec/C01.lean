/-
  C01 — the check's entry point.  Ordinary cases (one class, one call; `Spec/C01Base.lean`) go through
  `runCheck check` unchanged; cases with `"kind": "script"` (T3, thorough tier; `Spec/C01Script.lean`) compare
  the parsed source of the generated initializer with the model generator's script.
-/
import AttrsModel.Spec.C01Base
import AttrsModel.Spec.C01Script

namespace Attrs.C01
open Lean

def handle (case obs : Json) : Except String Reply :=
  match case.getObjValAs? String "kind" with
  | .ok "script" => Script.handle case obs
  | _ => runCheck check case obs

end Attrs.C01
