/-
  C04 — what the property demands, written against the *documented* three-way table and as local
  conditions on each observed operation; nothing here runs the cache machine of the model
  (only `known`, which predicts where the pinned tree is already known to deviate, does).
-/
import AttrsModel.Model.C04

namespace Attrs.C04

/-! ## The documented table (docs/hashing.md, `define`'s docstring, the property statement) -/

/-- generated iff unsafe_hash=True, or unsafe_hash unset ∧ eq on ∧ frozen (also by inheritance) — unless
    the inherited hash is left untouched -/
def docGenerated (f : Facts) : Bool :=
  !f.isExc && (f.hashArg == some true || (f.hashArg == none && !f.detected && f.eqOn && f.frozenEff))

/-- made unhashable iff unsafe_hash unset ∧ eq on ∧ not frozen -/
def docUnhashable (f : Facts) : Bool :=
  !f.isExc && f.hashArg == none && !f.detected && f.eqOn && !f.frozenEff

/-- left untouched iff eq is off, or an own `__hash__` was auto-detected, or auto_exc exception class -/
def docUntouched (f : Facts) : Bool :=
  f.isExc || (f.hashArg != some true && !f.eqOn) || (f.hashArg == none && f.detected)

/-- the excluded legacy row: `unsafe_hash=False` with eq on -/
def legacyRow (f : Facts) : Bool := f.hashArg == some false && f.eqOn

def docOutcome (f : Facts) : Outcome :=
  if docGenerated f then .generated else if docUnhashable f then .unhashable else .untouched

/-! ## Well-formedness -/

def flag3 : Flag → Bool
  | .pyNone => false
  | _ => true

def wfCls (c : Cls) : Bool :=
  flag3 c.frozen && flag3 c.slots && flag3 c.autoDetect && flag3 c.autoExc && flag3 c.cacheHash &&
  (match c.api with
   | .plain =>
     c.eq == .unset && c.cmp == .unset && c.hash == .unset && c.unsafeHash == .unset && c.init == .unset &&
     c.getstateSetstate == .unset &&
     c.frozen == .unset && c.slots == .unset && c.autoDetect == .unset && c.autoExc == .unset &&
     c.cacheHash == .unset && c.fields == [] && !c.ownInit
   | .attrS => true
   | _ => c.cmp == .unset) &&
  -- `cmp` mixed with `eq` is C15's business; the legacy row is excluded by the property
  (c.api == .plain ||
    (!(facts c false false).mixErr && !legacyRow (facts c false false)))

def distinct (l : List String) : Bool := l.eraseDups.length == l.length

def allFields (c : Case) : List Field := c.chain.flatMap (·.fields)

/-- does the history create or use instances -/
def usesInstances (c : Case) : Bool := !c.insts.isEmpty || !c.ops.isEmpty

def valsOk (c : Case) (n : Nat) (vs : List Nat) : Bool :=
  vs.length == n && vs.all (· < c.eqc.length)

/-- indices in range, values in the domain, copies only where `copyOk` (see `wf`), and
    no field write after the first hash of the same instance -/
def wfOps (c : Case) (nF : Nat) (copyOk : Bool) : Nat → List Nat → List Op → Bool
  | _, _, [] => true
  | n, hashed, .hash i alt :: rest => i < n && valsOk c nF alt && wfOps c nF copyOk n (i :: hashed) rest
  | n, hashed, .copy i :: rest => i < n && copyOk && wfOps c nF copyOk (n + 1) hashed rest
  | n, hashed, .deepcopy i :: rest => i < n && copyOk && wfOps c nF copyOk (n + 1) hashed rest
  | n, hashed, .pickle i :: rest => i < n && copyOk && wfOps c nF copyOk (n + 1) hashed rest
  | n, hashed, .evolve i ch :: rest =>
    i < n && ch.all (fun fv => fv.1 < nF && fv.2 < c.eqc.length) && wfOps c nF copyOk (n + 1) hashed rest
  | n, hashed, .assoc i ch :: rest =>
    i < n && copyOk && ch.all (fun fv => fv.1 < nF && fv.2 < c.eqc.length) && wfOps c nF copyOk (n + 1) hashed rest
  | n, hashed, .set i f v :: rest =>
    i < n && f < nF && v < c.eqc.length && !hashed.contains i && wfOps c nF copyOk n hashed rest

/-- K3 of C01/C08/C10 (not this property's business): the class whose `__init__` runs is a frozen dict
    class and `base_attr_map` names, for a field that is a slot of some base, a class without
    `__slots__`; the value lands in `__dict__` and the field cannot be read.  `lf` is leaf-first. -/
def k3shape (lf : List Node) : Bool :=
  match lf.dropWhile (fun n => !n.isAttrs) with
  | [] => false
  | m :: below =>
    m.facts.frozenEff && !m.facts.slotsEff &&
    -- attr.s's legacy collection attributes every inherited field to the direct base; collection by
    -- MRO (define / frozen) attributes each field to the class that owns it and is never wrong here
    m.cls.api == .attrS &&
      (match below with
       | [] => false
       | p :: _ => !(p.isAttrs && p.facts.slotsEff) &&
                   below.any (fun n => n.isAttrs && n.facts.slotsEff && !n.cls.fields.isEmpty))

/-- a further base: an attrs class (attr.s / define / frozen) with at most `frozen` and `slots` passed, or a
    plain class; no fields, nothing defined in the body -/
def wfSide (c : Case) (s : Side) : Bool :=
  let k := s.cls
  k.eq == .unset && k.cmp == .unset && k.hash == .unset && k.unsafeHash == .unset && k.init == .unset &&
  k.autoDetect == .unset && k.autoExc == .unset && k.cacheHash == .unset && k.getstateSetstate == .unset &&
  flag3 k.frozen && flag3 k.slots && (k.api != .plain || (k.frozen == .unset && k.slots == .unset)) &&
  k.ownHash == .no && !k.ownEq && !k.ownNe && !k.ownInit && k.fields.isEmpty &&
  -- a diamond goes through a proper ancestor of the last class; through its direct parent only when the
  -- further bases are listed first (otherwise CPython finds no consistent MRO)
  (match s.via with
   | some j => j + 2 < c.chain.length || (j + 2 == c.chain.length && c.sideFirst)
   | none => true)

def slottedCls (k : Cls) : Bool := k.api != .plain && (facts k false false).slotsEff

/-- CPython refuses two bases with non-empty `__slots__` layouts (every slotted attrs class has at least
    `__weakref__`): at most one slotted lineage among the bases of the last class, and none in a diamond -/
def layoutOk (c : Case) : Bool :=
  ((if c.chain.dropLast.any slottedCls then 1 else 0) + (c.side.filter (fun s => slottedCls s.cls)).length ≤ 1) &&
  c.side.all (fun s => s.via.isNone || (!slottedCls s.cls && !c.chain.dropLast.any slottedCls))

def wf (c : Case) : Bool :=
  let ns := nodesWith docOutcome c
  let L := layoutOf ns
  !c.chain.isEmpty && c.chain.all wfCls &&
  -- multiple inheritance is a dimension of the class-level table only
  (c.side.isEmpty || (c.side.all (wfSide c) && layoutOk c && !c.excBase && c.insts.isEmpty && c.ops.isEmpty)) &&
  distinct ((allFields c).map (·.name)) &&
  c.keyMap.length == c.eqc.length && c.hcode.length == c.eqc.length &&
  c.eqc.all (· < c.eqc.length) && c.keyMap.all (· < c.eqc.length) &&
  (!usesInstances c ||
    (!k3shape ns.reverse &&
     c.chain.all (fun k => k.api == .plain || (!k.ownInit && (facts k false false).initOn)) &&
     c.insts.all (valsOk c L.nFields) &&
     -- copies: not of exception instances (BaseException has its own reduce protocol) and not where the
     -- state methods that resolve belong to a base or are switched off on a slotted class (C10)
     wfOps c L.nFields (L.copyMode != .unsupported && !c.excBase) c.insts.length [] c.ops))

/-! ## Known deviations of the pinned tree -/

def isHashOp : Op → Bool
  | .hash _ _ => true
  | _ => false

def hasHashOp (c : Case) : Bool := c.ops.any isHashOp

/-- K1: the `__hash__` that resolves is a caching one, but the `__init__` that runs (and the
    `__setstate__`) belong to a class that does not cache: `_attrs_cached_hash` is never created -/
def k1 (L : Layout) : Bool :=
  match L.hres with
  | .gen n => n.facts.cacheOn && !L.initCache
  | _ => false

/-- K2: frozen dict caching class below a slotted caching class: the cache line writes `__dict__`, the
    slot found on the MRO stays empty -/
def k2 (L : Layout) : Bool :=
  match L.hres with
  | .gen n => n.facts.cacheOn && L.initCache && L.initDirect && L.hasSlot
  | _ => false

/-- K5: a hash call that returns a cached value which is no longer the hash of the instance's fields
    (under `wf` only reachable by writing to a shallow copy of an already hashed dict instance) -/
def k5 (c : Case) (L : Layout) (rs : List Res) : Bool :=
  match L.hres with
  | .gen _ => (c.ops.zip rs).any (fun p => isHashOp p.1 && p.2.out == .ok && !p.2.sameUncached)
  | _ => false

def known (c : Case) : List String :=
  let ns := nodesWith codeOutcome c
  if built ns && hasHashOp c then
    let L := layoutOf ns
    (if k1 L then ["K1"] else []) ++ (if k2 L then ["K2"] else []) ++
    (if k5 c L (model c).results then ["K5"] else [])
  else []

/-! ## The specification -/

def specKind (n : Node) (o : ClsObs) : Bool :=
  match o with
  | .typeError =>
    -- documented: cache_hash needs a generated hash and a generated __init__
    n.facts.cacheOn && (n.outcome != .generated || !n.facts.initOn)
  | .valueError => n.facts.mixErr
  | k =>
    match n.outcome with
    | .generated => k == .generated
    | .unhashable => k == .isNone
    | .untouched => k == naturalKind n.cls

/-- observed class kinds against the documented table; the list stops at the first error -/
def specClasses : List Node → List ClsObs → Bool
  | [], [] => true
  | n :: ns, o :: os =>
    specKind n o &&
    (if o == .typeError || o == .valueError then os.isEmpty else specClasses ns os)
  | _, _ => false

def isHashOn (i : Nat) : Op → Bool
  | .hash j _ => i == j
  | _ => false

def computed (r : Res) : Bool := r.nKey + r.nVal > 0

def specOp (c : Case) (L : Layout) (op : Op) (r : Res) : Bool :=
  match op with
  | .hash _ alt =>
    (match L.hres with
     | .gen n =>
       -- never raises
       r.out == .ok &&
       -- stable, and (with cache_hash) equal to the uncached value
       r.sameUncached &&
       -- a function of the class and the participating (keyed) values only
       (!(agreeOn c.veq c.key n.fields r.vals alt) || r.hashAlt) &&
       -- equal ⇒ equal hashes, when `__eq__` and `__hash__` are generated over the same fields (same
       -- class, or a subclass that adds none) and no field is hashed that is not compared
       (match L.eres with
        | .gen m => !(m.fields == n.fields && hashWithinEq n.fields && r.eqAlt) || r.hashAlt
        | .ident => true)
     | .ident | .const => r.out == .ok
     | .unhashable => true)
  | _ => true

/-- with cache_hash: at most one computing `hash` call per instance -/
def onceOk (ops : List Op) (rs : List Res) (n : Nat) : Bool :=
  (List.range n).all (fun i => ((ops.zip rs).filter (fun p => isHashOn i p.1 && computed p.2)).length ≤ 1)

def specOps (c : Case) (L : Layout) : List Op → List Res → Bool
  | [], [] => true
  | op :: ops, r :: rs => specOp c L op r && specOps c L ops rs
  | _, _ => false

def isErrKind (k : ClsObs) : Bool := k == .typeError || k == .valueError

def spec (c : Case) (o : Obs) : Bool :=
  let ns := nodesWith docOutcome c
  specClasses ns o.classes &&
  (if o.classes.any isErrKind then o.results.isEmpty
   else
     let L := layoutOf ns
     specOps c L c.ops o.results &&
     (match L.hres with
      | .gen n => !n.facts.cacheOn || onceOk c.ops o.results (c.insts.length + c.ops.length)
      | _ => true))

def check : Check Case Obs := { model := model, spec := spec, wf := wf, known := known }


end Attrs.C04
