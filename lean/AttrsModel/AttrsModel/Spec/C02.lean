/-
  C02 — the init protocol, declaratively: the complete callback trace of a construction (order,
  exactly-once, arguments), cut after the first failing callback; the failing callback's exception
  propagates; nothing after it runs or is stored; `args` of exception classes.
-/
import AttrsModel.Spec.C01Base

namespace Attrs.C02
open Attrs.Init

def ev (kind field : String) (idx : Nat) (args : List Val) : Event :=
  { id := { kind := kind, field := field, idx := idx }, args := args }

/-- the callbacks one field contributes before its value is stored: factory (only when no value was
    supplied), then converter on the raw value (for a converter chain: every member, left to right, each on
    the previous member's result, each given instance / field as IT requested: `convEventsOf`) -/
def attrEvents (attrs : List Attr) (c : Call) (a : Attr) : List Event :=
  let given := if a.init then passed (params attrs) c a.alias else none
  let fac := match given, a.dflt with
    | none, .factory ts => [ev "factory" a.name 0 (factoryArgs ts)]
    | _, _ => []
  fac ++ convEventsOf a (C01.rawOf attrs c a)

def validatorEventsOf (attrs : List Attr) (c : Call) : List Event :=
  (attrs.filter participates).flatMap (fun a =>
    (List.range a.validators).map (fun i =>
      ev "validator" a.name i ["self", "attr." ++ a.name, convApply a (C01.rawOf attrs c a)]))

/-- values the initializer received, as pre-init must see them: positional parameters positionally, then
    keyword-only ones by name; defaults for what was not passed -/
def preEventArgs (attrs : List Attr) (c : Call) : List Val :=
  let ps := params attrs
  let val (p : Param) : Val := match passed ps c p.name with
    | some v => v
    | none => p.dflt.getD "?"
  (ps.filter (!·.kwOnly)).map val ++ (ps.filter (·.kwOnly)).map (fun p => p.name ++ "=" ++ val p)

def preEvents (r : RunIn) (c : Call) : List Event :=
  match r.cfg.pre with
  | .none => []
  | .noArgs => [ev "pre" "" 0 []]
  | .withArgs => [ev "pre" "" 0 (preEventArgs r.attrs c)]

def expectedTrace (r : RunIn) (c : Call) : List Event :=
  preEvents r c ++
  (r.attrs.filter participates).flatMap (attrEvents r.attrs c) ++
  (if r.cfg.runValidators then validatorEventsOf r.attrs c else []) ++
  (if r.cfg.post then [ev "post" "" 0 []] else [])

/-- events up to and including the failing one -/
def cutAt (fault : Option EventId) : List Event → List Event
  | [] => []
  | e :: es => if fault = some e.id then [e] else e :: cutAt fault es

def hits (fault : Option EventId) (es : List Event) : Bool := es.any (fun e => fault = some e.id)

/-- per-field events of the listed fields up to and including field `n` -/
def upTo (evs : Attr → List Event) (n : String) : List Attr → List Event
  | [] => []
  | b :: bs => evs b ++ (if b.name == n then [] else upTo evs n bs)

/-- the events that precede the store of field `a` (pre-init, and every field up to and including `a`) -/
def eventsUpTo (r : RunIn) (c : Call) (a : Attr) : List Event :=
  preEvents r c ++ upTo (attrEvents r.attrs c) a.name (r.attrs.filter participates)

def wf (c : Case) : Bool :=
  C01.wf { c with run := { c.run with fault := none } } &&
  callOk (params c.run.attrs) c.call

def known (c : Case) : List String := C01.known c

def spec (c : Case) (o : Obs) : Bool :=
  let r := c.eff
  let full := expectedTrace r c.call
  let failed := hits r.fault full
  -- order, exactly-once, arguments; nothing after the failing callback; no hook ever
  o.trace == cutAt r.fault full &&
  -- the failing callback's exception propagates unchanged, otherwise the call returns
  o.exc == (if failed then some .user else none) &&
  -- a field is stored iff nothing failed before its store
  o.values == r.attrs.map (fun a =>
      (a.name, if hits r.fault (eventsUpTo r c.call a) then none else C01.expectedValue r.attrs c.call a)) &&
  -- args of auto_exc exception classes
  o.excArgs == (if r.cfg.isExc && !failed then
      some (((r.attrs.filter participates).filter (·.init)).map (fun a => convApply a (C01.rawOf r.attrs c.call a)))
    else none)

def model (c : Case) : Obs := { runInit c with cache := none }

def check : Check Case Obs := { model := model, spec := spec, wf := wf, known := known }

def handle := runCheck check

end Attrs.C02
