/-
  C04 — the check's entry point.  Ordinary cases (class chain, instances, history; `Spec/C04Base.lean`) go through
  `runCheck check` unchanged; cases with `"kind": "script"` (T3; `Spec/C04Script.lean`) compare the parsed source
  of the generated `__hash__` with the model generator's script.
-/
import AttrsModel.Spec.C04Base
import AttrsModel.Spec.C04Script

namespace Attrs.C04
open Lean

def handle (case obs : Json) : Except String Reply :=
  match case.getObjValAs? String "kind" with
  | .ok "script" => Script.handle case obs
  | _ => runCheck check case obs

end Attrs.C04
