/-
  C19 (a) — what the property says about converter combinators, as a reference evaluator written from the
  statement (not from the code): a converter expression denotes a function value → (result, calls made);
  `pipe` is the left-to-right Kleisli fold (identity when empty), `optional(c)` maps None to None without calling
  `c` and is `c` otherwise, `default_if_none` replaces exactly None by the default / a fresh factory result, and a
  `Converter(fn, takes_self, takes_field)` anywhere in the expression receives, after the value, the instance and
  the field of the use site "in the order they are documented".  There is no notion of built object, of
  `isinstance` dispatch, of arity or of generated code here.
-/
import AttrsModel.Model.C19Conv

namespace Attrs.C19.Conv

/-- sequencing: stop at the first exception -/
def bindO (o : Out) (k : Val → Trace → Out) : Out :=
  match o with
  | (.ok v, tr) => k v tr
  | (.exc e, tr) => (.exc e, tr)

mutual
def ref : ConvTree → String → String → Val → Trace → Out
  | .fn n b, _, _, v, tr => callFn n b [v.render] tr
  | .conv n b ts tf, i, f, v, tr =>
    callFn n b ([v.render] ++ (if ts then [i] else []) ++ (if tf then [f] else [])) tr
  | .pipe cs, i, f, v, tr => refL cs i f v tr
  | .optional c, i, f, v, tr => if v.isNone then (.ok .none, tr) else ref c i f v tr
  | .dinV d, _, _, v, tr => (.ok (if v.isNone then d else v), tr)
  | .dinF g b, _, _, v, tr => if v.isNone then callFactory g b tr else (.ok v, tr)
def refL : List ConvTree → String → String → Val → Trace → Out
  | [], _, _, v, tr => (.ok v, tr)
  | c :: cs, i, f, v, tr => bindO (ref c i f v tr) (refL cs i f)
end

/-- one input: standalone the converter sees the tokens it is handed; in a class every field that uses the
    converter — also when several fields share the one converter object — is converted with the instance and with
    ITS OWN field, in definition order (`__init__` stops at the first exception; assignments are independent; on assignment the
    converter runs iff the class's hooks include `setters.convert` — a field without a converter stores the value) -/
def refStep (c : Case) (v : Val) (tr : Trace) : List String × Trace :=
  match c.mode with
  | .standalone =>
    let r := ref c.tree c.inst c.field v tr
    ([r.1.render], r.2)
  | .init | .initDefault => initRun (fun name v tr => ref c.tree selfText (fieldText name) v tr) c.flds v tr
  | .assign =>
    assignFields c.converts (fun name v tr => ref c.tree selfText (fieldText name) v tr) c.flds v tr
  | .setter => assignFields true (fun name v tr => ref c.tree selfText (fieldText name) v tr) c.flds v tr

def expected (c : Case) : Obs :=
  let r := runInputs (refStep c) c.inputs []
  { results := r.1, trace := r.2 }

def spec (c : Case) (o : Obs) : Bool := o == expected c

/-- no preconditions: every tree, every mode, every input list -/
def wf (_ : Case) : Bool := true

def known (_ : Case) : List String := []

def check : Check Case Obs := { model := model, spec := spec, wf := wf, known := known }

end Attrs.C19.Conv
