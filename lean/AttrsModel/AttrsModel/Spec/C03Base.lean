/-
  C03 — what the property demands of an observation, written without reference to the
  generated code: a declarative predicate over the observed results.
-/
import AttrsModel.Model.C03

namespace Attrs.C03

/-- "When attrs generates equality": distinct field names, no `cmp` mixed with `eq` (that is C15's
    business), and the class-level arguments / class body are such that equality is generated. -/
def wf (c : Case) : Bool :=
  c.fields.all (fun f => (effEq f).isSome) &&
  (c.fields.map (·.name)).eraseDups.length == c.fields.length &&
  generates c

/-- every eq-participating field compares truthy -/
def allEqual (c : Case) : Bool := (c.fields.filter participates).all (fun f => (outcome f).isTruthy)

/-- the first class along an MRO that has the name at all -/
def resolved (slots : List Slot) : Slot := (slots.find? Slot.present).getD .absent

/-- Python's default once the left operand has declined an operand of another class: a hand-written
    `__eq__` resolved by the RIGHT operand's class answers; otherwise identity, and the operands differ. -/
def pyDefaultEq (c : Case) : Res :=
  match resolved ((rhsMro c).map (·.eq)) with
  | .user o => Res.ofOutcome o
  | _ => .F

/-- the same for `!=`: the right operand's hand-written `__ne__`; else the negation of its hand-written
    `__eq__` (`object.__ne__`, attrs' helper); else "not identical". -/
def pyDefaultNe (c : Case) : Res :=
  match resolved ((rhsMro c).map (·.ne)) with
  | .user o => Res.ofOutcome o
  | _ =>
    match resolved ((rhsMro c).map (·.eq)) with
    | .user o => Res.ofBool (!o.isTruthy)
    | _ => .T

/-- only participating fields are ever compared, each with `==` and through its key if it has one -/
def onlyParticipating (c : Case) (tr : List String) : Bool :=
  tr.all (fun t => (c.fields.filter participates).any (fun f => tag f == t))

/-- one round judged on its own -/
def specRound (c : Case) (o : Round) : Bool :=
  if sameClass c.rhs then
    -- true exactly when every participating comparison is; never NotImplemented
    o.eqDirect != .NI && o.eqOp != .NI && o.eqDirect != .exc && o.eqOp != .exc &&
    o.eqDirect.isTruthy == allEqual c &&
    o.eqOp.isTruthy == allEqual c &&
    -- != is always the negation (a real bool)
    o.neDirect == Res.ofBool (!allEqual c) &&
    o.neOp == Res.ofBool (!allEqual c) &&
    onlyParticipating c o.trace && onlyParticipating c o.neTrace
  else
    -- any other right operand: both methods NotImplemented, nothing compared, Python falls back to its default
    o.eqDirect == .NI && o.neDirect == .NI &&
    o.eqOp == pyDefaultEq c && o.neOp == pyDefaultNe c && o.trace == [] && o.neTrace == []

/-- a fault is reached iff every participating field before it is fault-free and compares truthy -/
def raises : List Field → Bool
  | [] => false
  | f :: rest =>
    match faultOf f with
    | .none => (outcome f).isTruthy && raises rest
    | _ => true

/-- the round with faults: if a fault is reached the exception propagates out of all four; otherwise (no
    fault, or a falsy field stops the chain before it) the round is judged like any other. -/
def specFirst (c : Case) (o : Round) : Bool :=
  if sameClass c.rhs && raises (c.fields.filter participates) then
    o.eqDirect == .exc && o.neDirect == .exc && o.eqOp == .exc && o.neOp == .exc &&
    onlyParticipating c o.trace && onlyParticipating c o.neTrace
  else specRound c o

/-- the first round with its faults, the later round ON ITS OWN (whatever happened before), no residue -/
def spec (c : Case) (o : Obs) : Bool :=
  specFirst c o.first && specRound c o.again && o.residue == []

def known (_ : Case) : List String := []

def check : Check Case Obs := { model := model, spec := spec, wf := wf, known := known }


end Attrs.C03
