/-
  C07 — what the property demands of an observation.  The expected field list is written from the
  statement, not from the code: *own* declarations in definition order (these= insertion order /
  annotation order / creation-counter order), and for the inherited block the rule "walk the MRO from the
  most distant ancestor towards C; a class contributes the fields it declares itself unless C or a class
  nearer to C declares the name" — no gathering pass, no de-duplication pass, no `inherited` bookkeeping,
  no attribute lookup through plain classes, no legacy walk.
  (K07a — a plain class re-exporting a distant attrs class — was repaired in attrs; plain classes contribute
  nothing to the MRO collector, in the code as in this rule.)
-/
import AttrsModel.Model.C07

namespace Attrs.C07

/-! ### what a class declares itself -/

def clsAt (cs : List Cls) (b : Nat) : Cls := cs[b]?.getD default

def isAttrsCls (cs : List Cls) (b : Nat) : Bool :=
  match cs[b]? with
  | some c => c.kind != .plain
  | none => false

/-- the annotation prefixes documented as meaning "class variable, not a field" (the model uses the tuple
    found in the source; `C07_classvar_prefixes_documented` ties the two) -/
def documentedClassVarPrefixes : List String :=
  ["typing.ClassVar", "t.ClassVar", "ClassVar", "typing_extensions.ClassVar"]

def isClassVarDoc (annot : String) : Bool :=
  documentedClassVarPrefixes.any (fun p => p.toList.isPrefixOf (stripQuotes annot.toList))

/-- annotated with something that is not a ClassVar -/
def annotatedDoc (i : Item) : Bool :=
  match i.ann with
  | some s => !isClassVarDoc s
  | none => false

/-- an attr.ib in the body without a (non-ClassVar) annotation -/
def hasUnannotated (c : Cls) : Bool := c.items.any (fun i => i.val.isIb && !annotatedDoc i)

/-- does the class collect annotated names (auto_attribs), given the decorator and define's inference -/
def specAuto (c : Cls) : Bool :=
  match c.kind, c.autoAttribs with
  | .define, none => !hasUnannotated c
  | _, some b => b
  | _, none => false

/-- explicit `auto_attribs=True` with an unannotated attr.ib: the documented UnannotatedAttributeError -/
def mustRaiseUnannotated (c : Cls) : Bool :=
  c.these.isNone && c.autoAttribs == some true && hasUnannotated c

/-- the fields a class body declares, in definition order -/
def specOwn (c : Cls) : List Attr :=
  match c.these with
  | some l => l.map (fun (n, o) => attrOf n o (annTagOf c.items n))
  | none =>
    if specAuto c then
      c.items.filterMap (fun i => if annotatedDoc i then some (autoAttr i) else none)
    else
      (sortByCounter (c.items.filter (fun i => i.val.isIb))).map
        (fun i => attrOf i.name i.opts (if i.ann.isSome then i.annTag else none))

def kwIf (b : Bool) (l : List Attr) : List Attr := if b then l.map setKw else l

/-- the non-inherited fields of class `b` as its subclasses see them: own declarations, class-level
    kw_only, the class's own transformer, default aliases filled in -/
def specFinalOwn (cs : List Cls) (b : Nat) : List Attr :=
  if isAttrsCls cs b then
    ((applyTr (clsAt cs b).tr b (kwIf (clsAt cs b).kwOnly (specOwn (clsAt cs b)))).filter
      (fun a => !a.inherited)).map defaultAlias
  else []

def declares (cs : List Cls) (b : Nat) (n : String) : Bool :=
  (specFinalOwn cs b).any (fun a => a.name == n)

/-- the inherited block for an MRO tail (nearest first): distant classes first; a declaration survives
    iff neither C (`taken`) nor a class nearer to C (`nearer`) declares that name -/
def specInh (cs : List Cls) (taken : List String) : List Nat → List Nat → List Attr
  | _, [] => []
  | nearer, m :: rest =>
    specInh cs taken (m :: nearer) rest ++
      ((specFinalOwn cs m).filter (fun a =>
        !taken.contains a.name && nearer.all (fun j => !declares cs j a.name))).map inherit

/-- the list handed to the transformer / used for the tuple -/
def specPre (cs : List Cls) (c : Cls) : List Attr :=
  kwIf c.kwOnly (specInh cs ((specOwn c).map (·.name)) [] c.mro.tail) ++ kwIf c.kwOnly (specOwn c)

/-! ### the predicate -/

def obsAlias (f : FieldObs) : FieldObs :=
  match f.alias with
  | some s => if s.isEmpty then { f with alias := some (lstripUnderscore f.name) } else f
  | none => { f with alias := some (lstripUnderscore f.name) }

def obsBadOrderFrom : Bool → List FieldObs → Bool
  | _, [] => false
  | had, a :: l =>
    if a.init && !a.kwOnly then
      if had && !a.hasDefault then true else obsBadOrderFrom (had || a.hasDefault) l
    else obsBadOrderFrom had l

def eraseType (f : FieldObs) : FieldObs := { f with ttag := none }

def lastCls (c : Case) : Cls := c.classes.getLast?.getD default

/-- the list the tuple must be built from: the expected collection, or what the transformer returned
    (having been given the expected collection) -/
def finalList (c : Case) (o : Obs) : Option (List FieldObs) :=
  let pre := (specPre c.classes (lastCls c)).map toObs
  if (lastCls c).tr == .none then
    if o.received.isNone && o.returned.isNone then some pre else none
  else
    if o.received == some pre then o.returned else none

def nodupStr : List String → Bool
  | [] => true
  | a :: l => !l.contains a && nodupStr l

def specViews (c : Case) (o : Obs) : Bool :=
  let names := o.fields.map (·.name)
  let positional := o.fields.filter (fun f => f.init && !f.kwOnly)
  let kwonly := o.fields.filter (fun f => f.init && f.kwOnly)
  -- addressable by index and (names being distinct) by name; fields_dict
  o.byIndex == names &&
  (!nodupStr names ||
    (o.byName == c.probes.map (fun p => indexOf? (fun f => f.name == p) o.fields) && o.dictKeys == names)) &&
  o.dictAgree && o.histAgree &&
  -- has
  o.has.length == c.classes.length &&
  (List.range c.classes.length).all (fun b =>
    (!isAttrsCls c.classes b || o.has[b]? == some true) &&
    (!((mroOf c.classes b).all (fun m => !isAttrsCls c.classes m)) || o.has[b]? == some false)) &&
  -- __match_args__ and the initializer's parameter order
  o.matchArgs == positional.map (·.name) &&
  o.initParams == positional.map (fun f => (f.alias.getD "", false)) ++ kwonly.map (fun f => (f.alias.getD "", true)) &&
  -- immutability / isolation
  o.setattrKinds == (if o.fields.isEmpty then [] else ["frozenInstance"]) &&
  o.metaWriteKinds == (if o.fields.isEmpty then [] else ["typeError"]) &&
  o.afterMutation == o.fields

/-- creating the class under test raised `kind`: only the two documented errors, each only when due -/
def specErr (c : Case) (o : Obs) (kind : ErrKind) : Bool :=
  match kind with
  | .unannotated => mustRaiseUnannotated (lastCls c)
  | .valueError =>
    (match finalList c o with
     | some l => obsBadOrderFrom false l
     | none => false) &&
    o.twins.all (·.isNone)
  | _ => false

def specOk (c : Case) (o : Obs) : Bool :=
  !mustRaiseUnannotated (lastCls c) &&
  (match finalList c o with
   | some l => o.fields == l.map obsAlias
   | none => false) &&
  specViews c o &&
  -- equivalent declarations through other front-ends: equal tuples up to `type`
  o.twins.length == c.twins.length &&
  o.twins.all (fun t => match t with
    | some l => l.map eraseType == o.fields.map eraseType
    | none => false)

def spec (c : Case) (o : Obs) : Bool :=
  match o.err with
  | some (i, kind) =>
    if i < c.classes.length - 1 then true          -- a base class could not be defined: nothing to say about C
    else if i == c.classes.length - 1 then specErr c o kind
    else false
  | none => specOk c o

/-! ### preconditions -/

def nodupNat : List Nat → Bool
  | [] => true
  | a :: l => !l.contains a && nodupNat l

def addName : Tr → List String
  | .add n _ => [n]
  | _ => []

def declNames (c : Cls) : List String :=
  c.items.map (·.name) ++ (match c.these with | some l => l.map (·.1) | none => [])

def wfCls (k : Nat) (c : Cls) : Bool :=
  c.mro.head? == some k && c.mro.tail.all (· < k) && nodupNat c.mro &&
  (c.kind != .define || c.collectByMro) &&
  nodupStr (c.items.map (·.name)) &&
  nodupNat ((c.items.filter (·.val.isIb)).map (fun i => i.val.counter)) &&
  (match c.these with | some l => nodupStr (l.map (·.1)) | none => true)

def wfAll : List Cls → Nat → Bool
  | [], _ => true
  | c :: rest, k => wfCls k c && wfAll rest (k + 1)

def wf (c : Case) : Bool :=
  !c.classes.isEmpty && (lastCls c).kind != .plain &&
  wfAll c.classes 0 &&
  -- names added by transformers are fresh and pairwise distinct
  nodupStr (c.classes.flatMap (fun k => addName k.tr) ++ (c.classes.flatMap declNames).eraseDups) &&
  (match c.abs with
   | some (fe, ds) => lastCls c == encodeCls (lastCls c) fe ds && nodupStr (ds.map (·.name))
   | none => c.twins.isEmpty)

/-! ### known deviations -/

/-- the table of the base classes as the model builds it -/
def baseTable (c : Case) : Table :=
  match buildTable (mroOf c.classes) c.classes.dropLast [] with
  | .ok t => t
  | .error _ => []

/-- K7: legacy collection (attr.s's default) giving something else than collection by MRO -/
def knownLegacy (c : Case) : Bool :=
  (lastCls c).kind == .attrS && !(lastCls c).collectByMro &&
  collectLegacy (mroOf c.classes) (baseTable c) ((specOwn (lastCls c)).map (·.name)) (lastCls c).mro.tail !=
    collectMro (mroOf c.classes) (baseTable c) ((specOwn (lastCls c)).map (·.name)) (lastCls c).mro.tail

def known (c : Case) : List String := if knownLegacy c then ["K7"] else []

def check : Check Case Obs := { model := model, spec := spec, wf := wf, known := known }

def handle := runCheck check

end Attrs.C07
