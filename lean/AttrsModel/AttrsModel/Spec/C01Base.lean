/-
  (The definitions of C01's check; `Spec/C01.lean` adds the T3 script check and the `handle` dispatcher.  This
  file exists so that `Spec/C02.lean`, whose `expectedTrace` the script check reuses, can import it.)

  C01 — what the property demands of one constructor call, stated declaratively:
  signature and annotations from the field list; TypeError exactly for malformed calls; otherwise every
  participating field holds converter(argument | default | fresh factory value), the others are unset.
-/
import AttrsModel.Model.Init

namespace Attrs.C01
open Attrs.Init

/-- the raw (pre-converter) value of a participating field: the argument, else the declared default,
    else a fresh factory result (given the instance if the factory asked for it) -/
def rawOf (attrs : List Attr) (c : Call) (a : Attr) : Val :=
  let given := if a.init then passed (params attrs) c a.alias else none
  match given, a.dflt with
  | some v, _ => v
  | none, .value => dfltVal a
  | none, .factory ts => factoryVal a ts
  | none, .none => "?"        -- mandatory parameter: excluded by `callOk`

def expectedValue (attrs : List Attr) (c : Call) (a : Attr) : Option Val :=
  if participates a then some (convApply a (rawOf attrs c a)) else none

/-- K3: a frozen dict class believes a field is not slot-backed while some class along the MRO has a
    slot of that name: the value is written to `__dict__` and the empty slot shadows it. -/
def misplaced (r : RunIn) (a : Attr) : Bool :=
  participates a && a.isSlot && tech r.cfg (r.belief a.name) a == .instDict

def known (c : Case) : List String :=
  if c.eff.attrs.any (misplaced c.eff) then ["K3"] else []

def distinct (l : List String) : Bool := decide l.Nodup

def wf (c : Case) : Bool :=
  let r := c.eff
  r.fault.isNone &&
  distinct (r.attrs.map (·.name)) &&
  r.attrs.all (·.name != Generated.hashCacheField) &&
  distinct ((r.attrs.filter (·.init)).map (·.alias)) &&
  distinct (c.call.kw.map (·.1)) &&
  c.call.pos.all (· != NOTHING) && c.call.kw.all (·.2 != NOTHING) &&
  -- a frozen class cannot have hooks (rejected at definition time, C15)
  (!r.cfg.frozen || r.attrs.all (·.onSet == .unset))

def spec (c : Case) (o : Obs) : Bool :=
  let r := c.eff
  o.sig == sigOf r.attrs &&
  o.annotations == annotationsOf r.attrs &&
  (if callOk (params r.attrs) c.call then
     o.exc == none &&
     o.values == r.attrs.map (fun a => (a.name, expectedValue r.attrs c.call a))
   else o.exc == some .typeError)

/-- C01 observes signature, annotations, exception kind and field values; the callback trace, `args` and
    the hash cache belong to C02 / C04 and are blanked here. -/
def model (c : Case) : Obs := { runInit c with trace := [], excArgs := none, cache := none }

def check : Check Case Obs := { model := model, spec := spec, wf := wf, known := known }

end Attrs.C01
