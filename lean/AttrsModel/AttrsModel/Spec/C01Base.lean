/-
  (The definitions of C01's check; `Spec/C01.lean` adds the T3 script check and the `handle` dispatcher.  This
  file exists so that `Spec/C02.lean`, whose `expectedTrace` the script check reuses, can import it.)

  C01 — what the property demands of one constructor call, stated declaratively:
  signature and annotations from the field list; TypeError exactly for malformed calls; otherwise every
  participating field holds converter(argument | default | fresh factory value), the others are unset; the
  converter of a field runs exactly once per call, its factory exactly once iff no value was supplied.
-/
import AttrsModel.Model.Init

namespace Attrs.C01
open Attrs.Init

/-- the raw (pre-converter) value of a participating field: the argument, else the declared default,
    else a fresh factory result (given the instance if the factory asked for it) -/
def rawOf (attrs : List Attr) (c : Call) (a : Attr) : Val :=
  let given := if a.init then passed (params attrs) c a.alias else none
  match given, a.dflt with
  | some v, _ => v
  | none, .value => dfltVal a
  | none, .factory ts => factoryVal a ts
  | none, .none => "?"        -- mandatory parameter: excluded by `callOk`

def expectedValue (attrs : List Attr) (c : Call) (a : Attr) : Option Val :=
  if participates a then some (convApply a (rawOf attrs c a)) else none

/-- K3: a frozen dict class believes a field is not slot-backed while some class along the MRO has a
    slot of that name: the value is written to `__dict__` and the empty slot shadows it. -/
def misplaced (r : RunIn) (a : Attr) : Bool :=
  participates a && a.isSlot && tech r.cfg (r.belief a.name) a == .instDict

def known (c : Case) : List String :=
  if c.eff.attrs.any (misplaced c.eff) then ["K3"] else []

def distinct (l : List String) : Bool := decide l.Nodup

def wf (c : Case) : Bool :=
  let r := c.eff
  r.fault.isNone &&
  distinct (r.attrs.map (·.name)) &&
  r.attrs.all (·.name != Generated.hashCacheField) &&
  distinct ((r.attrs.filter (·.init)).map (·.alias)) &&
  distinct (c.call.kw.map (·.1)) &&
  c.call.pos.all (· != NOTHING) && c.call.kw.all (·.2 != NOTHING) &&
  -- a frozen class cannot have hooks (rejected at definition time, C15)
  (!r.cfg.frozen || r.attrs.all (·.onSet == .unset))

/-! ### which callbacks run (once through the converter; a fresh factory result per call)

  The statement says the stored value has passed ONCE through the field's converter and that a factory
  default is a FRESH result of the factory: per constructor call the converter of every participating field
  that has one is called exactly once, the factory exactly once when (and only when) no value was supplied —
  never at class-definition time, never shared between instances.  The symbolic value alone cannot show this
  (a value converted once and for all while the class is built prints the same), so C01 also observes the
  *identities* of the converter / factory invocations of each call, in order; their arguments (and the
  pre/validator/post callbacks) belong to C02 and are blanked / dropped. -/

/-- converter and factory invocations (the callbacks the statement of C01 talks about) -/
def isCall (e : Event) : Bool := e.id.kind == "conv" || e.id.kind == "factory"

/-- the identity of an invocation only: which callback, of which field -/
def blankArgs (e : Event) : Event := { e with args := [] }

/-- the part of a callback trace C01 observes -/
def callsOf (t : List Event) : List Event := (t.filter isCall).map blankArgs

def callEv (kind field : String) : Event := { id := { kind := kind, field := field, idx := 0 }, args := [] }

/-- a value was supplied for the field by the caller (never for `init=False` fields) -/
def valueSupplied (attrs : List Attr) (c : Call) (a : Attr) : Bool :=
  a.init && (passed (params attrs) c a.alias).isSome

def hasFactory (a : Attr) : Bool :=
  match a.dflt with
  | .factory _ => true
  | _ => false

/-- the field's value is a fresh result of its factory: nothing was supplied and the default is a factory -/
def fromFactory (attrs : List Attr) (c : Call) (a : Attr) : Bool :=
  hasFactory a && !valueSupplied attrs c a

/-- the converter invocations of one field: its converter once (`idx 0`); for a chain `converter=[c0, c1, …]`
    every member once, left to right (`idx` = position) -/
def convCalls (a : Attr) : List Event :=
  (List.range (convCount a)).map (fun i => { id := { kind := "conv", field := a.name, idx := i }, args := [] })

/-- the converter / factory invocations of one well-formed call, from the statement: for every participating
    field in field order, its factory iff the value comes from the factory, then its converter iff it has
    one (every member of a converter chain, in order) — each exactly once. -/
def expectedCalls (attrs : List Attr) (c : Call) : List Event :=
  (attrs.filter participates).flatMap (fun a =>
    (if fromFactory attrs c a then [callEv "factory" a.name] else []) ++ convCalls a)

def spec (c : Case) (o : Obs) : Bool :=
  let r := c.eff
  o.sig == sigOf r.attrs &&
  o.annotations == annotationsOf r.attrs &&
  (if callOk (params r.attrs) c.call then
     o.exc == none &&
     o.values == r.attrs.map (fun a => (a.name, expectedValue r.attrs c.call a)) &&
     -- once through the converter, a fresh factory result: exactly these invocations, in this order
     o.trace == expectedCalls r.attrs c.call
   else o.exc == some .typeError && o.trace == [])

/-- what C01 keeps of a full observation of the initializer: signature, annotations, exception kind, field
    values and the identities of the converter / factory invocations; the other callbacks, all callback
    arguments, `args` and the hash cache belong to C02 / C04 and are blanked. -/
def view (o : Obs) : Obs := { o with trace := callsOf o.trace, excArgs := none, cache := none }

def model (c : Case) : Obs :=
  { runInit c with trace := ((runInit c).trace.filter isCall).map blankArgs, excArgs := none, cache := none }

def check : Check Case Obs := { model := model, spec := spec, wf := wf, known := known }

end Attrs.C01
