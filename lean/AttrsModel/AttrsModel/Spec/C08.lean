/-
  C08 — what the property demands, stated on observations, without running the model of the build:

  * struct: every class attribute that is not a field, `__dict__`, `__weakref__`, `__slots__` or a cached
    property is the identical object in the new class; every own field has exactly one slot along the MRO;
    instances have a `__dict__` iff a base contributes one, are weak-referenceable iff `weakref_slot` is on or
    a base provides it, reject unknown attributes with AttributeError; functions, classmethods, staticmethods
    and properties (getter, setter, deleter), cached properties and `__getattr__` that use `__class__` /
    `super()` see the new class; closure cells holding anything else are untouched; cached properties are
    computed once per instance; `__attrs_init_subclass__` runs once with the new class; the inherited-hook
    reset agrees with what the dict build decides; CPython's class creation kept type/name/qualname/module/
    doc/bases (observed).
  * isub: along a chain of dict and slotted builds every attrs-built class below a definition is announced
    exactly once, after construction, with the class finally bound.
  * meta: see Spec/C08Meta.lean (the two builds of one specification agree).
-/
import AttrsModel.Model.C08
import AttrsModel.Spec.C08Meta

namespace Attrs.C08
open Lean

def distinct (l : List String) : Bool := decide l.Nodup

def lookupS {α : Type} (k : String) : List (String × α) → Option α
  | [] => none
  | (k', v) :: rest => if k' = k then some v else lookupS k rest

def lookupN {α : Type} (k : Nat) : List (Nat × α) → Option α
  | [] => none
  | (k', v) :: rest => if k' = k then some v else lookupN k rest

/-! ## struct -/

/-- names the builder itself writes into the class dict: a body must not pre-define them -/
def reservedKeys : List String :=
  ["__attrs_own_setattr__", "__qualname__", "__delattr__", Generated.hashCacheField]

/-- names with a meaning for the build that cannot be field names -/
def specialNames : List String :=
  ["__dict__", "__weakref__", "__slots__", "__getattr__", "__setattr__", "__delattr__", "__qualname__",
   "__attrs_own_setattr__", "__attrs_init_subclass__", Generated.hashCacheField]

def itemFns : Item → List Fn
  | .fn f | .cm f | .sm f | .cprop f | .opaque f => [f]
  | .prop g s d => g.toList ++ s.toList ++ d.toList
  | .plain => []

def allFns (c : Case) : List Fn := c.body.flatMap (fun kv => itemFns kv.2)

def fnOk (c : Case) (f : Fn) : Bool :=
  f.cells.all (fun i => (lookupN i c.cells).isSome) &&
  (!f.uses || (match f.cells.head? with | some i => lookupN i c.cells == some .old | none => false))

/-- body keys that survive the field-name filter -/
def notField (c : Case) (k : String) : Bool := !(attrNames c).contains k

/-- the cached properties of the body (those not shadowed by a field name) -/
def bodyCprops (c : Case) : List String :=
  c.body.filterMap (fun kv => match kv.2 with | .cprop _ => if notField c kv.1 then some kv.1 else none | _ => none)

def isCpropItem : Item → Bool
  | .cprop _ => true
  | _ => false

/-- field names: distinct, own and inherited disjoint (as `_transform_attrs` delivers them), none of them a
    name with a meaning for the build -/
def wfNames (c : Case) : Bool :=
  distinct c.own && distinct c.inherited && c.own.all (fun n => !c.inherited.contains n) &&
  (attrNames c).all (fun n => !specialNames.contains n)

/-- the body: distinct keys; nothing the builder writes itself is pre-defined; `__dict__`, `__weakref__`,
    `__slots__` entries are what CPython put there; the special methods are not cached properties; the flags
    `customSetattr` / `bodySlots` say what the body has -/
def wfBody (c : Case) : Bool :=
  distinct (c.body.map (·.1)) &&
  c.body.all (fun kv => !reservedKeys.contains kv.1) &&
  c.body.all (fun kv => !(["__dict__", "__weakref__", "__slots__"].contains kv.1) || kv.2 == .plain) &&
  c.body.all (fun kv => !(["__getattr__", "__setattr__", "__attrs_init_subclass__"].contains kv.1) || !isCpropItem kv.2) &&
  (c.body.any (·.1 == "__setattr__") == c.customSetattr) &&
  (!c.customSetattr || c.setattrMode == .none) &&
  (c.body.any (·.1 == "__slots__") == c.bodySlots.isSome)

/-- the cell store: distinct ids, nothing holds the class that does not exist yet, every function's cells
    exist and a function that uses the class does so through its first cell -/
def wfCells (c : Case) : Bool :=
  decide (c.cells.map (·.1)).Nodup && c.cells.all (·.2 != .new) && (allFns c).all (fnOk c)

/-- layout facts are consistent with the declared slots; no two classes of the MRO declare a slot for the
    same own field; the history reads cached properties only (and, with a user `__getattr__` in the body,
    only those it does not shadow) -/
def wfLayout (c : Case) : Bool :=
  c.mro.all (fun b => (!baseHasSlot "__weakref__" b || b.hasWeakref) && (!baseHasSlot "__dict__" b || b.hasDict)) &&
  c.own.all (fun f => (c.mro.filter (baseHasSlot f)).length ≤ 1) &&
  c.accesses.all (fun a => (bodyCprops c).contains a.name ||
    c.mro.any (fun b => b.cprops.contains a.name && (b.slots.isNone || !c.body.any (·.1 == "__getattr__"))))

def wf (c : Case) : Bool := wfNames c && wfBody c && wfCells c && wfLayout c

/-- keys the property promises to carry over unchanged -/
def protectedKey (c : Case) (k : String) (it : Item) : Bool :=
  notField c k && !(["__dict__", "__weakref__", "__slots__"].contains k) &&
  (match it with | .cprop _ => false | _ => true) &&
  !(k == "__getattr__" && !(bodyCprops c).isEmpty)

/-- the function parts the property says must see the new class: everything but functions hidden in
    objects attrs cannot look into -/
def demandedParts (k : String) (it : Item) : List (Label × Fn) :=
  match it with
  | .opaque _ => []
  | _ => itemParts k it

def demandedLabels (c : Case) : List Label :=
  c.body.flatMap (fun kv =>
    if notField c kv.1 && kv.1 != "__dict__" && kv.1 != "__weakref__" then
      ((demandedParts kv.1 kv.2).filter (·.2.uses)).map (·.1)
    else [])

def isOpaqueKey (c : Case) (k : String) : Bool :=
  c.body.any (fun kv => kv.1 == k && (match kv.2 with | .opaque _ => true | _ => false))

def spec (c : Case) (o : Obs) : Bool :=
  -- same methods and class attributes
  c.body.all (fun kv => !protectedKey c kv.1 kv.2 || lookupS kv.1 o.keys == some .same) &&
  -- each own field in exactly one slot
  c.own.all (fun f => lookupS f o.slotCount == some 1) &&
  -- no `__dict__` unless a base contributes one; weak-referenceable iff asked for or inherited
  o.hasDict == c.mro.any (·.hasDict) &&
  o.weakrefable == (c.weakrefSlot || c.mro.any (·.hasWeakref)) &&
  -- unknown attributes
  o.getUnknown == .attributeError && (o.hasDict || o.setUnknown == .attributeError) && o.lookupDiff == [] &&
  -- `__class__` / `super()` users see the new class; foreign cells untouched
  (demandedLabels c).all (fun l => o.calls.any (·.1 == l)) &&
  o.calls.all (fun lv => lv.2 == .new || isOpaqueKey c lv.1.1) &&
  c.cells.all (fun iv => iv.2 == .old || lookupN iv.1 o.cells == some iv.2) &&
  -- cached properties: once per instance, every read returns that instance's value
  decide o.cachedComputes.Nodup &&
  c.accesses.all (fun a => o.cachedComputes.contains a) &&
  o.cachedComputes.all (fun a => c.accesses.contains a) &&
  o.cachedReturns == c.accesses.map (fun a => token a 1) &&
  -- `__attrs_init_subclass__`: once, with the final class, only when inherited
  o.initSubclass == (if c.mro.any (·.initSubclass) && !c.body.any (·.1 == "__attrs_init_subclass__")
                     then [.new] else []) &&
  -- hooks agree with the dict build
  o.setattrReset == dictReset c && o.assignAgree &&
  -- the hook runs after construction: the class it receives is final, and every function it invokes on it
  -- already sees that class
  o.hookView == [] &&
  o.hookCalls.all (fun lv => lv.2 == .new || isOpaqueKey c lv.1.1) &&
  (o.initSubclass.isEmpty || (demandedLabels c).all (fun l => o.hookCalls.any (·.1 == l))) &&
  o.callbackDiff == [] &&
  o.runtimeDiff == []

/-- K6: the slotted build looks at the direct bases' own flag, the dict build at the flag resolved along the
    whole MRO ("slotted confused") -/
def resetDiffers (c : Case) : Bool := (model c).setattrReset != dictReset c

def known (c : Case) : List String :=
  if resetDiffers c then ["K6"] else []

def check : Check Case Obs := { model := model, spec := spec, wf := wf, known := known }

/-! ## isub -/

def isubWf (_ : ISubCase) : Bool := true

/-- levels that must be announced: attrs-built, no own definition, some level above defines the hook -/
def announced (chain : List Level) (k : Nat) : Bool :=
  match chain[k]? with
  | some l => l.attrs && !l.defines && (chain.take k).any (·.defines)
  | none => false

def definesAt (chain : List Level) (j : Nat) : Bool :=
  match chain[j]? with
  | some l => l.defines
  | none => false

/-- one call is right: it received the class finally bound for an existing level, and the definition that
    ran is the nearest one above that level -/
def isubCallOk (chain : List Level) (cl : ISubCall) : Bool :=
  cl.final && cl.probe && decide (cl.received < chain.length) && decide (cl.definer < cl.received) &&
  definesAt chain cl.definer &&
  ((chain.take cl.received).drop (cl.definer + 1)).all (fun l => !l.defines)

def isubSpec (c : ISubCase) (o : ISubObs) : Bool :=
  -- exactly the announced levels, each exactly once
  (List.range c.chain.length).all (fun k =>
    (o.calls.filter (·.received == k)).length == (if announced c.chain k then 1 else 0)) &&
  o.calls.all (isubCallOk c.chain)

def isubCheck : Check ISubCase ISubObs :=
  { model := isubModel, spec := isubSpec, wf := isubWf, known := fun _ => [] }

/-! ## dispatch -/

def handle (case obs : Json) : Except String Reply := do
  let kind ← case.getObjValAs? String "kind"
  match kind with
  | "struct" => runCheck check case obs
  | "isub" => runCheck isubCheck case obs
  | "meta" => runCheck metaCheck case obs
  | k => .error s!"C08: unknown case kind {k}"

end Attrs.C08

namespace Attrs.C08

/-! ## the three kinds under one roof (for `C08_model_meets_spec`) -/

inductive AnyCase where
  | ofStruct (c : Case)
  | ofISub (c : ISubCase)
  | ofMeta (c : MetaCase)

inductive AnyObs where
  | ofStruct (o : Obs)
  | ofISub (o : ISubObs)
  | ofMeta (o : MetaObs)

def AnyCase.model : AnyCase → AnyObs
  | .ofStruct c => .ofStruct (C08.model c)
  | .ofISub c => .ofISub (isubModel c)
  | .ofMeta c => .ofMeta (metaModel c)

def AnyCase.wf : AnyCase → Bool
  | .ofStruct c => C08.wf c
  | .ofISub c => isubWf c
  | .ofMeta c => metaWf c

def AnyCase.known : AnyCase → List String
  | .ofStruct c => C08.known c
  | .ofISub _ => []
  | .ofMeta c => metaKnown c

def AnyCase.spec : AnyCase → AnyObs → Bool
  | .ofStruct c, .ofStruct o => C08.spec c o
  | .ofISub c, .ofISub o => isubSpec c o
  | .ofMeta c, .ofMeta o => metaSpec c o
  | _, _ => false

end Attrs.C08
