/-
  C11 — the check's entry point.  Ordinary cases (a heap, a root, a thread scenario; `Spec/C11Base.lean`)
  go through `runCheck check` unchanged; cases with `"kind": "script"` (T3; `Spec/C11Script.lean`)
  compare the parsed source of the generated `__repr__` with the model generator's script.
-/
import AttrsModel.Spec.C11Base
import AttrsModel.Spec.C11Script

namespace Attrs.C11
open Lean

def handle (case obs : Json) : Except String Reply :=
  match case.getObjValAs? String "kind" with
  | .ok "script" => Script.handle case obs
  | _ => runCheck check case obs

end Attrs.C11
