/-
  C19 (b) — what the documentation of `to_bool` and `default_if_none` promises, written from the docstrings.
-/
import AttrsModel.Model.C19ToBool

namespace Attrs.C19.ToBool

/-- the documented tables (docstring of `to_bool`): True, "true"/"t", "yes"/"y", "on", "1", 1 — and the falsy twin -/
def docTrue : List Lit :=
  [.bool true, .str "true", .str "t", .str "yes", .str "y", .str "on", .str "1", .int 1]
def docFalse : List Lit :=
  [.bool false, .str "false", .str "f", .str "no", .str "n", .str "off", .str "0", .int 0]

def docTrueStrs : List String := ["true", "t", "yes", "y", "on", "1"]
def docFalseStrs : List String := ["false", "f", "no", "n", "off", "0"]

/-- exactly the documented spellings (strings case-insensitively), ValueError for everything else -/
def specRes : TbVal → TbRes
  | .bool b => if b then .T else .F
  | .int n => if n = 1 then .T else if n = 0 then .F else .valueError
  | .str s =>
    if docTrueStrs.contains (lowerS s) then .T
    else if docFalseStrs.contains (lowerS s) then .F
    else .valueError
  | .numEq _ => .valueError
  | .other => .valueError

def spec (c : Case) (o : Obs) : Bool := o.res == specRes c.v

def wf (_ : Case) : Bool := true

/-- K10: a non-bool, non-int, non-str object comparing equal to 0 or 1 is accepted (membership uses `==`) -/
def known (c : Case) : List String :=
  match c.v with
  | .numEq n => if n = 0 ∨ n = 1 then ["K10"] else []
  | _ => []

def check : Check Case Obs := { model := model, spec := spec, wf := wf, known := known }

end Attrs.C19.ToBool

namespace Attrs.C19.Din

/-- docstring of `default_if_none`: TypeError if neither or both of default / factory are passed; ValueError if a
    Factory with takes_self=True is passed; where both sentences apply either error is acceptable -/
def spec (c : Case) (o : Obs) : Bool :=
  if !c.hasDefault && !c.hasFactory then o.res == .typeError
  else if c.hasDefault && c.hasFactory then
    (if c.defaultIsFactory && c.takesSelf then o.res == .typeError || o.res == .valueError else o.res == .typeError)
  else if c.hasDefault && c.defaultIsFactory && c.takesSelf then o.res == .valueError
  else o.res == .ok

/-- the flags describing a Factory only mean something when a default that is a Factory is passed -/
def wf (c : Case) : Bool :=
  (c.defaultIsFactory → c.hasDefault) && (c.takesSelf → c.defaultIsFactory)

def known (_ : Case) : List String := []

def check : Check Case Obs := { model := model, spec := spec, wf := wf, known := known }

end Attrs.C19.Din
