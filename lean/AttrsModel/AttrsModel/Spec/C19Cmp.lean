/-
  C19 (d) — what the property says about `cmp_using` objects: they compare through the supplied functions, return
  NotImplemented on a type mismatch when the same type is required, and the operators that were not supplied are
  derived consistently (whenever the supplied functions come from one order, all six operators agree with it).
  Written over the observed results only; no total_ordering here.
-/
import AttrsModel.Model.C19Cmp

namespace Attrs.C19.Cmp

def Op.idx : Op → Nat
  | .eq => 0 | .ne => 1 | .lt => 2 | .le => 3 | .gt => 4 | .ge => 5

/-- the relation an operator denotes on integers -/
def Op.std : Op → Rel
  | .eq => .eq | .ne => .ne | .lt => .lt | .le => .le | .gt => .gt | .ge => .ge

def at' (l : List R) (op : Op) : R := l.getD op.idx .other
def atL (l : List (List String)) (op : Op) : List String := l.getD op.idx ["?"]

/-- the supplied functions are partial and the payload classes differ: calling one raises -/
def fnsRaise (c : Case) : Bool := c.partialFns && c.rhs != .same && c.rhs != .identical

/-- what calling the supplied function `r` on the two payloads gives -/
def expectedFn (c : Case) (r : Rel) : R := if fnsRaise c then .raised else r.eval c.a c.b

/-- the one call a supplied function must receive: `(self.value, other.value)`, in this order -/
def expectedCall (c : Case) (op : Op) : String :=
  op.name ++ "(" ++ toString c.a ++ "," ++ toString c.b ++ ")"

/-- every supplied function is the standard relation of its slot -/
def consistent (c : Case) : Bool :=
  Op.all.all (fun op => match slot c op with | some r => r == op.std | none => true)

/-- the payload types match, or no match is required -/
def comparable (c : Case) : Bool :=
  match c.rhs with
  | .same | .identical => true
  | .sub | .otherType => !c.requireSameType
  | .foreign => false

/-- the class has a method of its own for the operator (supplied, shared `__ne__`, or derived) -/
def defined (c : Case) : Op → Bool
  | .eq | .ne => c.eq.isSome
  | _ => 0 < numOrd c

def isBool : R → Bool
  | .T | .F => true
  | _ => false

def spec (c : Case) (o : Obs) : Bool :=
  if 0 < numOrd c && numOrd c < 4 && c.eq.isNone then
    -- "eq must be defined in order to complete ordering from lt, le, gt, ge"
    o.ctor == .valueError
  else
    o.ctor == .ok && o.name == c.className && o.direct.length == 6 && o.ops.length == 6 &&
    o.directCalls.length == 6 && o.opCalls.length == 6 &&
    (match c.rhs with
     | .foreign => true          -- the property is silent about operands that are not cmp_using objects
     | _ =>
       if comparable c then
         -- through the supplied functions: called exactly once, on (self.value, other.value); its result
         -- (or its exception) is the method's
         Op.all.all (fun op =>
           match slot c op with
           | some r =>
             at' o.direct op == expectedFn c r &&
             atL o.directCalls op == [expectedCall c op] &&
             (isBool (expectedFn c r) → at' o.ops op == expectedFn c r)
           | none => true) &&
         -- `!=` negates the supplied `==`
         (match c.eq with
          | some r => isBool (expectedFn c r) → at' o.direct .ne == (expectedFn c r).not
          | none => true) &&
         -- derived consistently: one order in, the same order out of all six operators
         ((consistent c && c.eq.isSome && 0 < numOrd c && !fnsRaise c) →
           Op.all.all (fun op =>
             at' o.direct op == op.std.eval c.a c.b && at' o.ops op == op.std.eval c.a c.b))
       else
         -- type mismatch with require_same_type: NotImplemented from every method the class has, hence
         -- `==` False, `!=` True and TypeError from the orderings
         Op.all.all (fun op => defined c op → at' o.direct op == .NI) &&
         -- … without ever calling a supplied function on the mismatched payloads
         Op.all.all (fun op => atL o.directCalls op == [] && atL o.opCalls op == []) &&
         at' o.ops .eq == .F && at' o.ops .ne == .T &&
         [Op.lt, Op.le, Op.gt, Op.ge].all (fun op => at' o.ops op == .typeError))

/-- the identical operand holds the left operand's value -/
def wf (c : Case) : Bool := c.rhs != .identical || c.a == c.b
def known (_ : Case) : List String := []

def check : Check Case Obs := { model := model, spec := spec, wf := wf, known := known }

end Attrs.C19.Cmp
