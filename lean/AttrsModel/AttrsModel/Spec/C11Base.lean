/-
  C11 — what the property demands, written without any bookkeeping state: a rendering is a pure
  function of the node and of the *path of ancestors* currently being rendered.  An attrs instance
  (or a CPython container) that is its own ancestor is rendered as `...` (`[...]`, …); everything
  else is `QualName(f=r, …)` over the repr-enabled fields in field order.  There is no set, no
  add/remove, no `finally` here: that the stateful code computes exactly this — after faults and
  under every interleaving — is `C11_model_meets_spec`.
-/
import AttrsModel.Model.C11

namespace Attrs.C11

/-! ### the declarative rendering -/

/-- the scopes after the last function scope (all of them if there is none) -/
def afterLastFn : List Scope → List Scope
  | [] => []
  | s :: rest => if rest.any (·.fn) then afterLastFn rest else if s.fn then rest else s :: rest

/-- `Outer.Inner.Name` -/
def dotted (scopes : List Scope) (name : String) : List Char :=
  (scopes.map fun s => s.name.toList ++ ['.']).flatten ++ name.toList

/-- the documented class-name part: the qualified name without anything up to the last
    `<locals>`; with `repr_ns`, `ns.Name` -/
def specName (c : Cls) : String :=
  match c.reprNs with
  | some ns => ns ++ "." ++ c.name
  | none => String.ofList (dotted (afterLastFn c.scopes) c.name)

/-- first non-`ok` wins, left to right -/
def collect : List (String × Out) → Except Out (List String)
  | [] => .ok []
  | (lbl, .ok s) :: rest =>
    (match collect rest with
     | .ok l => .ok ((lbl ++ s) :: l)
     | .error e => .error e)
  | (_, e) :: _ => .error e

def fmt (pre post : String) (parts : List (String × Out)) : Out :=
  match collect parts with
  | .ok l => .ok (pre ++ ", ".intercalate l ++ post)
  | .error e => e

/-- what the harness's instrumented callable does with the rendering of its argument -/
def showCall (armed : Bool) (tag : String) (rc : Bool) (fault : Fault) (inner : Out) : Out :=
  if armed && fault == .pre then .exc ("user:" ++ tag)
  else if rc then
    (match inner with
     | .ok s => if armed && fault == .post then .exc ("user:" ++ tag) else .ok (tag ++ "<" ++ s ++ ">")
     | e => e)
  else if armed && fault == .post then .exc ("user:" ++ tag)
  else .ok tag

/-- a tolerant callable sees `!` where rendering its value raised -/
def showWith (armed : Bool) (r : ReprArg) (inner : Out) : Out :=
  match r with
  | .on | .off => inner
  | .call tag rc fault tol => showCall armed tag rc fault (if tol then swallow inner else inner)

/-- one field of an instance: its value through `repr` or the callable; an unset `init=False`
    field shows `NOTHING`; an unset `init=True` field is an AttributeError -/
def specField (rec : Nat → Out) (armed : Bool) (vals : List (String × Nat)) (f : Field) : Out :=
  match vals.lookup f.name with
  | some i => showWith armed f.repr (rec i)
  | none => if f.init then .exc "attributeError" else showWith armed f.repr (.ok "NOTHING")

def enabled (f : Field) : Bool := f.repr != .off

/-- rendering of node `id` below the ancestors `anc`; `nm` is the class-name part -/
def specVal (nm : Cls → String) (h : Heap) (armed : Bool) : Nat → List Nat → Nat → Out
  | 0, _, _ => .oof
  | fuel + 1, anc, id =>
    match h.nodes[id]? with
    | none => .exc "dangling"
    | some (.atom s) => .ok s
    | some (.list items) =>
      if anc.contains id then .ok "[...]"
      else fmt "[" "]" (items.map fun i => ("", specVal nm h armed fuel (id :: anc) i))
    | some (.tuple items) =>
      if anc.contains id then .ok "(...)"
      else fmt "(" (if items.length = 1 then ",)" else ")")
        (items.map fun i => ("", specVal nm h armed fuel (id :: anc) i))
    | some (.dict items) =>
      if anc.contains id then .ok "{...}"
      else fmt "{" "}" (items.map fun kv => (kv.1 ++ ": ", specVal nm h armed fuel (id :: anc) kv.2))
    | some (.inst ci vals) =>
      match h.classes[ci]? with
      | none => .exc "dangling"
      | some c =>
        mapOk (ovrText c)
          (if anc.contains id then .ok "..."
           else fmt (nm c ++ "(") ")"
            ((c.fields.filter enabled).map fun f =>
              (f.name ++ "=", specField (specVal nm h armed fuel (id :: anc)) armed vals f)))

/-- the complete rendering of the root: no ancestors -/
def expected (c : Case) (armed : Bool) : Out :=
  specVal specName c.heap armed c.heap.fuel [] c.root

/-! ### well-formedness: object graphs that can exist -/

def identLike (s : String) : Bool := !s.toList.isEmpty && s.toList.all (fun ch => ch.isAlphanum || ch = '_')

def distinct (l : List String) : Bool := l.eraseDups.length == l.length

def Cls.wf (c : Cls) : Bool :=
  identLike c.name && c.scopes.all (fun s => identLike s.name) &&
  distinct (c.fields.map (·.name)) && c.fields.all (fun f => identLike f.name)

def isTuple (h : Heap) (i : Nat) : Bool :=
  match h.nodes[i]? with
  | some (.tuple _) => true
  | _ => false

def nodeWf (h : Heap) (id : Nat) : Node → Bool
  | .atom _ => true
  | .list items => items.all (· < h.nodes.length)
  -- a tuple is immutable: tuples inside it were built before it
  | .tuple items => items.all (fun i => i < h.nodes.length && (!isTuple h i || i < id))
  | .dict items => items.all (·.2 < h.nodes.length) && distinct (items.map (·.1))
  | .inst ci vals =>
    vals.all (·.2 < h.nodes.length) && distinct (vals.map (·.1)) &&
    (match h.classes[ci]? with
     | none => false
     | some c => vals.all (fun kv => c.fields.any (·.name == kv.1)))

def wf (c : Case) : Bool :=
  c.root < c.heap.nodes.length && c.heap.classes.all Cls.wf &&
  (List.range c.heap.nodes.length).all (fun i =>
    match c.heap.nodes[i]? with
    | some n => nodeWf c.heap i n
    | none => false)

def known (_ : Case) : List String := []

/-! ### the predicate on observations -/

def Out.isExc : Out → Bool
  | .exc _ => true
  | _ => false

/-- an observed result against the declarative one: strings exactly; where the declarative
    rendering is an exception raised by a field's callable the call must raise (the property does
    not name the exception); what an unset `init=True` attribute does is not the property's
    business (any result) -/
def accept (exp o : Out) : Bool :=
  match exp with
  | .ok s => o == .ok s
  | .exc k => if k == "attributeError" then o != .oof else o.isExc
  | .oof => false

def isInstRoot (c : Case) : Option Cls :=
  match c.heap.nodes[c.root]? with
  | some (.inst ci _) => c.heap.classes[ci]?
  | _ => none

/-- `str=True`: `str()` is `repr()`; nothing is demanded otherwise -/
def strOk (c : Case) (o : Out) : Bool :=
  match isInstRoot c with
  | some cl => !cl.str || accept (expected c false) o
  | none => true

def spec (c : Case) (o : Obs) : Bool :=
  -- format / cycles, also when a callable raises
  accept (expected c true) o.first &&
  -- no residue after returning or raising, so the next repr is complete
  o.res1 == [] && accept (expected c false) o.again && o.res2 == [] &&
  -- str=True: str() is repr()
  strOk c o.str && o.res3 == [] &&
  -- concurrent reprs of one instance are each complete
  o.threads.length == c.threads &&
  o.threads.all (fun t => accept (expected c false) t.out && t.residue == [])

def check : Check Case Obs := { model := model, spec := spec, wf := wf, known := known }



end Attrs.C11
