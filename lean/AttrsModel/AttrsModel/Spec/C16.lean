/-
  C16 — what the property demands of an observation, written over the observation alone:
  the target's fingerprint after the history equals its fingerprint when the definitions of the history are
  erased; no earlier class changed; no definition touched a container or a closure cell; the only changes to
  shared counting attrs and containers are the ones the *user's own* operations made.
-/
import AttrsModel.Model.C16

namespace Attrs.C16

def namesOf (fs : List FieldFacts) : List String := fs.map (·.name)

def nodup (l : List String) : Bool := l.eraseDups.length == l.length

/-- shared counting attrs come first in a body, in increasing order (they were created before the body ran) -/
def sharedPrefixOk (n : Nat) : Nat → List FieldFacts → Bool
  | _, [] => true
  | next, f :: r =>
    if f.src == .shared then f.ca ≥ next && f.ca < n && sharedPrefixOk n (f.ca + 1) r
    else r.all (fun g => g.src != .shared)

def fieldOk (f : FieldFacts) : Bool :=
  f.src != .plain || f.annotated

def bodyOk (nCas : Nat) (fs : List FieldFacts) : Bool :=
  nodup (namesOf fs) && fs.all fieldOk && sharedPrefixOk nCas 0 fs

/-- `attrs()`/`define()` themselves raise for `eq=False, order=True`: no decorator object exists then -/
def argsOk (a : Args) : Bool :=
  let r := resolve a
  !(r.eq == .f && (if r.order == .n then r.eq else r.order) == .t)

def mkArgsOk (a : Args) : Bool :=
  let r := resolve { a with api := .attrS }
  let eq' := if r.eq == .n then Tri.t else r.eq
  !(eq' == .f && (if r.order == .n then eq' else r.order) == .t)

def stepOk (c : Case) : Step → Bool
  | .defDeco i f => i < c.decos.length && bodyOk c.cas.length f.fields
  | .defMk m => mkArgsOk m.args
  | .caValidator j | .caDefault j => j < c.cas.length
  | _ => true

def wf (c : Case) : Bool :=
  c.decos.all argsOk &&
  bodyOk 0 c.these && c.these.all (fun f => f.src == .inline) &&
  bodyOk 0 c.mkFields && c.mkFields.all (fun f => f.src == .inline) &&
  c.valLen ≥ 1 && c.convLen ≥ 1 && c.hookLen ≥ 1 &&
  c.steps.all (stepOk c) && stepOk c c.target && c.target.isDef

/-- number of `@ca_j.validator` applications among the user's operations -/
def countValidator (j : Nat) (ops : List Step) : Nat := (ops.filter (· == .caValidator j)).length

/-- state of shared counting attr `j` after the user's operations: validators appended, default set at most once -/
def caExpected (ops : List Step) (j : Nat) (s : CaState) : CaState :=
  { s with nValid := s.nValid + countValidator j ops, hasDefault := s.hasDefault || ops.contains (.caDefault j) }

def casExpected (cas : List CaState) (ops : List Step) : List CaState :=
  cas.zipIdx.map (fun p => caExpected ops p.2 p.1)

def countOp (s : Step) (ops : List Step) : Nat := (ops.filter (· == s)).length

/-- what the environment operations alone leave: the last one decides, validators run by default -/
def envExpected (steps : List Step) : Bool :=
  match (steps.filter (·.isSwitch)).getLast? with
  | some .validatorsOff => false
  | _ => true

def spec (c : Case) (o : Obs) : Bool :=
  -- a definition neither reads nor writes the process environment: `alone` is defined with the switch in its
  -- default state, `after` under whatever the history left, and only the history's own switch operations move it
  o.runAfter == envExpected c.steps &&
  -- history independence
  o.after == o.alone && o.deepSame &&
  -- no effect on any other class definition; the outcome depends on body, bases and arguments only: every
  -- user callable a class holds or runs was written in its own body, in a base, or passed as an argument
  o.earlierSame && o.foreignFree &&
  -- arguments neither rebound nor mutated by a definition
  o.cellsSame && o.containersSame &&
  o.cellsAfter == c.decos.map initCells &&
  o.mkHooksAfter == c.mkHooks &&
  o.casAfter == casExpected c.cas c.steps &&
  o.sizesAfter == [c.valLen + countOp .valAppend c.steps, c.convLen + countOp .convAppend c.steps,
                   c.hookLen + countOp .hookAppend c.steps, c.metaSize + countOp .metaSet c.steps]

def known (_ : Case) : List String := []

def check : Check Case Obs := { model := model, spec := spec, wf := wf, known := known }

def handle := runCheck check

end Attrs.C16
