/-
  C05 — what the property demands of an observation, stated without reference to the class-building logic:
  an instance of a class that is declared frozen anywhere in its ancestry is constructed with the values C01
  prescribes; after that every set / delete / augmented assignment raises FrozenInstanceError and the *full*
  state snapshot is unchanged (the only exceptions: the documented bookkeeping attributes of BaseException
  instances); hashing (with cache), copying, unpickling and evolving still work and do not disturb the
  original; exception instances can be raised, chained, given a traceback and notes.
  Every step is judged against the previous *observed* snapshot.
-/
import AttrsModel.Model.C05
import AttrsModel.Spec.C01

namespace Attrs.C05
open Attrs.Init

/-- the documented exemptions (docs/how-does-it-work.md, changelog 20.1 / 22.2 / 23.x): what `raise`,
    `raise … from`, `contextlib` and `add_note` need to write on an exception instance -/
def documentedSet : List String := ["__cause__", "__context__", "__traceback__", "__suppress_context__", "__notes__"]
def documentedDel : List String := ["__notes__"]

/-- frozen directly, via `attrs.frozen`, or via any ancestor -/
def declFrozen (c : Case) : Bool := c.classes.any (fun s => s.attrs && s.frozenArg)

/-- a class specification that mentions hooks or a custom `__setattr__`: attrs may refuse to define it
    (which combinations are refused is C15's business) -/
def hasHookStuff (s : ClassSpec) : Bool :=
  s.attrs && (hookish s.clsOnSet || s.fields.any (·.onSet != .unset) || s.userSet)

def rejectable (c : Case) : Bool := c.classes.any hasHookStuff

def eraseCache (s : Snap) : Snap :=
  { s with dict := s.dict.filter (·.1 != cacheName), slots := s.slots.filter (·.1 != cacheName) }

def readable (c : Case) (s : Snap) (n : String) : Bool := (readSnap c s n).isSome

/-- what one operation must have done, given the snapshot before it -/
def stepOk (c : Case) (prev : Snap) (op : Op) (o : StepObs) : Bool :=
  match op with
  | .set n v =>
    if c.excRoot && documentedSet.contains n then
      o.exc == none && o.snap == { prev with ex := bookSet prev.ex n v }
    else o.exc == some .frozenInstance && o.snap == prev
  | .del n =>
    if c.excRoot && documentedDel.contains n then
      if prev.ex.notes.isSome then o.exc == none && o.snap == { prev with ex := { prev.ex with notes := none } }
      else o.exc == some .attributeError && o.snap == prev
    else o.exc == some .frozenInstance && o.snap == prev
  | .aug n _ =>
    -- the read may fail (AttributeError) when the attribute is unset; the write never succeeds
    o.snap == prev &&
    (if readable c prev n then o.exc == some .frozenInstance
     else o.exc == some .attributeError || o.exc == some .frozenInstance)
  | .hash =>
    -- works whenever the hashed fields (and the cache the initializer created) are there; only the cache moves
    eraseCache o.snap == eraseCache prev &&
    (match c.hashNames with
     | none => o.exc == none
     | some ns =>
       if ns.all (readable c prev) && (!c.init.run.cfg.cacheHash || readable c prev cacheName) then
         o.exc == none && o.flags.contains "stable"
       else true)
  | .copy | .deepcopy | .pickle _ =>
    o.snap == prev &&
    (if (fieldVals c prev).all (·.2.isSome) then
       o.exc == none && o.values == some (fieldVals c prev) && o.flags.contains "fresh" && o.flags.contains "frozen" &&
       -- and the copy hashes (its own hash cache was carried over or re-created)
       (!hashReady c prev || (o.flags.contains "reshash" && o.flags.contains "twin"))
     else true)
  | .evolve _ =>
    -- the values of the result are C12's business; here: frozenness never gets in the way, the original is
    -- untouched and the result is again a frozen instance
    o.snap == prev && o.exc != some .frozenInstance &&
    (o.exc != none ||
      (o.flags.contains "fresh" && o.flags.contains "frozen" &&
       -- and the result hashes like a freshly built instance with its field values (no hash code of the
       -- original travels along), whenever its hashed fields are set
       (match o.values with
        | some vals => !evolveReady c vals || (o.flags.contains "reshash" && o.flags.contains "twin")
        | none => false)))
  | .raise_ =>
    o.exc == none && o.flags.contains "caught" && o.snap == { prev with ex := { prev.ex with tb := true } }
  | .raiseFrom =>
    o.exc == none && o.flags.contains "caught" &&
    o.snap == { prev with ex := { prev.ex with tb := true, cause := some "E1", suppress := true } }
  | .chain =>
    o.exc == none && o.flags.contains "caught" &&
    o.snap == { prev with ex := { prev.ex with tb := true, context := some "E2" } }
  | .withTb b =>
    o.exc == none && o.flags.contains "self" && o.snap == { prev with ex := { prev.ex with tb := b } }
  | .addNote v =>
    o.exc == none && o.snap == { prev with ex := { prev.ex with notes := some (prev.ex.notes.getD [] ++ [v]) } }

def stepsOk (c : Case) : Snap → List Op → List StepObs → Bool
  | _, [], [] => true
  | prev, op :: ops, o :: os => stepOk c prev op o && stepsOk c o.snap ops os
  | _, _, _ => false

/-- "still construct": every field reads converter(argument | default | factory value) (C01's expectation),
    and a hash-caching class has its cache where `__hash__` looks for it -/
def startOk (c : Case) (s0 : Snap) : Bool :=
  c.init.run.attrs.all (fun a => readSnap c s0 a.name == C01.expectedValue c.init.run.attrs c.init.call a) &&
  (!c.init.run.cfg.cacheHash || readSnap c s0 cacheName == some "None")

def spec (c : Case) (o : Obs) : Bool :=
  match o.defErr with
  | some _ => rejectable c
  | none =>
    o.ctor == none &&
    (match o.start with
     | none => false
     | some s0 => startOk c s0 && stepsOk c s0 c.ops o.steps)

/-! ### preconditions -/

/-- the MRO data is CPython-consistent at one class: if `cls.__setattr__` (without an own definition) resolves
    to the frozen one, so does the `__setattr__` of some direct base (C3 keeps every base's MRO as a
    subsequence) -/
def consistentAt (acc : List Node) (s : ClassSpec) : Bool :=
  !(resolveSet none (pick acc s.mro) == .frozen) || (pick acc s.bases).any (·.rset == .frozen)

def consistentFrom (acc : List Node) : List ClassSpec → Bool
  | [] => true
  | s :: rest =>
    consistentAt acc s &&
    (match defineClass acc s with
     | .error _ => true
     | .ok n => consistentFrom (n :: acc) rest)

def opWf (c : Case) : Op → Bool
  | .aug n _ => !bookNames.contains n && n != cacheName
  | .copy | .deepcopy => c.gs != .other && !c.excRoot
  | .pickle p => c.gs != .other && !c.excRoot && p ≤ 5 && (c.gs != .optOut || 2 ≤ p)
  | .raise_ | .raiseFrom | .chain | .withTb _ | .addNote _ => c.excRoot
  | _ => true

def layoutWf (c : Case) : Bool :=
  let r := c.init.run
  r.attrs.all (fun a => a.isSlot == c.slotNames.contains a.name && c.names.contains a.name) &&
  c.names.contains cacheName &&
  r.cacheIsSlot == c.slotNames.contains cacheName &&
  -- whatever is not a slot lives in the instance dict
  (c.hasDict || r.attrs.all (·.isSlot)) &&
  (!r.cfg.cacheHash || c.hasDict || r.cacheIsSlot) &&
  r.cfg.isExc == (r.cfg.isExc && c.excRoot)

def wf (c : Case) : Bool :=
  declFrozen c && consistentFrom [] c.classes && c.ops.all (opWf c) &&
  (match buildFrom [] c.classes 0 with
   | .error _ => true
   | .ok nodes =>
     match leafOf c nodes with
     | none => false
     | some lf =>
       C01.wf (effInit c lf.frozen) && callOk (params c.init.run.attrs) c.init.call && layoutWf c &&
       -- the state protocol is the one the class logic predicts (never read off the real class)
       c.gs == predictedGs c nodes)

/-! ### listed known findings -/

/-- K05a: the first class along the leaf's MRO that defines `__setattr__` (or `__delattr__`) is not the
    frozen one although a class of the MRO is declared frozen — a custom `__setattr__`/`__delattr__` in a
    subclass body, or a mixin that defines one listed before the frozen base. -/
def notFirstDefiner (c : Case) : Bool :=
  match buildFrom [] c.classes 0 with
  | .ok (l :: _) => l.rset != .frozen || l.rdel != .frozen
  | _ => false

/-- K2 (DESIGN §6): frozen dict hash-caching class below a slotted hash-caching class -/
def k2 (c : Case) : Bool :=
  match buildFrom [] c.classes 0 with
  | .ok nodes => match leafOf c nodes with
    | some lf => cacheMisplaced c lf.frozen
    | none => false
  | _ => false

/-- K3 (DESIGN §6), through the predicate of C01 on the initializer the leaf resolves -/
def k3 (c : Case) : Bool :=
  match buildFrom [] c.classes 0 with
  | .ok nodes => match leafOf c nodes with
    | some lf => (effInit c lf.frozen).eff.attrs.any (C01.misplaced (effInit c lf.frozen).eff)
    | none => false
  | _ => false

/-- K11 (DESIGN §6): slots without any `__getstate__` (explicit `getstate_setstate=False`): CPython restores
    the slots of a copy with `setattr`, which a frozen class refuses -/
def k11 (c : Case) : Bool := c.gs == .optOut && c.ops.any isCopyOp

def known (c : Case) : List String :=
  (if notFirstDefiner c then ["K05a"] else []) ++
  (if k3 c then ["K3"] else []) ++
  (if k2 c then ["K2"] else []) ++
  (if k11 c then ["K11"] else [])

def check : Check Case Obs := { model := model, spec := spec, wf := wf, known := known }

def handle := runCheck check

end Attrs.C05
