/-
  C18 — what the property demands, read off the statement clause by clause, over the expression *as
  written* (no flattening, no built form):

    instance_of iff isinstance · in_ iff membership (TypeError counts as absent) · lt/le/ge/gt iff the
    operator · min_len/max_len iff the length bound · matches_re iff the chosen re function matches ·
    is_callable iff callable · optional(v) iff None or v · and_ iff all, the first failure propagating ·
    or_ iff any · not_ iff the wrapped validator raises one of the listed types (others propagate) ·
    deep_iterable / deep_mapping iff the container validator and every member / key and value validator
    accept · returns None, never alters the value · equal parameters ⇒ equal (and hash-equal) validators.

  `sat` is the acceptance predicate (quantifiers over sub-validators and members), `excOf` the class of
  the exception owed to a value that is not accepted.
-/
import AttrsModel.Model.C18

namespace Attrs.C18

/-- documented meaning of `func`: `None` means `re.fullmatch` -/
def docFunc : ReFuncArg → Nat
  | .dflt => 0
  | .named s => if s == "search" then 1 else if s == "match" then 2 else 0

/-- documented valid values of `func` -/
def docFuncValid : ReFuncArg → Bool
  | .dflt => true
  | .named s => s == "fullmatch" || s == "search" || s == "match"

/-- "longer than *length*" / "shorter than *length*" does not hold -/
def lenOk (o : Oracle) (isMax : Bool) (b : Bound) (n : Nat) : PrimRes :=
  match b with
  | .int m => if isMax then (if (n : Int) > m then .f else .t) else (if (n : Int) < m then .f else .t)
  | .opaque id => o.lenCmp isMax id n

def lenSat (o : Oracle) (isMax : Bool) (b : Bound) (x : Nat) : Bool :=
  match o.len x with
  | .ok n => lenOk o isMax b n == .t
  | .exc _ => false

def lenExc (o : Oracle) (isMax : Bool) (b : Bound) (x : Nat) : ExcKind :=
  match o.len x with
  | .ok n => (match lenOk o isMax b n with | .exc k => k | _ => .valueError)
  | .exc k => k

/-- exception of a failed primitive: what the primitive raised, else the validator's documented class -/
def primExc (p : PrimRes) (documented : ExcKind) : ExcKind :=
  match p with
  | .exc k => k
  | _ => documented

/-- first element of a list that has an error -/
def firstErr {α : Type} (f : α → Option ExcKind) : List α → Option ExcKind
  | [] => none
  | y :: ys => match f y with | some k => some k | none => firstErr f ys

mutual
/-- the value is accepted -/
def sat (o : Oracle) : V → Nat → Bool
  | .instOf t, x => o.isinst t x == .t
  | .matchesRe r fl fn, x => o.rematch r fl (docFunc fn) x == .t
  | .optional v, x => o.isNone x || sat o v x
  | .optionalSeq _ vs, x => o.isNone x || satAll o vs x
  | .in_ p, x => o.member p x == .t
  | .isCallable, x => o.callable x
  | .deepIter m it, x =>
      (it.isNoneV || sat o it x) && (o.iter x).stop.isNone &&
      (o.iter x).items.all (fun i => sat o m i.key)
  | .deepIterSeq _ ms it, x =>
      (it.isNoneV || sat o it x) && (o.iter x).stop.isNone &&
      (o.iter x).items.all (fun i => satAll o ms i.key)
  | .deepMap kv vv mv, x =>
      (mv.isNoneV || sat o mv x) && (o.iter x).stop.isNone &&
      (o.iter x).items.all (fun i =>
        sat o kv i.key && (match i.get with | .ok y => sat o vv y | _ => false))
  | .num op b, x => o.cmp op b x == .t
  | .maxLen b, x => lenSat o true b x
  | .minLen b, x => lenSat o false b x
  | .not_ v _ e, x => !sat o v x && captures e (excOf o v x)
  | .or_ vs, x => satAny o vs x
  | .and_ vs, x => satAll o vs x
  | .andRaw _ vs, x => satAll o vs x
  | .probe p _, x => (match o.probe p x with | .exc _ => false | _ => true)
  | .junk, _ => false
  | .noneV, _ => false
/-- and_: all -/
def satAll (o : Oracle) : List V → Nat → Bool
  | [], _ => true
  | v :: vs, x => sat o v x && satAll o vs x
/-- or_: any — reached only while the earlier ones fail with an `Exception` -/
def satAny (o : Oracle) : List V → Nat → Bool
  | [], _ => false
  | v :: vs, x => sat o v x || (isSub (excOf o v x) .exception && satAny o vs x)
/-- class of the exception raised for a value that is not accepted (meaningless otherwise) -/
def excOf (o : Oracle) : V → Nat → ExcKind
  | .instOf t, x => primExc (o.isinst t x) .typeError
  | .matchesRe r fl fn, x => primExc (o.rematch r fl (docFunc fn) x) .valueError
  | .optional v, x => excOf o v x
  | .optionalSeq _ vs, x => excAll o vs x
  | .in_ p, x =>
      (match o.member p x with
       | .exc k => if isSub k .typeError then .valueError else k    -- TypeError counts as absent
       | _ => .valueError)
  | .isCallable, _ => .notCallable
  | .deepIter m it, x =>
      if !(it.isNoneV || sat o it x) then excOf o it x
      else match firstErr (fun i => if sat o m i.key then none else some (excOf o m i.key)) (o.iter x).items with
        | some k => k
        | none => (match (o.iter x).stop with | some k => k | none => .other)
  | .deepIterSeq _ ms it, x =>
      if !(it.isNoneV || sat o it x) then excOf o it x
      else match firstErr (fun i => if satAll o ms i.key then none else some (excAll o ms i.key)) (o.iter x).items with
        | some k => k
        | none => (match (o.iter x).stop with | some k => k | none => .other)
  | .deepMap kv vv mv, x =>
      if !(mv.isNoneV || sat o mv x) then excOf o mv x
      else match firstErr (fun i =>
          if !sat o kv i.key then some (excOf o kv i.key)
          else match i.get with
            | .ok y => if sat o vv y then none else some (excOf o vv y)
            | .exc k => some k
            | .na => some .other) (o.iter x).items with
        | some k => k
        | none => (match (o.iter x).stop with | some k => k | none => .other)
  | .num op b, x => primExc (o.cmp op b x) .valueError
  | .maxLen b, x => lenExc o true b x
  | .minLen b, x => lenExc o false b x
  | .not_ v _ _, x => if sat o v x then .valueError else excOf o v x     -- others propagate
  | .or_ vs, x => excAny o vs x
  | .and_ vs, x => excAll o vs x
  | .andRaw _ vs, x => excAll o vs x
  | .probe p _, x => (match o.probe p x with | .exc k => k | _ => .other)
  | .junk, _ => .typeError
  | .noneV, _ => .typeError
/-- and_: the first failure propagates -/
def excAll (o : Oracle) : List V → Nat → ExcKind
  | [], _ => .other
  | v :: vs, x => if sat o v x then excAll o vs x else excOf o v x
/-- or_: ValueError when none accepts; something that is no `Exception` passes through -/
def excAny (o : Oracle) : List V → Nat → ExcKind
  | [], _ => .valueError
  | v :: vs, x => if isSub (excOf o v x) .exception then excAny o vs x else excOf o v x
end

/-! ### the documented argument domain of the constructors -/

def reArgsOk (bo : BuildOracle) (r fl : Nat) (fn : ReFuncArg) : Bool :=
  docFuncValid fn && (if bo.isPattern r then fl == 0 else bo.compile r fl == .t)

mutual
/-- every constructor call in the expression is within its documented domain: a valid `func`, a regex
    that compiles (flags only with a string), validators where validators are required, `exc_types` all
    subclasses of `Exception` -/
def validArgs (bo : BuildOracle) : V → Bool
  | .matchesRe r fl fn => reArgsOk bo r fl fn
  | .optional v => validArgs bo v
  | .optionalSeq _ vs => validArgsL bo vs
  | .deepIter m it => validArgs bo m && validArgs bo it && m.callable && (it.isNoneV || it.callable)
  | .deepIterSeq _ ms it => validArgsL bo ms && validArgs bo it && (it.isNoneV || it.callable)
  | .deepMap k v m =>
      validArgs bo k && validArgs bo v && validArgs bo m && k.callable && v.callable &&
      (m.isNoneV || m.callable)
  | .not_ v _ e => validArgs bo v && e.classes.all ExcClass.valid
  | .or_ vs => validArgsL bo vs
  | .and_ vs => validArgsL bo vs
  | .andRaw _ vs => validArgsL bo vs
  | _ => true
def validArgsL (bo : BuildOracle) : List V → Bool
  | [] => true
  | v :: vs => validArgs bo v && validArgsL bo vs
end

/-! ### equal parameters -/

def boundSame (eo : EqOracle) : Bound → Bound → Bool
  | .int n, .int m => n == m
  | .opaque a, .opaque b => eo.peq 4 a b == .t
  | _, _ => false

mutual
/-- the two expressions are the same constructor calls with pairwise `==` parameters -/
def sameUpTo (eo : EqOracle) : V → V → Bool
  | .instOf t, w => (match w with | .instOf t' => eo.peq 0 t t' == .t | _ => false)
  | .matchesRe r fl fn, w =>
      (match w with | .matchesRe r' fl' fn' => eo.peq 5 r r' == .t && fl == fl' && fn == fn' | _ => false)
  | .optional v, w => (match w with | .optional v' => sameUpTo eo v v' | _ => false)
  | .optionalSeq t vs, w =>
      (match w with | .optionalSeq t' vs' => t == t' && sameUpToL eo vs vs' | _ => false)
  | .in_ p, w => (match w with | .in_ p' => eo.peq 1 p p' == .t | _ => false)
  | .isCallable, w => (match w with | .isCallable => true | _ => false)
  | .deepIter m it, w =>
      (match w with | .deepIter m' it' => sameUpTo eo m m' && sameUpTo eo it it' | _ => false)
  | .deepIterSeq t ms it, w =>
      (match w with
       | .deepIterSeq t' ms' it' => t == t' && sameUpToL eo ms ms' && sameUpTo eo it it'
       | _ => false)
  | .deepMap k v m, w =>
      (match w with
       | .deepMap k' v' m' => sameUpTo eo k k' && sameUpTo eo v v' && sameUpTo eo m m'
       | _ => false)
  | .num op b, w => (match w with | .num op' b' => op == op' && eo.peq 3 b b' == .t | _ => false)
  | .maxLen b, w => (match w with | .maxLen b' => boundSame eo b b' | _ => false)
  | .minLen b, w => (match w with | .minLen b' => boundSame eo b b' | _ => false)
  | .not_ v m e, w =>
      (match w with | .not_ v' m' e' => sameUpTo eo v v' && m == m' && e == e' | _ => false)
  | .or_ vs, w => (match w with | .or_ vs' => sameUpToL eo vs vs' | _ => false)
  | .and_ vs, w => (match w with | .and_ vs' => sameUpToL eo vs vs' | _ => false)
  | .andRaw t vs, w => (match w with | .andRaw t' vs' => t == t' && sameUpToL eo vs vs' | _ => false)
  | .probe p r, w => (match w with | .probe p' r' => p == p' && r == r' | _ => false)
  | .junk, w => (match w with | .junk => true | _ => false)
  | .noneV, w => (match w with | .noneV => true | _ => false)
def sameUpToL (eo : EqOracle) : List V → List V → Bool
  | [], ws => ws.isEmpty
  | v :: vs, ws => (match ws with | [] => false | w :: ws' => sameUpTo eo v w && sameUpToL eo vs ws')
end

def boundHashable (eo : EqOracle) : Bound → Bool
  | .int _ => true
  | .opaque a => eo.phash 4 a == .t

mutual
/-- every parameter of the expression is hashable (a list of validators is not) -/
def paramsHashable (eo : EqOracle) : V → Bool
  | .instOf t => eo.phash 0 t == .t
  | .optional v => paramsHashable eo v
  | .optionalSeq t vs => t && paramsHashableL eo vs
  | .in_ p => eo.phash 1 p == .t
  | .deepIter m it => paramsHashable eo m && paramsHashable eo it
  | .deepIterSeq t ms it => t && paramsHashableL eo ms && paramsHashable eo it
  | .deepMap k v m => paramsHashable eo k && paramsHashable eo v && paramsHashable eo m
  | .num _ b => eo.phash 3 b == .t
  | .maxLen b => boundHashable eo b
  | .minLen b => boundHashable eo b
  | .not_ v _ e => paramsHashable eo v && (match e with | .seq true _ => false | _ => true)
  | .or_ vs => paramsHashableL eo vs
  | .and_ vs => paramsHashableL eo vs
  | .andRaw t vs => t && paramsHashableL eo vs
  | _ => true
def paramsHashableL (eo : EqOracle) : List V → Bool
  | [] => true
  | v :: vs => paramsHashable eo v && paramsHashableL eo vs
end

/-! ### known deviations -/

mutual
/-- K9: two corresponding `in_` whose options are `==` as given but not as stored
    (sets / dicts turned into tuples in different iteration order) -/
def k9 (eo : EqOracle) : V → V → Bool
  | .in_ p, w => (match w with | .in_ p' => eo.peq 1 p p' == .t && eo.peq 2 p p' != .t | _ => false)
  | .optional v, w => (match w with | .optional v' => k9 eo v v' | _ => false)
  | .optionalSeq _ vs, w => (match w with | .optionalSeq _ vs' => k9L eo vs vs' | _ => false)
  | .deepIter m it, w => (match w with | .deepIter m' it' => k9 eo m m' || k9 eo it it' | _ => false)
  | .deepIterSeq _ ms it, w =>
      (match w with | .deepIterSeq _ ms' it' => k9L eo ms ms' || k9 eo it it' | _ => false)
  | .deepMap k v m, w =>
      (match w with | .deepMap k' v' m' => k9 eo k k' || k9 eo v v' || k9 eo m m' | _ => false)
  | .not_ v _ _, w => (match w with | .not_ v' _ _ => k9 eo v v' | _ => false)
  | .or_ vs, w => (match w with | .or_ vs' => k9L eo vs vs' | _ => false)
  | .and_ vs, w => (match w with | .and_ vs' => k9L eo vs vs' | _ => false)
  | .andRaw _ vs, w => (match w with | .andRaw _ vs' => k9L eo vs vs' | _ => false)
  | _, _ => false
def k9L (eo : EqOracle) : List V → List V → Bool
  | [], _ => false
  | v :: vs, ws => (match ws with | [] => false | w :: ws' => k9 eo v w || k9L eo vs ws')
end

mutual
/-- the expression is one a user can write (no built form inside) -/
def source : V → Bool
  | .andRaw _ _ => false
  | .optional v => source v
  | .optionalSeq _ vs => sourceL vs
  | .deepIter m it => source m && source it
  | .deepIterSeq _ ms it => sourceL ms && source it
  | .deepMap k v m => source k && source v && source m
  | .not_ v _ _ => source v
  | .or_ vs => sourceL vs
  | .and_ vs => sourceL vs
  | _ => true
def sourceL : List V → Bool
  | [] => true
  | v :: vs => source v && sourceL vs
end

/-- hash contract for one pair of parameters: `==` and both hashable ⇒ equal hashes -/
def cohLeaf (eo : EqOracle) (s p p' : Nat) : Bool :=
  !(eo.peq s p p' == .t && eo.phash s p == .t && eo.phash s p' == .t) || eo.phashEq s p p'

def cohBound (eo : EqOracle) : Bound → Bound → Bool
  | .opaque a, .opaque b => cohLeaf eo 4 a b
  | _, _ => true

mutual
/-- the equality oracle is coherent on corresponding parameters of two expressions: Python's hash
    contract (`==` ⇒ equal hashes, also for compiled patterns), hashable options stay hashable as stored, and
    `==` regex arguments with the same flags compile to `==` patterns.  A fact about the
    objects the harness hands in, checked on every case (part of `wf`). -/
def coherent (eo : EqOracle) : V → V → Bool
  | .instOf t, w => (match w with | .instOf t' => cohLeaf eo 0 t t' | _ => true)
  | .matchesRe r fl _, w =>
      (match w with
       | .matchesRe r' fl' _ =>
         !(eo.peq 5 r r' == .t && fl == fl') || (eo.patEq r fl r' fl' == .t && eo.patHashEq r fl r' fl')
       | _ => true)
  | .optional v, w => (match w with | .optional v' => coherent eo v v' | _ => true)
  | .optionalSeq _ vs, w => (match w with | .optionalSeq _ vs' => coherentL eo vs vs' | _ => true)
  | .in_ p, w =>
      (match w with
       | .in_ p' =>
         cohLeaf eo 2 p p' && (!(eo.phash 1 p == .t) || eo.phash 2 p == .t) &&
         (!(eo.phash 1 p' == .t) || eo.phash 2 p' == .t)
       | _ => true)
  | .deepIter m it, w =>
      (match w with | .deepIter m' it' => coherent eo m m' && coherent eo it it' | _ => true)
  | .deepIterSeq _ ms it, w =>
      (match w with | .deepIterSeq _ ms' it' => coherentL eo ms ms' && coherent eo it it' | _ => true)
  | .deepMap k v m, w =>
      (match w with
       | .deepMap k' v' m' => coherent eo k k' && coherent eo v v' && coherent eo m m'
       | _ => true)
  | .num _ b, w => (match w with | .num _ b' => cohLeaf eo 3 b b' | _ => true)
  | .maxLen b, w => (match w with | .maxLen b' => cohBound eo b b' | _ => true)
  | .minLen b, w => (match w with | .minLen b' => cohBound eo b b' | _ => true)
  | .not_ v _ _, w => (match w with | .not_ v' _ _ => coherent eo v v' | _ => true)
  | .or_ vs, w => (match w with | .or_ vs' => coherentL eo vs vs' | _ => true)
  | .and_ vs, w => (match w with | .and_ vs' => coherentL eo vs vs' | _ => true)
  | .andRaw _ vs, w => (match w with | .andRaw _ vs' => coherentL eo vs vs' | _ => true)
  | _, _ => true
def coherentL (eo : EqOracle) : List V → List V → Bool
  | [], _ => true
  | v :: vs, ws => (match ws with | [] => true | w :: ws' => coherent eo v w && coherentL eo vs ws')
end

def wf (c : Case) : Bool :=
  source c.tree && source c.tree2 && (vrow c 0).isSome && c.more.all (fun x => (vrow c x).isSome) &&
  -- (the equality oracle is only consulted, and only filled in, when both constructors succeed)
  (!(validArgs c.buildOracle c.tree && validArgs c.buildOracle c.tree2) || coherent c.eqOracle c.tree c.tree2)

/-- both constructor expressions are within the documented domain and have equal parameters -/
def equalParams (c : Case) : Bool :=
  validArgs c.buildOracle c.tree && validArgs c.buildOracle c.tree2 && sameUpTo c.eqOracle c.tree c.tree2

/-- K9 applies: equal parameters, and some corresponding `in_` pair stores its equal set/dict options as
    different tuples -/
def knownK9 (c : Case) : Bool := equalParams c && k9 c.eqOracle c.tree c.tree2

def known (c : Case) : List String :=
  if knownK9 c then ["K9"] else []

def isProbe : V → Bool
  | .probe _ _ => true
  | _ => false

/-- every later call of the history is judged like the first, on the value (and the world) of its own
    time: whatever was validated before, by this or by an equal validator, does not matter -/
def stepsOk (c : Case) : List Nat → List StepObs → Bool
  | [], [] => true
  | x :: xs, s :: ss =>
    s.outcome == (if sat c.oracle c.tree x then none else some (excOf c.oracle c.tree x)) &&
    (isProbe c.tree || s.retNone) && s.unchanged && stepsOk c xs ss
  | _, _ => false

def spec (c : Case) (o : Obs) : Bool :=
  if !validArgs c.buildOracle c.tree then true      -- nothing is demanded of an ill-formed constructor call
  else
    o.build == none &&
    -- accepts exactly the documented predicate, raises the documented class otherwise
    o.outcome == (if sat c.oracle c.tree 0 then none else some (excOf c.oracle c.tree 0)) &&
    -- returns None (a bare user validator is no shipped validator), never alters the value
    (isProbe c.tree || o.retNone) && o.unchanged &&
    -- … at every call of a history
    stepsOk c c.more o.more &&
    -- equal parameters ⇒ equal, and hash-equal when the parameters are hashable
    (if !validArgs c.buildOracle c.tree2 then true
     else o.build2 == none &&
       (if sameUpTo c.eqOracle c.tree c.tree2 then
          o.eq == .t &&
          (if paramsHashable c.eqOracle c.tree && paramsHashable c.eqOracle c.tree2 then
             o.hash1 == none && o.hash2 == none && o.hashAgree
           else true)
        else true))

def check : Check Case Obs := { model := model, spec := spec, wf := wf, known := known }

def handle := runCheck check

end Attrs.C18
