/-
  C06 — what the property demands of an observation, written from the statement, not from the code:

  * which hook chain is effective for a name (field-level, else the class-level one of the class being
    defined, `NO_OP` = none, define's default = convert-then-validate) — `effChain`;
  * what a complete run of a chain does (the callbacks it makes with the values flowing left to right,
    the value it leaves) — `chainEvents`, `chainVal`;
  * one assignment: the observed trace is the complete run cut at the injected fault (or at
    `setters.frozen`), a failure leaves every probed name at its *previously observed* value, a success
    changes exactly the assigned name to `chainVal`; non-fields and hook-less fields are plain stores;
  * under define's default the stored value is what construction with that argument stores (`ctor`);
  * definition-time: combinations the statement calls rejected must raise ValueError, hierarchies without
    any frozen / own-`__setattr__` ingredient must define.
-/
import AttrsModel.Model.C06

namespace Attrs.C06
open Attrs.Init (Val Conv Event EventId)

/-! ## Declarative reading of a hierarchy -/

/-- the fields of the last class of a chain: own definitions replace inherited ones of the same name -/
def fieldsStep (acc : List Field) (c : Cls) : List Field :=
  match c.kind with
  | .attrs => resolveAttrs acc c.fields
  | .plain => acc

def fieldsOf (cs : List Cls) : List Field := cs.foldl fieldsStep []

def fieldOf (cs : List Cls) (n : String) : Option Field := (fieldsOf cs).find? (fun f => f.name == n)

/-- the class-level hook chain of the class being defined, as the statement reads it (a mutable class) -/
def clsChain (l : Cls) : Option (List Setter) :=
  match l.clsOn with
  | .unset => if l.isDefine then some [.convert, .validate] else none
  | .noop => none
  | .bare s => some [s]
  | .list h => some h

/-- the effective hook chain for a field of an instance of class `l`: the field's own if given, `NO_OP` = none,
    otherwise the class-level one of `l` -/
def fieldChain (l : Cls) (f : Field) : Option (List Setter) :=
  match f.onSet with
  | .chain h => some h
  | .noop => none
  | .unset => clsChain l

/-- the effective hook chain for assigning to `n` on an instance of the last class of the chain -/
def effChain (cs : List Cls) (n : String) : Option (Field × List Setter) :=
  match cs.getLast?, fieldOf cs n with
  | some l, some f => (fieldChain l f).map (fun h => (f, h))
  | _, _ => none

/-- the chain for `n` is define's default (not an explicit argument anywhere) -/
def isDefineDefault (cs : List Cls) (n : String) : Bool :=
  match cs.getLast?, fieldOf cs n with
  | some l, some f => l.isDefine && l.clsOn == .unset && f.onSet == .unset && f.init
  | _, _ => false

/-! ## What a chain does -/

/-- the value a setter returns (user callbacks are uninterpreted: they return a fresh term) -/
def pureApply (f : Field) : Setter → Val → Val
  | .user i, v => hookVal i f v
  | .convert, v => Init.convApply f.toInit v
  | .validate, v => v
  | .frozen, v => v

/-- the callbacks a setter makes on input `v` -/
def setterEvents (rv : Bool) (f : Field) : Setter → Val → List Event
  | .user i, v => [hookEvent i f v]
  | .convert, v => match f.conv with
    | none => []
    | some c => [convEvent f c v]
  | .validate, v => if rv then (List.range f.validators).map (fun i => validatorEvent f i v) else []
  | .frozen, _ => []

/-- all callbacks of an undisturbed run, left to right, each setter seeing its predecessor's result;
    nothing after `setters.frozen` -/
def chainEvents (rv : Bool) (f : Field) : List Setter → Val → List Event
  | [], _ => []
  | .frozen :: _, _ => []
  | s :: rest, v => setterEvents rv f s v ++ chainEvents rv f rest (pureApply f s v)

/-- the value an undisturbed run leaves: the left-to-right fold -/
def chainVal (f : Field) (h : List Setter) (v : Val) : Val := h.foldl (fun v s => pureApply f s v) v

abbrev Snap := List (String × Option Val)

def Snap.update (s : Snap) (n : String) (v : Val) : Snap := s.map (fun kv => if kv.1 == n then (kv.1, some v) else kv)

def Snap.get (s : Snap) (n : String) : Option Val :=
  match s.find? (fun kv => kv.1 == n) with
  | some kv => kv.2
  | none => none

/-- instances of the last class have a `__dict__`: some class of the chain is not slotted -/
def hasDictOf (cs : List Cls) : Bool := cs.any Cls.givesDict

/-- the fault position if it falls on one of the `n` callbacks of the undisturbed run -/
def hitPos (fault : Option Nat) (n : Nat) : Option Nat :=
  match fault with
  | some p => if p < n then some p else none
  | none => none

/-- one assignment `n = v` with optional fault position, previous snapshot `prev`, observed `o` -/
def stepOk (cs : List Cls) (rv : Bool) (fault : Option Nat) (k : Option FaultKind) (prev : Snap) (a : Assign)
    (o : StepObs) : Bool :=
  match effChain cs a.name with
  | none =>
    -- plain store: no callback runs; the value itself is stored (if the layout has a place for it)
    o.trace == [] &&
    (if (fieldOf cs a.name).isSome || hasDictOf cs then
       o.exc == none && o.values == prev.update a.name a.value
     else o.exc == some .attributeError && o.values == prev)
  | some (f, h) =>
    let evs := chainEvents rv f h a.value
    match hitPos fault evs.length with
    | some p =>
      -- the p-th callback raises: its exception propagates, nothing later runs, nothing changes
      -- (whatever its type: KeyError, AttributeError, StopIteration, a BaseException … are not special)
      o.exc == (evs[p]?).map (fun e => faultExc k (tok e.id)) && o.trace == evs.take (p + 1) && o.values == prev
    | none =>
      if h.contains .frozen then
        -- `setters.frozen` is reached: FrozenAttributeError, nothing changes
        o.exc == some .frozenAttribute && o.trace == evs && o.values == prev
      else o.exc == none && o.trace == evs && o.values == prev.update a.name (chainVal f h a.value)

/-- "obj.f = v leaves the same value that constructing with f=v would" (define's default chain) -/
def ctorOk (cs : List Cls) (a : Assign) (o : StepObs) : Bool :=
  if isDefineDefault cs a.name && o.exc == none then o.ctor.isSome && o.ctor == Snap.get o.values a.name else true

def stepsOk (cs : List Cls) (rv : Bool) (fault : Option (Nat × Nat)) (k : Option FaultKind) :
    Nat → Snap → List Assign → List StepObs → Bool
  | _, _, [], [] => true
  | i, prev, a :: as, o :: os =>
    stepOk cs rv (faultAt fault i) k prev a o && ctorOk cs a o && stepsOk cs rv fault k (i + 1) o.values as os
  | _, _, _, _ => false

/-- the names the observation reports, in order -/
def probesOf (cs : List Cls) (h : List Assign) : List String :=
  let fs := (fieldsOf cs).map (·.name)
  fs ++ dedup ((h.map (·.name)).filter (fun n => !fs.contains n))

def initSnap (cs : List Cls) (preset : Bool) (h : List Assign) : Snap :=
  (probesOf cs h).map (fun n =>
    (n, if preset && ((fieldsOf cs).map (·.name)).contains n then some (initVal n) else none))

/-! ## Definition time -/

/-- inherited frozenness as the statement means it: a class is frozen if told so, or if its base is and it
    does not bring its own `__setattr__` -/
def frozenOf (cs : List Cls) : Bool :=
  cs.foldl (fun b c => match c.kind with
    | .attrs => c.frozenArg || (b && !c.ownSetattr)
    | .plain => b && !c.ownSetattr) false

/-- a setter that can do something for this field -/
def Setter.effective (f : Field) : Setter → Bool
  | .user _ | .frozen => true
  | .convert => f.conv.isSome
  | .validate => f.validators != 0

/-- `c` defined below `pre` is one of the combinations the statement calls rejected -/
def mustReject (pre : List Cls) (c : Cls) : Bool :=
  c.kind == .attrs &&
  (let fr := c.frozenArg || (frozenOf pre && !c.ownSetattr)
   let fs := fieldsOf (pre ++ [c])
   let clsGiven := match c.clsOn with
     | .bare _ => true
     | .list h => !h.isEmpty
     | _ => false
   let fieldGiven := fs.any (fun f => match f.onSet with
     | .chain h => !h.isEmpty
     | _ => false)
   -- hooks + frozen (also inherited)
   (fr && (clsGiven || fieldGiven)) ||
   -- freezing, or hooks that do something, + an auto-detected own `__setattr__`
   (c.ownSetattr && c.autoDetect &&
     (c.frozenArg ||
      (!frozenOf pre && fs.any (fun f => match fieldChain c f with
        | some h => h.any (Setter.effective f)
        | none => false)))))

/-- nothing frozen, no own `__setattr__`: the definition must succeed -/
def mustAccept (pre : List Cls) (c : Cls) : Bool :=
  c.kind == .plain || (!frozenOf pre && !c.frozenArg && !c.ownSetattr)

/-- the observed definition outcome against the two tables, class by class -/
def rejectOk (defErr : Option (Nat × Exc)) : Nat → List Cls → List Cls → Bool
  | _, _, [] => defErr.isNone
  | i, pre, c :: rest =>
    match defErr with
    | some (j, e) =>
      if j = i then !mustAccept pre c && (!mustReject pre c || e == .valueError)
      else !mustReject pre c && rejectOk defErr (i + 1) (pre ++ [c]) rest
    | none => !mustReject pre c && rejectOk defErr (i + 1) (pre ++ [c]) rest

/-- the runtime clauses talk about mutable attrs classes whose `__setattr__` is attrs's business:
    nothing frozen and no user-written `__setattr__` anywhere in the chain -/
def clean (cs : List Cls) : Bool := cs.all (fun c => !c.frozenArg && !c.ownSetattr)

def spec (c : Case) (o : Obs) : Bool :=
  rejectOk o.defErr 0 [] c.cls &&
  (if clean c.cls then
     o.defErr == none &&
     stepsOk c.cls c.runValidators c.fault c.faultKind 0 (initSnap c.cls c.preset c.history) c.history o.steps
   else true)

/-! ## Preconditions and known deviations -/

def distinctNames (l : List String) : Bool := decide l.Nodup

def wfCls (c : Cls) : Bool :=
  distinctNames (c.fields.map (·.name)) &&
  (match c.kind with
   | .plain => c.fields.isEmpty && !c.ownSetattr && !c.frozenArg
   | .attrs => !c.ownSetattr || c.autoDetect)

/-- a non-empty chain of well-formed classes ending in an attrs class -/
def wf (c : Case) : Bool :=
  c.cls.all wfCls &&
  (match c.cls.getLast? with
   | some l => l.kind == .attrs
   | none => false)

/-- K6 ("slotted confused"): the class under test resolves to an attrs-generated hook table of an ancestor
    although it wrote none itself — only a slotted class below a plain class below a hooked class gets
    there (`C06_inherits_only_when_confused`), and its subclasses that write none. -/
def known (c : Case) : List String :=
  match defineChain c.cls with
  | .ok rt => if rt.inheritsHooks then ["K6"] else []
  | .error _ => []

def check : Check Case Obs := { model := model, spec := spec, wf := wf, known := known }

def handle := runCheck check

end Attrs.C06
