/-
  C19 (c) — filters: `include(*w)` accepts a field iff its value's exact type, its name or the Attribute itself is
  listed; `exclude(*w)` is the exact negation.  Written as a search over the items of `what`, with no splitting.
-/
import AttrsModel.Model.C19Filt

namespace Attrs.C19.Filt

/-- one item of `what` selects the (attribute, value) pair -/
def selects (a : AttrId) (valType : String) : What → Bool
  | .type t => t == valType
  | .name s => s == a.name
  | .attr b => b == a
  | .junk => false

def listed (what : List What) (q : Query) : Bool := what.any (selects q.attr q.valType)

/-- every answer is judged on its own: whatever the same filter object was asked before does not matter -/
def spec (c : Case) (o : Obs) : Bool :=
  o.inc == c.queries.map (fun q => FR.ofBool (listed c.what q)) &&
  o.exc == c.queries.map (fun q => FR.ofBool (!listed c.what q))

def wf (_ : Case) : Bool := true
def known (_ : Case) : List String := []

def check : Check Case Obs := { model := model, spec := spec, wf := wf, known := known }

end Attrs.C19.Filt
