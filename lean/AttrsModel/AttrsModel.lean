-- Root of the `AttrsModel` library: model, specs, driver dispatch and every property theorem.
import AttrsModel.Core
import AttrsModel.Driver
import AttrsModel.Properties.C03
