/-
  JSON line-protocol driver.  One request per line on stdin:
    {"p":"C03","case":{…},"obs":{…}}
  One reply per line on stdout:
    {"agree":b,"specModel":b,"specObs":b,"wf":b,"known":[…],"model":{…}}   or   {"error":"…"}
-/
import AttrsModel.Driver

open Lean Attrs

partial def loop (h : IO.FS.Stream) (out : IO.FS.Stream) : IO Unit := do
  let line ← h.getLine
  if line.isEmpty then return ()
  let reply : Json :=
    match Json.parse line with
    | .error e => Json.mkObj [("error", Json.str s!"parse: {e}")]
    | .ok j =>
      match (do
        let p ← j.getObjValAs? String "p"
        let c ← j.getObjVal? "case"
        let o ← j.getObjVal? "obs"
        dispatch p c o) with
      | .ok r => toJson r
      | .error e => Json.mkObj [("error", Json.str e)]
  out.putStrLn reply.compress
  loop h out

def main : IO Unit := do
  let out ← IO.getStdout
  loop (← IO.getStdin) out
  out.flush
