"""C04 -- hash/eq contract, hash inputs, caching, hashability decision table.

Case = the Lean `Attrs.C04.Case`: a linear chain of class specifications (root first; decorator keywords
in four states not passed / None / True / False, what the class body defines, own fields with per-field
eq in {True, False, key} and hash in {None, True, False}), a scripted value domain (==-class, hash code and
key function of each value), initial instances of the last class and a history of operations
(hash / copy / deepcopy / pickle / evolve / field write).  A case without instances is a row of the
class-level decision table.  Harness-only key `cfg` (pickle protocol) is ignored by the model.
"""
from __future__ import annotations

import copy
import itertools
import pickle
import sys
import types
import zlib

import attr
import attrs
from attr import exceptions as aexc

import c04_ir
import common

ID = "C04"
TABLES = ["attrsKw", "defineKw", "frozenPartialKw", "hashCacheField", "c17HashKeyAffix", "fn_attrs_wrap"]
TRUSTED = ["harness/c04_ir.py: the strict parser from the generated __hash__ source to the IR of Model/C04IR.lean (T3); anything it does not recognise becomes an `unknown` node"]
PARALLEL = True
BUDGET_S = {"quick": 38, "thorough": 400}
EXHAUSTIVE = {"quick": False, "thorough": False}
RULE = (
    "table stream: api {attr.s, define} x eq {unset,None,T,F} x unsafe_hash {unset,None,T,F} x frozen x frozen base x own "
    "__hash__ {none, def, =None} x own __eq__ x auto_detect {unset,T,F} x exception root/auto_exc {4} x cache_hash "
    "(18 432 rows minus the excluded legacy rows; all of them in the thorough tier, a seeded sample of 2 500 in quick), then "
    "the same rows with seeded variation of the hash-vs-unsafe_hash spelling, cmp, init, own __ne__/__init__, slots, "
    "attrs.frozen, delegating own __hash__, a field, a plain class between frozen base and class, hashable / caching / plain "
    "bases; instance stream: hand-written chains around K1/K2 (12 shapes x slots of base x slots of subclass), all "
    "instance pairs over {0,1,2}^k for every per-field eq {T,F,key} x hash {None,T,F} setting (k=1 and a sample of k=2 in "
    "quick, k<=2 completely in thorough, k=3 random), random chains of 1-3 classes (attrs via attr.s/define/frozen or plain; "
    "slots, frozen, cache_hash, eq=False, unsafe_hash/hash=True, delegating or constant or None own __hash__, own __eq__) "
    "with <=3 fields, scripted ==-classes / hash codes / key function on {0,1,2}, 1-2 instances and histories of <=9 "
    "operations (hash / copy / deepcopy / pickle protocols 2-5 / evolve / field write), 30% of them scripted as hash, derive, "
    "write to the derived instance, hash both; non-trivial = a hash operation on a class with an attrs-generated hash, or a "
    "table row that is not the default row (attr.s, nothing passed, no base); distinct = distinct JSON case. Init hooks and "
    "hostile key objects (harness-only, the model is independent of them on the unchanged tree): on 20-35% of the chains "
    "of the instance streams the first attrs class defines an __attrs_post_init__ that hashes self best-effort (with "
    "cache_hash this raises on the unchanged tree and is swallowed) and then normalises every field -- the constructor is "
    "then called with not-yet-normalised values that hash and compare unlike the clean ones, so the finished instance "
    "holds the model's values -- and on a third of those an __attrs_pre_init__ that hashes self; 15-30% of the fields "
    "compared without a key are given a falsy callable object (len 0) as eq=, which the unchanged tree drops for __eq__ and "
    "__hash__ alike: equality and hash consistency is judged on the observed x == y and hash(x) == hash(y). Reused "
    "decorator objects (harness-only history, the model is independent of it): the object returned by attr.s(...) / "
    "define(...) / frozen(...) is first applied to a priming class (own __eq__ / __ne__ / __hash__ def or None / "
    "__init__, base object / frozen attrs / Exception / plain class with __hash__, with or without a field) and then to "
    "the class under test -- every core row once more in the thorough tier (1 200 in quick), 35% of the varied rows, 12% "
    "of the classes of random chains. Multiple "
    "inheritance rows of the table (modelled: a frozen class anywhere among the bases, in any order, freezes the class): "
    "the last class below a chain parent {none, plain, mutable attr.s, mutable define dict, frozen dict, frozen slotted, "
    "frozen through a plain class, frozen grandparent} and one or two further bases {plain mixin, mutable attrs dict / "
    "slotted, frozen attr.s / define dict / frozen-api dict / slotted, frozen base under a plain class, diamond through "
    "chain class 0 as plain / mutable / frozen}, listed before or after the parent, x 10 leaf variants (6 760 rows, all in "
    "the thorough tier, 700 sampled in quick; at most one slotted lineage, CPython's layout rule). T3: for every "
    "generated chain of the instance streams and every varied table row with a field (every 10th in the quick tier, about "
    "400 cases, all in the thorough tier; non-exception chains with <= 3 fields) one `script` case: the chain is defined "
    "afresh, the real source text of the last class's own generated __hash__ -- and of its twin's, defined without "
    "cache_hash -- is parsed strictly into the IR of Model/C04IR.lean (with the binding of every key helper in the "
    "method's globals, the salt literal compared with hash of the class's unique id, hash/object builtins, the "
    "_cache_wrapper default) and compared with the model generator's script; the observed scripts are executed in Lean on "
    "every pair of value vectors over the case's scripted domain. Histories also "
    "contain attr.assoc (modelled: copy.copy, object.__setattr__ per change, a carried-over cached hash cleared); a change block "
    "runs hash, assoc/evolve with every non-empty set of changed fields, hash of the result and of the original, for every "
    "per-field eq x hash setting of 1 and 2 fields (incl. eq=False with hash=True), mostly on dict cache_hash classes. "
    "Every class chain is built with its own key-function object, and every chain defines classes of the same module and "
    "qualified names (C0, C1, ...), mostly with coinciding field layouts and differing options: a key function that runs "
    "for a class of another build returns a value equal to nothing and is not counted, so state that attrs keeps across "
    "class definitions per name/layout shows as unstable or unequal hashes and missing key calls. Harness-only "
    "variation the model is independent of: the exception root (Exception, BaseException, KeyboardInterrupt, SystemExit, "
    "GeneratorExit, ValueError) of every exception-rooted row and of 12% of the random chains (whose instances are hashed, "
    "evolved and written, not copied); field names written private (_x), dunder-like (__x, mangled) or with an explicit "
    "alias=, and the aliases of two fields of a class swapped (35% of the fields of random chains and pair blocks); pickle "
    "protocols 0-5; getstate_setstate in {unset, None, True, False} on 30% of the random classes and =True on a second copy "
    "of every hand-written chain (dict classes with the generated state methods, mixed slotted/dict chains)"
)
ASSUMPTIONS = [
    "T3: the text parsed is the text that runs (the parser recompiles it and compares the code object); the IR's meaning "
    "(`execScript`) gives `hash((…))`, attribute reads through the slot-or-dict rule and `object.__setattr__` / assignment "
    "of the cache the same meaning as the model's hash call; whether the cached value is wrapped in _cache_wrapper is "
    "compared syntactically only (its effect, pickling as None, is exercised by the T2 histories)",
    "CPython facts modelled as small trusted functions and diff-tested here: `__hash__ = None` is inserted for a body that "
    "defines __eq__ only; a slot descriptor on the MRO shadows the instance __dict__; copy.copy shares, deepcopy/pickle "
    "rebuild the __dict__ of dict classes and use __getstate__/__setstate__ for slotted ones",
    "hash values are compared for equality only; the model identifies a hash with the tuple it is computed from, i.e. "
    "assumes CPython's tuple hash does not collide on the few distinct small tuples of one case",
    "scripted values V(n) stand for arbitrary hashable values honouring a == b => hash(a) == hash(b); unequal values may share a hash code",
    "'equals the uncached value' is observed against a twin class: the same chain defined without cache_hash under the same "
    "module and qualified names (hence the same type salt)",
    "histories contain no field write after the first hash() of the same instance (cache_hash's documented precondition); "
    "writes to a shallow copy of a hashed instance are allowed and are K5",
    "copy/deepcopy/pickle are exercised wherever the state methods that resolve are the ones generated for the class whose "
    "__init__ runs (slotted classes, dict classes with getstate_setstate=True or below a class with a generated pair) or no "
    "generated pair exists and no class is slotted (default __dict__ protocol); not where getstate_setstate=False leaves a "
    "base's pair or a slotted class without one (C10's K11), and not on exception instances (BaseException's own reduce)",
    "chains in which a frozen dict attr.s class stores an inherited slot field in __dict__ (K3 of C01/C08/C10, legacy "
    "collection only) are excluded by wf, because there the fields, not the hash, are unreadable",
    "field names are distinct along a chain, every field is init=True without default; attribute names and init aliases are "
    "read back from attr.fields() of the built class",
]

FLAGS = ["unset", "pyNone", "t", "f"]
_PY = {"pyNone": None, "t": True, "f": False}
FIELD_NAMES = ["a", "b", "c", "d"]
EQCS = [[0, 1, 2], [0, 0, 2], [0, 1, 1], [0, 1, 0], [0, 0, 0]]

# ----------------------------------------------------------------------------------------------- scripted values
EQC = [0, 1, 2]
HCODE = [0, 1, 2]
KEYMAP = [0, 1, 2]
HC = [1000003, 7, 424243, 99991]
COUNT = {"key": 0, "val": 0}


class V:
    """scripted value; `d` marks a not-yet-normalised constructor argument (see `_post_hook`): it equals and hashes
    like nothing clean, so a hash taken before normalisation differs from the hash of the finished instance"""
    __slots__ = ("n", "d")

    def __init__(self, n, d=False):
        self.n = n
        self.d = d

    def __eq__(self, other):
        return isinstance(other, V) and self.d == other.d and EQC[self.n] == EQC[other.n]

    def __ne__(self, other):
        return not self.__eq__(other)

    def __hash__(self):
        COUNT["val"] += 1
        return HC[HCODE[EQC[self.n]]] + (77777 if self.d else 0)

    def __repr__(self):
        return f"V({self.n}{', dirty' if self.d else ''})"

    def __reduce__(self):
        return (V, (self.n, self.d))


def _pre_hook(self):
    """__attrs_pre_init__ of a class with `pre`: uses the instance as a dict key, best effort"""
    try:
        hash(self)
    except Exception:  # noqa: BLE001
        pass


def _post_hook(self):
    """__attrs_post_init__ of a class with `post`: first uses the instance as a dict key (best effort: with cache_hash
    this raises on the unchanged tree, the cache does not exist yet), then normalises every field -- plain assignment,
    object.__setattr__ on frozen classes.  The finished instance holds exactly the clean values the model knows."""
    try:
        hash(self)
    except Exception:  # noqa: BLE001
        pass
    try:
        fs = attr.fields(type(self))
    except Exception:  # noqa: BLE001
        return
    for a in fs:
        try:
            v = getattr(self, a.name)
        except AttributeError:
            continue
        if isinstance(v, V) and v.d:
            try:
                setattr(self, a.name, V(v.n))
            except Exception:  # noqa: BLE001
                object.__setattr__(self, a.name, V(v.n))


class FalsyKey:
    """a key function that is a falsy callable object (`len() == 0`)"""

    def __init__(self, key):
        self.key = key

    def __call__(self, v):
        return self.key(v)

    def __len__(self):
        return 0


def _mk(C, vals, dirty):
    x = C(*[V(v, dirty) for v in vals])
    if dirty:
        _post_hook_clean_only(x)
    return x


def _post_hook_clean_only(x):
    """safety net: should a post-init not have run for this instance, normalise here (without hashing)"""
    try:
        fs = attr.fields(type(x))
    except Exception:  # noqa: BLE001
        return
    for a in fs:
        try:
            v = getattr(x, a.name)
        except AttributeError:
            continue
        if isinstance(v, V) and v.d:
            object.__setattr__(x, a.name, V(v.n))


ACTIVE_TAGS: set = set()
_TAG = [0]


class Poison:
    """what a key function returns when it runs for a class it was not given to: equal to nothing, hashes by identity"""
    __slots__ = ()


def make_key():
    """a fresh key function object per class-chain build.  Every chain defines classes of the same module and
    qualified names (C0, C1, ...), so anything attrs keeps per (module, qualname, layout) across class definitions
    would hand one build's key function to another build's class: such a call does not count as a key call of the
    case under observation and poisons the value"""
    _TAG[0] += 1
    tag = _TAG[0]

    def key(v):
        if tag not in ACTIVE_TAGS:
            return Poison()
        COUNT["key"] += 1
        return V(KEYMAP[v.n])

    key.tag = tag
    return key


# ----------------------------------------------------------------------------------------------- class builder
_MOD = "c04mod"
_CACHE: dict = {}
_BUILDS = [0]
_LAST_KEY = [None]


def _kw(c):
    kw = {}
    for json_name, py_name in (("eq", "eq"), ("cmp", "cmp"), ("hash", "hash"), ("unsafeHash", "unsafe_hash"),
                               ("init", "init"), ("frozen", "frozen"), ("slots", "slots"),
                               ("autoDetect", "auto_detect"), ("autoExc", "auto_exc"), ("cacheHash", "cache_hash"),
                               ("getstateSetstate", "getstate_setstate")):
        v = c[json_name]
        if v != "unset":
            kw[py_name] = _PY[v]
    return kw


ROOTS = ["Exception", "BaseException", "KeyboardInterrupt", "SystemExit", "GeneratorExit", "ValueError"]


def _class_src(k, c, root, bases=None, name=None):
    base = ", ".join(bases) if bases else (f"C{k - 1}" if k else root)
    lines = [f"class {name or f'C{k}'}({base}):"]
    for f in c["fields"]:
        args = []
        if f.get("alias"):
            args.append(f"alias={f['alias']!r}")
        if f["eq"] == "f":
            args.append("eq=False")
        elif f["eq"] == "key":
            args.append("eq=KEY")
        elif f.get("fkey"):
            # harness-only: a falsy callable object as key; the unchanged tree drops it for eq and hash alike
            args.append("eq=FKEY")
        if f["hash"] is not None:
            args.append(f"hash={f['hash']}")
        lines.append(f"    {f.get('py', f['name'])} = attr.ib({', '.join(args)})")
    oh = c["ownHash"]
    if oh == "func":
        lines += ["    def __hash__(self):", "        return 7"]
    elif oh == "noneVal":
        lines.append("    __hash__ = None")
    elif oh == "delegate":
        lines += ["    def __hash__(self):", "        return super().__hash__()"]
    if c["ownEq"]:
        lines += ["    def __eq__(self, other):", "        return self is other"]
    if c["ownNe"]:
        lines += ["    def __ne__(self, other):", "        return self is not other"]
    if c["ownInit"]:
        lines += ["    def __init__(self, *args, **kwargs):", "        pass"]
    if c.get("pre"):
        lines += ["    def __attrs_pre_init__(self):", "        PRE_HOOK(self)"]
    if c.get("post"):
        lines += ["    def __attrs_post_init__(self):", "        POST_HOOK(self)"]
    if len(lines) == 1:
        lines.append("    pass")
    return "\n".join(lines)


_DECO = {"attrS": "attr.s", "define": "attrs.define", "frozen": "attrs.frozen"}


def _kind(cls, orig):
    d = cls.__dict__
    if "__hash__" not in d:
        return "inherited"
    h = d["__hash__"]
    if h is None:
        return "isNone"
    if orig is not None and h is orig:
        return "own"
    if callable(h):
        return "generated"
    return "other"


def _define_sides(ns, side):
    """further bases of the last class: S<i> (decorated unless plain), optionally under a plain SP<i>; returns the
    names the last class lists"""
    names = []
    for i, sd in enumerate(side):
        c = sd["cls"]
        base = [f"C{sd['via']}"] if sd.get("via") is not None else ["object"]
        exec(_class_src(0, c, "object", bases=base, name=f"S{i}"), ns)  # noqa: S102
        if c["api"] != "plain":
            deco = {"attrS": attr.s, "define": attrs.define, "frozen": attrs.frozen}[c["api"]]
            ns[f"S{i}"] = deco(**_kw(c))(ns[f"S{i}"])
        if sd.get("plainAbove"):
            exec(f"class SP{i}(S{i}):\n    pass", ns)  # noqa: S102
            names.append(f"SP{i}")
        else:
            names.append(f"S{i}")
    return names


PRIME_BASES = ["object", "frozen", "exc", "plain_hash"]


def _prime_decorator(d, prime, ns, k):
    """Harness-only history: the decorator OBJECT about to decorate class k is first applied to a priming class
    (own __eq__ / __ne__ / __hash__ / __init__, a frozen or exception base, a field).  A decorator object must not
    carry anything over from one class to the next, so the model is independent of this step; whatever the
    priming application does or raises is ignored."""
    base = prime.get("base", "object")
    if base == "frozen":
        if "_PF" not in ns:
            ns["_PF"] = attr.s(frozen=True)(type("_PF", (object,), {}))
        bname = "_PF"
    elif base == "exc":
        bname = "Exception"
    elif base == "plain_hash":
        if "_PH" not in ns:
            ns["_PH"] = type("_PH", (object,), {"__hash__": lambda self: 11})
        bname = "_PH"
    else:
        bname = "object"
    lines = [f"class P{k}({bname}):"]
    if prime.get("field"):
        lines.append("    p = attr.ib()")
    if prime.get("ownEq"):
        lines += ["    def __eq__(self, other):", "        return self is other"]
    if prime.get("ownNe"):
        lines += ["    def __ne__(self, other):", "        return self is not other"]
    oh = prime.get("ownHash", "no")
    if oh == "func":
        lines += ["    def __hash__(self):", "        return 5"]
    elif oh == "noneVal":
        lines.append("    __hash__ = None")
    if prime.get("ownInit"):
        lines += ["    def __init__(self, *args, **kwargs):", "        pass"]
    if len(lines) == 1:
        lines.append("    pass")
    try:
        exec("\n".join(lines), ns)  # noqa: S102
        d(ns[f"P{k}"])
    except BaseException:  # noqa: BLE001
        pass


def _build_chain(root, chain, register, side=(), side_first=False):
    """returns (kinds, classes or None, module, tag of the chain's key function). classes is None when a definition failed."""
    _BUILDS[0] += 1
    if _BUILDS[0] % 100 == 0:
        # all chains use the same class names: attrs probes <filename>, <filename>-1, ... in linecache for a free
        # slot, which gets quadratic unless the generated sources of earlier chains are dropped now and then
        common.purge_linecache()
    key = make_key()
    _LAST_KEY[0] = key
    ns = {"__name__": _MOD, "attr": attr, "attrs": attrs, "KEY": key, "FKEY": FalsyKey(key), "PRE_HOOK": _pre_hook,
          "POST_HOOK": _post_hook}
    mod = None
    if register:
        mod = types.ModuleType(_MOD)
        ns = mod.__dict__
        ns.update({"attr": attr, "attrs": attrs, "KEY": key, "FKEY": FalsyKey(key), "PRE_HOOK": _pre_hook,
                   "POST_HOOK": _post_hook})
    kinds, classes = [], []
    saved = sys.modules.get(_MOD)
    if mod is not None:
        sys.modules[_MOD] = mod
    try:
        for k, c in enumerate(chain):
            bases = None
            if side and k == len(chain) - 1:
                try:
                    snames = _define_sides(ns, side)
                except Exception:  # noqa: BLE001 -- the further bases are chosen so that they always define
                    kinds.append("other")
                    return kinds, None, mod, key.tag
                parent = [f"C{k - 1}"] if k else ([] if root == "object" else [root])
                bases = snames + parent if side_first else parent + snames
            try:
                exec(_class_src(k, c, root, bases=bases), ns)  # noqa: S102
            except Exception:  # noqa: BLE001 -- CPython refused the bases (layout / MRO)
                kinds.append("other")
                return kinds, None, mod, key.tag
            cls = ns[f"C{k}"]
            orig = cls.__dict__.get("__hash__")
            if c["api"] != "plain":
                deco = {"attrS": attr.s, "define": attrs.define, "frozen": attrs.frozen}[c["api"]]
                try:
                    d = deco(**_kw(c))
                    if c.get("prime"):
                        _prime_decorator(d, c["prime"], ns, k)
                    cls = d(cls)
                except TypeError:
                    kinds.append("typeError")
                    return kinds, None, mod, key.tag
                except ValueError:
                    kinds.append("valueError")
                    return kinds, None, mod, key.tag
                except Exception:  # noqa: BLE001
                    kinds.append("other")
                    return kinds, None, mod, key.tag
                ns[f"C{k}"] = cls
            kinds.append(_kind(cls, orig))
            classes.append(cls)
    finally:
        if mod is not None:
            if saved is None:
                sys.modules.pop(_MOD, None)
            else:
                sys.modules[_MOD] = saved
    return kinds, classes, mod, key.tag


def _root(case):
    if not case["excBase"]:
        return "object"
    r = case.get("cfg", {}).get("root", "Exception")
    return r if r in ROOTS else "Exception"


def _chain_key(root, chain, side=(), side_first=False):
    return repr((root, [sorted((k, repr(v)) for k, v in c.items()) for c in chain],
                 [(sorted((k, repr(v)) for k, v in sd["cls"].items()), sd.get("via"), sd.get("plainAbove")) for sd in side],
                 side_first))


def _define_decoys(root, chain, key):
    """Before the chain under observation is defined, define look-alikes of it -- same module, qualified names
    and field layout, their own key-function object: (1) an identical chain, when a field has a key function;
    (2) for a quarter of the chains, the chain with one option of its last attrs class flipped (cache_hash, frozen
    or slots).  Their classes are dropped again; what they leave behind inside attrs must not reach the real
    classes.  Deterministic per chain, so a replayed case sees the same definition history."""
    if any(f["eq"] == "key" for c in chain for f in c["fields"]):
        _build_chain(root, chain, register=False)
    h = zlib.crc32(key.encode())
    idx = [k for k, c in enumerate(chain) if c["api"] != "plain"]
    if idx and h % 4 == 0:
        k = idx[-1]
        flag = ("cacheHash", "frozen", "slots")[(h // 4) % 3]
        c = chain[k]
        flipped = dict(c, **{flag: "unset" if c[flag] == "t" else "t"})
        _build_chain(root, chain[:k] + [flipped] + chain[k + 1:], register=False)


def build(case):
    root = _root(case)
    side, side_first = case.get("side", []), case.get("sideFirst", False)
    key = _chain_key(root, case["chain"], side, side_first)
    need_twin = bool(case["insts"] or case["ops"])
    got = _CACHE.get(key)
    if got is None:
        if len(_CACHE) > 1500:
            _CACHE.clear()
            common.purge_linecache()
        _define_decoys(root, case["chain"], key)
        kinds, classes, mod, tag = _build_chain(root, case["chain"], register=True, side=side, side_first=side_first)
        got = [kinds, classes, None, mod, {tag}]
        _CACHE[key] = got
    if need_twin and got[1] is not None and got[2] is None:
        # the same chain without cache_hash (same module and qualified names, hence the same type salt)
        tchain = [dict(c, cacheHash="unset") for c in case["chain"]]
        _, got[2], _, ttag = _build_chain(root, tchain, register=False)
        got[4].add(ttag)
    return got


# ----------------------------------------------------------------------------------------------- observation
def _out(e):
    if isinstance(e, aexc.FrozenInstanceError):
        return "frozenInstance"
    if isinstance(e, AttributeError):
        return "attributeError"
    if isinstance(e, TypeError):
        return "typeError"
    return "other"


def _plain(out):
    return {"out": out, "vals": [], "sameUncached": False, "eqAlt": False, "hashAlt": False, "nKey": 0, "nVal": 0}


def _field_names(C):
    """(attribute names, __init__ parameter names) of the class, as attrs itself reports them"""
    try:
        fs = attr.fields(C)
    except Exception:  # noqa: BLE001  -- no attrs class in the chain
        return [], []
    return [a.name for a in fs], [a.alias for a in fs]


def _hash_op(C, T, names, x, alt, dirty=False):
    COUNT["key"] = COUNT["val"] = 0
    try:
        h = hash(x)
        out = "ok"
    except BaseException as e:  # noqa: BLE001
        h = None
        out = _out(e)
    n_key, n_val = COUNT["key"], COUNT["val"]
    try:
        vals = [getattr(x, n).n for n in names]
    except BaseException:  # noqa: BLE001
        vals = []
    same = False
    if out == "ok" and T is not None:
        try:
            same = hash(_mk(T, vals, dirty)) == h
        except BaseException:  # noqa: BLE001
            same = False
    eq_alt = hash_alt = False
    try:
        y = _mk(C, alt, dirty)
    except BaseException:  # noqa: BLE001
        y = None
    if y is not None:
        try:
            eq_alt = bool(x == y)
        except BaseException:  # noqa: BLE001
            eq_alt = False
        if out == "ok":
            try:
                hash_alt = hash(y) == h
            except BaseException:  # noqa: BLE001
                hash_alt = False
    return {"out": out, "vals": vals, "sameUncached": same, "eqAlt": eq_alt, "hashAlt": hash_alt,
            "nKey": n_key, "nVal": n_val}


def is_script(case):
    return case.get("kind") == "script"


def make_script_case(chain, rng):
    """T3: the chain alone; the observation is the parsed source of the last class's generated __hash__ (and of the
    twin's, defined without cache_hash)"""
    eqc, hcode, key_map = _rand_domain(rng)
    case = mk_case([dict(c, fields=[dict(f) for f in c["fields"]]) for c in chain], eqc=eqc, hcode=hcode, key_map=key_map)
    case["kind"] = "script"
    return case


def _script_ok(chain, root):
    """chains a script case may be made of (mirror of Script.wf, generator-side only)"""
    return (not root and sum(len(c["fields"]) for c in chain) <= 3 and not _k3_shape(chain)
            and not any(_is_legacy_or_mixed(c) for c in chain)
            and all(c["api"] == "plain" or (not c["ownInit"] and c["init"] in ("unset", "pyNone", "t")) for c in chain))


def _parse_leaf(chain):
    """define the chain afresh and parse its last class's own generated __hash__ at once (before any other
    definition can evict the source from linecache); None when there is no such method"""
    kinds, classes, _, _ = _build_chain("object", chain, register=False)
    if classes is None or kinds[-1] != "generated" or chain[-1]["api"] == "plain":
        return None
    keyed = [i for i, f in enumerate(f for c in chain if c["api"] != "plain" for f in c["fields"]) if f["eq"] == "key"]
    return c04_ir.parse_hash(classes[-1], _LAST_KEY[0], keyed)


def observe_script(case):
    chain = case["chain"]
    script = _parse_leaf(chain)
    twin = _parse_leaf([dict(c, cacheHash="unset") for c in chain]) if script is not None else None
    return {"script": script, "twin": twin}


def observe(case):
    if is_script(case):
        return observe_script(case)
    global EQC, HCODE, KEYMAP, ACTIVE_TAGS
    kinds, classes, twin, mod, tags = build(case)
    if classes is None or not (case["insts"] or case["ops"]):
        return {"classes": kinds, "results": []}
    saved_tables = (EQC, HCODE, KEYMAP)
    saved_tags = ACTIVE_TAGS
    ACTIVE_TAGS = tags
    saved_mod = sys.modules.get(_MOD)
    EQC, HCODE, KEYMAP = case["eqc"], case["hcode"], case["keyMap"]
    sys.modules[_MOD] = mod
    proto = case.get("cfg", {}).get("proto", pickle.HIGHEST_PROTOCOL)
    try:
        C, T = classes[-1], (twin[-1] if twin else None)
        names, aliases = _field_names(C)
        results = []
        try:
            dirty = any(c.get("post") for c in case["chain"])
            insts = [_mk(C, vals, dirty) for vals in case["insts"]]
        except BaseException:  # noqa: BLE001
            return {"classes": kinds, "results": [_plain("other") for _ in case["ops"]]}
        keep = []   # keeps every object alive so identity hashes stay distinct
        for op in case["ops"]:
            (name, arg), = op.items()
            i = arg["i"]
            x = insts[i] if i < len(insts) else None
            if x is None:
                results.append(_plain("other"))
                if name in ("copy", "deepcopy", "pickle", "evolve", "assoc"):
                    insts.append(None)
                continue
            if name == "hash":
                results.append(_hash_op(C, T, names, x, arg["alt"], dirty))
            elif name in ("copy", "deepcopy", "pickle", "evolve", "assoc"):
                try:
                    if name == "copy":
                        y = copy.copy(x)
                    elif name == "deepcopy":
                        y = copy.deepcopy(x)
                    elif name == "pickle":
                        y = pickle.loads(pickle.dumps(x, proto))
                    elif name == "assoc":
                        y = attr.assoc(x, **{names[f]: V(v) for f, v in arg["changes"]})
                    else:
                        y = attr.evolve(x, **{aliases[f]: V(v) for f, v in arg["changes"]})
                    insts.append(y)
                    results.append(_plain("ok"))
                except BaseException as e:  # noqa: BLE001
                    insts.append(None)
                    results.append(_plain(_out(e)))
            elif name == "set":
                try:
                    setattr(x, names[arg["f"]], V(arg["v"]))
                    results.append(_plain("ok"))
                except BaseException as e:  # noqa: BLE001
                    results.append(_plain(_out(e)))
            else:
                results.append(_plain("other"))
            keep.append(x)
        return {"classes": kinds, "results": results}
    finally:
        EQC, HCODE, KEYMAP = saved_tables
        ACTIVE_TAGS = saved_tags
        if saved_mod is None:
            sys.modules.pop(_MOD, None)
        else:
            sys.modules[_MOD] = saved_mod


# ----------------------------------------------------------------------------------------------- case construction
def cls_spec(api="attrS", **kw):
    c = {"api": api, "eq": "unset", "cmp": "unset", "hash": "unset", "unsafeHash": "unset", "init": "unset",
         "frozen": "unset", "slots": "unset", "autoDetect": "unset", "autoExc": "unset", "cacheHash": "unset",
         "getstateSetstate": "unset", "ownHash": "no", "ownEq": False, "ownNe": False, "ownInit": False, "fields": []}
    c.update(kw)
    return c


def mk_case(chain, exc_base=False, insts=(), ops=(), eqc=(0, 1, 2), hcode=(0, 1, 2), key_map=(0, 1, 2), **cfg):
    side = cfg.pop("side", [])
    side_first = cfg.pop("side_first", False)
    return {"excBase": exc_base, "chain": chain, "side": side, "sideFirst": side_first, "eqc": list(eqc),
            "hcode": list(hcode), "keyMap": list(key_map), "insts": [list(v) for v in insts], "ops": list(ops), "cfg": cfg}


def fld(name, eq="t", hash=None, py=None, alias=None):  # noqa: A002
    f = {"name": name, "eq": eq, "hash": hash}
    if py is not None:
        f["py"] = py        # the name as written in the class body (harness-only; `name` stays the logical name)
    if alias is not None:
        f["alias"] = alias  # explicit alias= (harness-only)
    return f


# Python mirror of the keyword defaults, used by generators only (to keep generated cases well-formed).
def _eff(c, name, default_attrs, default_define):
    v = c[name]
    if v != "unset":
        return _PY[v]
    if c["api"] == "attrS":
        return default_attrs
    if c["api"] == "frozen" and name == "frozen":
        return True
    return default_define


def _is_legacy_or_mixed(c):
    if c["api"] == "plain":
        return False
    cmp_ = _PY.get(c["cmp"]) if c["cmp"] != "unset" else None
    eq = _PY.get(c["eq"]) if c["eq"] != "unset" else None
    if cmp_ is not None and eq is not None:
        return True
    uh = _PY.get(c["unsafeHash"]) if c["unsafeHash"] != "unset" else None
    h = uh if uh is not None else (_PY.get(c["hash"]) if c["hash"] != "unset" else None)
    ad = _eff(c, "autoDetect", False, True)
    eq_ = cmp_ if cmp_ is not None else eq
    eq_on = eq_ if eq_ is not None else not (ad and (c["ownEq"] or c["ownNe"]))
    return h is False and eq_on


def _slots_eff(c):
    return bool(_eff(c, "slots", False, True))


def _copy_mode(chain):
    """Python mirror of Model.layoutOf.copyMode (generator-side only)"""
    inh = False
    flags = []
    for c in chain:
        if c["api"] == "plain":
            flags.append(False)
            continue
        gs = c["getstateSetstate"]
        h = _PY[gs] if gs in ("t", "f") else (_slots_eff(c) or inh)
        flags.append(h)
        inh = inh or h
    attrs_idx = [k for k, c in enumerate(chain) if c["api"] != "plain"]
    if attrs_idx and flags[attrs_idx[-1]]:
        return "state"
    if any(flags) or any(_slots_eff(chain[k]) for k in attrs_idx):
        return "unsupported"
    return "dict"


def _uniform(chain, exc_base=False):
    """may copy / deepcopy / pickle operations be used on instances of this chain"""
    return not exc_base and _copy_mode(chain) != "unsupported"


def _k3_shape(chain):
    """Python mirror of Spec.k3shape (generator-side filter only)"""
    fz = False
    info = []
    for c in chain:
        is_attrs = c["api"] != "plain"
        if is_attrs and bool(_eff(c, "frozen", False, False)):
            fz = True
        info.append((is_attrs, fz, is_attrs and _slots_eff(c), bool(c["fields"]), c["api"]))
    lf = info[::-1]
    while lf and not lf[0][0]:
        lf = lf[1:]
    if not lf:
        return False
    m, below = lf[0], lf[1:]
    if not (m[1] and not m[2]):
        return False
    if m[4] == "attrS":
        if not below:
            return False
        p = below[0]
        return not (p[0] and p[2]) and any(n[0] and n[2] and n[3] for n in below)
    return False


def _frozen_leaf(chain):
    return any(c["api"] != "plain" and bool(_eff(c, "frozen", False, False)) for c in chain)


# ----------------------------------------------------------------------------------------------- table stream
EXC_MODES = [(False, "unset"), (True, "unset"), (True, "t"), (True, "f")]


def _core_rows():
    return itertools.product(
        ["attrS", "define"], FLAGS, FLAGS, ["unset", "t"], [False, True], ["no", "func", "noneVal"],
        [False, True], ["unset", "t", "f"], EXC_MODES, ["unset", "t"])


def _rand_prime(rng):
    """a priming class for the decorator object (harness-only); own __eq__/__ne__/__hash__ most of the time"""
    return {"ownEq": rng.random() < 0.5, "ownNe": rng.random() < 0.3,
            "ownHash": rng.choice(["no", "no", "func", "noneVal"]), "ownInit": rng.random() < 0.15,
            "base": rng.choice(["object", "object", "frozen", "exc", "plain_hash"]), "field": rng.random() < 0.4}


def _table_case(row, rng, vary):
    api, eq, uh, frozen, frozen_base, own_hash, own_eq, ad, (exc_base, auto_exc), cache = row
    c = cls_spec(api, eq=eq, unsafeHash=uh, frozen=frozen, ownHash=own_hash, ownEq=own_eq, autoDetect=ad,
                 autoExc=auto_exc, cacheHash=cache)
    if vary:
        r = rng.random()
        if r < 0.25:
            # the legacy spelling, alone or together with unsafe_hash
            c["hash"] = rng.choice(FLAGS)
            if rng.random() < 0.5:
                c["unsafeHash"] = "unset"
        elif r < 0.4 and api == "attrS" and eq in ("unset", "pyNone"):
            c["cmp"] = rng.choice(FLAGS)
        if rng.random() < 0.2:
            c["init"] = rng.choice(FLAGS)
        if rng.random() < 0.15:
            c["ownInit"] = True
        if rng.random() < 0.2:
            c["ownNe"] = True
        if rng.random() < 0.4:
            c["slots"] = rng.choice(["t", "f"])
        if rng.random() < 0.1 and api == "define":
            c["api"] = "frozen"
            if rng.random() < 0.5:
                c["frozen"] = "unset"
        if rng.random() < 0.1:
            c["ownHash"] = "delegate"
        if rng.random() < 0.3:
            c["fields"] = [fld("a", rng.choice(["t", "f", "key"]), rng.choice([None, True, False]))]
        if rng.random() < 0.35:
            c["prime"] = _rand_prime(rng)
    chain = [c]
    if frozen_base:
        chain = [cls_spec(rng.choice(["attrS", "define", "frozen"]) if vary else "attrS", frozen="t")] + chain
        if vary and rng.random() < 0.3:
            # frozen-ness (and everything else) inherited through an undecorated class in between
            chain.insert(1, cls_spec("plain"))
    elif vary and rng.random() < 0.35:
        chain = [rng.choice(_BASES)()] + chain
    if _is_legacy_or_mixed(c):
        return None
    if exc_base:
        return mk_case(chain, exc_base=True, root=rng.choice(ROOTS))
    return mk_case(chain)


_BASES = [
    lambda: cls_spec("attrS", unsafeHash="t"),
    lambda: cls_spec("attrS", unsafeHash="t", cacheHash="t"),
    lambda: cls_spec("define"),
    lambda: cls_spec("attrS", eq="f"),
    lambda: cls_spec("plain", ownHash="func"),
    lambda: cls_spec("plain", ownHash="noneVal"),
    lambda: cls_spec("plain", ownEq=True),
    lambda: cls_spec("plain"),
    lambda: cls_spec("define", slots="f", unsafeHash="t", cacheHash="t"),
]


# ----------------------------------------------------------------------------------------------- instance stream
def _rand_fields(rng, names, mirror_bias):
    out = []
    for n in names:
        eq = rng.choice(["t", "t", "f", "key"])
        h = None if rng.random() < mirror_bias else rng.choice([True, False])
        out.append(fld(n, eq, h))
    return out


def _rand_inst_cls(rng, root):
    api = rng.choice(["attrS", "attrS", "define", "define", "frozen", "plain" if not root else "attrS"])
    if api == "plain":
        c = cls_spec("plain")
        r = rng.random()
        if r < 0.15:
            c["ownHash"] = "delegate"
        elif r < 0.2:
            c["ownHash"] = rng.choice(["func", "noneVal"])
        elif r < 0.25:
            c["ownEq"] = True
        return c
    c = cls_spec(api)
    c["slots"] = rng.choice(["unset", "unset", "t", "f"])
    c["frozen"] = rng.choice(["unset", "unset", "t"])
    mode = rng.random()
    if mode < 0.45:
        c["unsafeHash"] = "t"
    elif mode < 0.6:
        c["frozen"] = "t"
    elif mode < 0.8:
        c["eq"] = "f"
    elif mode < 0.9:
        c["ownHash"] = "delegate"
        c["autoDetect"] = "t" if api == "attrS" else "unset"
    if rng.random() < 0.15:
        c["hash"] = rng.choice(["t", "pyNone"])
    if rng.random() < 0.5:
        c["cacheHash"] = "t"
    if rng.random() < 0.3:
        c["getstateSetstate"] = rng.choice(["t", "t", "f", "pyNone"])
    if rng.random() < 0.12:
        c["prime"] = _rand_prime(rng)
    if rng.random() < 0.05:
        c["ownEq"] = True
    return c


def _rand_domain(rng):
    return rng.choice(EQCS), [rng.randrange(3) for _ in range(3)], [rng.randrange(3) for _ in range(3)]


def _rand_alt(rng, x, fields):
    """an alternative vector: mostly agreeing with x on some fields"""
    alt = list(x)
    for i in range(len(alt)):
        if rng.random() < 0.45:
            alt[i] = rng.randrange(3)
    return alt


def _alt_for(rng, nf):
    return [rng.randrange(3) for _ in range(nf)]


def _scripted_history(rng, chain, nf, n_insts, copy_ok):
    """hash, derive a new instance, (write to it), hash both again: where stale or lost caches show"""
    uniform = copy_ok
    frozen = _frozen_leaf(chain)
    i = rng.randrange(n_insts)
    j = n_insts
    ops = [{"hash": {"i": i, "alt": _alt_for(rng, nf)}}] if rng.random() < 0.8 else []
    kinds = ["evolve"] + (["copy", "deepcopy", "pickle"] * 2 + ["assoc"] * 3 if uniform else [])
    kind = rng.choice(kinds)
    if kind in ("evolve", "assoc"):
        # change sets of every size, single fields most often (a change that touches only one kind of field)
        k = rng.choice([0, 1, 1, 1, 2, nf]) if nf else 0
        k = min(k, nf)
        ops.append({kind: {"i": i, "changes": [[f, rng.randrange(3)] for f in rng.sample(range(nf), k)]}})
    else:
        ops.append({kind: {"i": i}})
    if nf and (not frozen or rng.random() < 0.1) and rng.random() < 0.7:
        ops.append({"set": {"i": j, "f": rng.randrange(nf), "v": rng.randrange(3)}})
    ops.append({"hash": {"i": j, "alt": _alt_for(rng, nf)}})
    if rng.random() < 0.5:
        ops.append({"hash": {"i": j, "alt": _alt_for(rng, nf)}})
    ops.append({"hash": {"i": i, "alt": _alt_for(rng, nf)}})
    return ops


def _rand_history(rng, chain, nf, n_insts, max_ops, copy_ok=None):
    if copy_ok is None:
        copy_ok = _uniform(chain)
    if rng.random() < 0.3:
        return _scripted_history(rng, chain, nf, n_insts, copy_ok)
    uniform = copy_ok
    frozen = _frozen_leaf(chain)
    ops = []
    n = n_insts
    hashed = set()
    vals = None
    for _ in range(rng.randint(1, max_ops)):
        r = rng.random()
        i = rng.randrange(n) if rng.random() < 0.5 else n - 1
        if r < 0.5:
            ops.append({"hash": {"i": i, "alt": [rng.randrange(3) for _ in range(nf)]}})
            hashed.add(i)
        elif r < 0.72 and uniform:
            ops.append({rng.choice(["copy", "deepcopy", "pickle"]): {"i": i}})
            n += 1
        elif r < 0.85:
            k = rng.randint(0, nf)
            ch = [[f, rng.randrange(3)] for f in rng.sample(range(nf), k)] if nf else []
            ops.append({("assoc" if uniform and rng.random() < 0.4 else "evolve"): {"i": i, "changes": ch}})
            n += 1
        elif nf and i not in hashed and (not frozen or rng.random() < 0.2):
            ops.append({"set": {"i": i, "f": rng.randrange(nf), "v": rng.randrange(3)}})
        else:
            ops.append({"hash": {"i": i, "alt": [rng.randrange(3) for _ in range(nf)]}})
            hashed.add(i)
    return ops


def _inst_cases(rng, chain, count=1, max_ops=8, pairs=None, root=None, script=False):
    """cases over one chain (built once): `count` random histories, or one pair block; `root` names an
    exception class the root class derives from"""
    nf = sum(len(c["fields"]) for c in chain if c["api"] != "plain")
    if any(_is_legacy_or_mixed(c) for c in chain) or _k3_shape(chain):
        return
    base_cfg = {"root": root} if root else {}
    exc = bool(root)
    eqc, hcode, key_map = _rand_domain(rng)
    case = mk_case(chain, exc_base=exc, eqc=eqc, hcode=hcode, key_map=key_map, **base_cfg)
    kinds, classes = build(dict(case, insts=[[0]]))[:2]
    if classes is None:
        yield case  # a definition error: still a row of the table
        return
    if script and _script_ok(chain, root):
        yield make_script_case(chain, rng)
    if pairs is not None:
        x, alts = pairs
        case["insts"] = [list(x)]
        case["ops"] = [{"hash": {"i": 0, "alt": list(a)}} for a in alts]
        yield case
        return
    copy_ok = _uniform(chain, exc)
    for _ in range(count):
        eqc, hcode, key_map = _rand_domain(rng)
        case = mk_case(chain, exc_base=exc, eqc=eqc, hcode=hcode, key_map=key_map, **base_cfg)
        n_insts = rng.choice([1, 1, 2])
        case["insts"] = [[rng.randrange(3) for _ in range(nf)] for _ in range(n_insts)]
        case["ops"] = _rand_history(rng, chain, nf, n_insts, max_ops, copy_ok)
        if rng.random() < 0.4:
            case["cfg"] = dict(base_cfg, proto=rng.choice([0, 1, 2, 3, 4, 5]))
        yield case


def _dress_hooks(rng, chain, p_post=0.25, p_fkey=0.15):
    """harness-only: init hooks on the first attrs class of the chain (inherited by the others) -- a post-init that
    hashes self, best effort, and then normalises the fields; a pre-init that hashes self -- and falsy key objects on
    fields compared without a key"""
    first = next((c for c in chain if c["api"] != "plain"), None)
    for c in chain:
        c.pop("post", None)
        c.pop("pre", None)
        for f in c["fields"]:
            f.pop("fkey", None)
            if f["eq"] == "t" and rng.random() < p_fkey:
                f["fkey"] = True
    if first is not None and not any(c["ownInit"] for c in chain):
        if rng.random() < p_post:
            first["post"] = True
        if rng.random() < p_post / 3:
            first["pre"] = True
    return chain


def _dress_names(rng, chain, p=0.35):
    """harness-only: write some fields under a private / dunder-like name or with an explicit alias, and swap
    the aliases of two fields of one class -- the attribute name and the __init__ parameter name then differ"""
    for c in chain:
        fs = c["fields"]
        plain = []
        for f in fs:
            f.pop("py", None)
            f.pop("alias", None)
            r = rng.random()
            if r < p * 0.4:
                f["py"] = "_" + f["name"]
            elif r < p * 0.6:
                f["py"] = "__" + f["name"]
            elif r < p * 0.8:
                f["alias"] = "x_" + f["name"]
            elif r < p:
                f["py"] = "_" + f["name"]
                f["alias"] = "y_" + f["name"]
            else:
                plain.append(f)
        if len(plain) >= 2 and rng.random() < p:
            f, g = rng.sample(plain, 2)
            f["alias"], g["alias"] = g["name"], f["name"]
    return chain


def _rand_chain(rng):
    depth = rng.choice([1, 1, 2, 2, 2, 3])
    chain = [_rand_inst_cls(rng, root=(k == 0)) for k in range(depth)]
    names = list(FIELD_NAMES[:rng.choice([0, 1, 2, 2, 3, 3])])
    attrs_idx = [k for k, c in enumerate(chain) if c["api"] != "plain"]
    mirror = rng.choice([0.4, 0.7, 1.0])
    for n in names:
        if attrs_idx:
            k = rng.choice(attrs_idx)
            chain[k]["fields"] = chain[k]["fields"] + _rand_fields(rng, [n], mirror)
    # keep field order = chain order
    order = 0
    for c in chain:
        for f in c["fields"]:
            f["name"] = FIELD_NAMES[order]
            order += 1
    return _dress_hooks(rng, _dress_names(rng, chain))


def _templates():
    """hand-written shapes: every known-finding shape and its healthy neighbours"""
    A = [fld("a")]
    B = [fld("b")]
    for base_slots in ("t", "f"):
        for sub_slots in ("t", "f"):
            base = lambda **kw: cls_spec("attrS", unsafeHash="t", cacheHash="t", slots=base_slots, fields=A, **kw)  # noqa: E731
            yield [base(), cls_spec("attrS", eq="f", slots=sub_slots, fields=B)]                       # K1
            yield [base(), cls_spec("attrS", autoDetect="t", ownHash="delegate", slots=sub_slots, fields=B)]   # K1
            yield [base(), cls_spec("define", ownHash="delegate", slots=sub_slots, fields=B)]           # K1
            yield [base(), cls_spec("attrS", unsafeHash="t", slots=sub_slots, fields=B)]
            yield [base(), cls_spec("attrS", unsafeHash="t", cacheHash="t", slots=sub_slots, fields=B)]
            yield [base(), cls_spec("attrS", unsafeHash="t", cacheHash="t", frozen="t", slots=sub_slots, fields=B)]  # K2 if t/f
            yield [base(frozen="t"), cls_spec("attrS", cacheHash="t", slots=sub_slots, fields=B)]        # K2 if t/f
            yield [base(frozen="t"), cls_spec("attrS", eq="f", slots=sub_slots, fields=B)]               # K1
            yield [base(), cls_spec("plain")]
            yield [base(), cls_spec("plain", ownHash="delegate")]
            yield [base(), cls_spec("plain"), cls_spec("attrS", eq="f", slots=sub_slots, fields=B)]      # K1
            yield [base(), cls_spec("attrS", eq="f", slots=sub_slots, fields=B), cls_spec("plain")]      # K1
    for api in ("attrS", "define", "frozen"):
        for cache in ("unset", "t"):
            yield [cls_spec(api, unsafeHash="t", cacheHash=cache, fields=[fld("a"), fld("b", "key"), fld("c", "f")])]
            yield [cls_spec(api, frozen="t", cacheHash=cache, fields=[fld("a", "key"), fld("b", "t", False)])]
            yield [cls_spec(api, frozen="t", cacheHash=cache, fields=[fld("a", "f", True), fld("b")])]


def _pair_block(rng, k_max):
    """all instance pairs over {0,1,2}^k for every per-field eq x hash setting (k <= k_max)"""
    settings = [(e, h) for e in ("t", "f", "key") for h in (None, True, False)]
    for k in range(1, k_max + 1):
        vecs = list(itertools.product(range(3), repeat=k))
        for combo in itertools.product(settings, repeat=k):
            fields = [fld(FIELD_NAMES[i], e, h) for i, (e, h) in enumerate(combo)]
            for x in vecs:
                cache = rng.choice(["unset", "t"])
                api = rng.choice(["attrS", "define", "frozen"])
                chain = [cls_spec(api, unsafeHash="t", cacheHash=cache, slots=rng.choice(["unset", "t", "f"]),
                                  fields=fields)]
                if rng.random() < 0.25 and k >= 2:
                    # split the fields over a base and a subclass
                    chain = [cls_spec("attrS", unsafeHash="t", fields=fields[:1]),
                             cls_spec(api, unsafeHash="t", cacheHash=cache, fields=fields[1:])]
                yield chain, (x, vecs)


def _change_block(rng, k_max):
    """hash, then assoc / evolve with every non-empty set of changed fields, for every per-field eq x hash
    setting (k <= k_max), then hash the result and the original again"""
    settings = [(e, h) for e in ("t", "f", "key") for h in (None, True, False)]
    for k in range(1, k_max + 1):
        for combo in itertools.product(settings, repeat=k):
            fields = [fld(FIELD_NAMES[i], e, h) for i, (e, h) in enumerate(combo)]
            for mask in range(1, 2 ** k):
                for kind in ("assoc", "evolve"):
                    cache = "t" if rng.random() < 0.8 else "unset"
                    api = rng.choice(["attrS", "attrS", "define", "frozen"])
                    slots = "f" if rng.random() < 0.6 else rng.choice(["unset", "t"])
                    chain = [cls_spec(api, unsafeHash="t", cacheHash=cache, slots=slots,
                                      getstateSetstate=rng.choice(["unset", "unset", "t"]),
                                      fields=[dict(f) for f in fields])]
                    x = [rng.randrange(3) for _ in range(k)]
                    ch = [[f, (x[f] + rng.choice([1, 2])) % 3] for f in range(k) if mask >> f & 1]
                    y = list(x)
                    for f, v in ch:
                        y[f] = v
                    ops = [{"hash": {"i": 0, "alt": list(y)}}, {kind: {"i": 0, "changes": ch}},
                           {"hash": {"i": 1, "alt": list(x)}}, {"hash": {"i": 1, "alt": list(y)}},
                           {"hash": {"i": 0, "alt": list(x)}}]
                    yield chain, x, ops


def _side(api="plain", via=None, plain_above=False, **kw):
    return {"cls": cls_spec(api, **kw), "via": via, "plainAbove": plain_above}


def _layout_ok(chain, side):
    """Python mirror of Spec.layoutOk (generator-side only)"""
    sl = lambda c: c["api"] != "plain" and _slots_eff(c)  # noqa: E731
    chain_sl = any(sl(c) for c in chain[:-1])
    n = (1 if chain_sl else 0) + sum(1 for sd in side if sl(sd["cls"]))
    return n <= 1 and all(sd.get("via") is None or (not sl(sd["cls"]) and not chain_sl) for sd in side)


def _mi_rows():
    """multiple inheritance for 'frozen, also by inheritance': the last class below a chain parent and one or two
    further bases, in both orders"""
    parents = {
        "none": [],
        "plain": [cls_spec("plain")],
        "mutable": [cls_spec("attrS")],
        "mutable_define_dict": [cls_spec("define", slots="f")],
        "frozen_dict": [cls_spec("attrS", frozen="t")],
        "frozen_slotted": [cls_spec("define", frozen="t")],
        "frozen_via_plain": [cls_spec("attrS", frozen="t"), cls_spec("plain")],
        "frozen_grandparent": [cls_spec("frozen", slots="f"), cls_spec("define", slots="f")],
    }
    sides = {
        "plain": lambda: _side(),
        "mutable": lambda: _side("attrS"),
        "mutable_slotted": lambda: _side("define"),
        "frozen_dict": lambda: _side("attrS", frozen="t"),
        "frozen_define_dict": lambda: _side("define", frozen="t", slots="f"),
        "frozen_slotted": lambda: _side("frozen"),
        "frozen_under_plain": lambda: _side("attrS", frozen="t", plain_above=True),
        "frozen_api_dict": lambda: _side("frozen", slots="f"),
        "diamond_plain": lambda: _side("plain", via=0),
        "diamond_mutable": lambda: _side("attrS", via=0),
        "diamond_frozen": lambda: _side("attrS", via=0, frozen="t"),
    }
    leaves = [
        lambda: cls_spec("attrS"), lambda: cls_spec("define", slots="f"), lambda: cls_spec("define"),
        lambda: cls_spec("attrS", eq="f"), lambda: cls_spec("attrS", unsafeHash="t"),
        lambda: cls_spec("attrS", frozen="t"), lambda: cls_spec("define", slots="f", cacheHash="t"),
        lambda: cls_spec("attrS", autoDetect="t", ownHash="func"), lambda: cls_spec("plain"),
        lambda: cls_spec("frozen", slots="f", frozen="f"),
    ]
    for pname, parent in parents.items():
        for s1 in sides:
            for s2 in [None, "plain", "mutable", "frozen_dict", "frozen_under_plain"]:
                if s2 == s1:
                    continue
                for first in (False, True):
                    for leaf in leaves:
                        side = [sides[s1]()] + ([sides[s2]()] if s2 else [])
                        if any(sd["via"] is not None for sd in side) and (not parent or (len(parent) == 1 and not first)):
                            continue
                        chain = [dict(c) for c in parent] + [leaf()]
                        if _layout_ok(chain, side) and not any(_is_legacy_or_mixed(c) for c in chain):
                            yield mk_case(chain, side=side, side_first=first)


def gen_cases(tier, rng):
    quick = tier == "quick"
    # ---- reused decorator objects: every core row once more behind a priming class
    def reuse_rows():
        rows2 = list(_core_rows())
        rng.shuffle(rows2)
        for row in (rows2[:1200] if quick else rows2):
            c = _table_case(row, rng, vary=False)
            if c is not None:
                c["chain"][-1]["prime"] = _rand_prime(rng)
                yield c

    yield from reuse_rows()
    # ---- multiple inheritance rows of the decision table
    mi = list(_mi_rows())
    rng.shuffle(mi)
    yield from (mi[:700] if quick else mi)
    n_chain = [0]

    def want_script():
        """T3: every chain in the thorough tier, every 10th in the quick tier"""
        n_chain[0] += 1
        return not quick or n_chain[0] % 10 == 0

    # ---- class-level decision table
    rows = list(_core_rows())
    rng.shuffle(rows)
    n_core = 2500 if quick else len(rows)
    for row in rows[:n_core]:
        c = _table_case(row, rng, vary=False)
        if c is not None:
            yield c
    for row in (rows[n_core:n_core + 2200] if quick else rows * 3):
        c = _table_case(row, rng, vary=True)
        if c is not None:
            yield c
            if (not c["excBase"] and c["chain"][-1]["fields"] and want_script() and _script_ok(c["chain"], None)):
                yield make_script_case(c["chain"], rng)
    # ---- templates with random histories
    for chain in _templates():
        for gs in ("unset", "t"):
            ch = [dict(k, fields=[dict(f) for f in k["fields"]]) for k in chain]
            if gs == "t":
                # the generated __getstate__/__setstate__ also on dict classes
                ch = [dict(k, getstateSetstate="t") if k["api"] != "plain" else k for k in ch]
            yield from _inst_cases(rng, _dress_hooks(rng, _dress_names(rng, ch, p=0.25), 0.35, 0.2), count=2 if quick else 20, script=want_script())
    # ---- instance pairs
    if quick:
        blocks = list(_pair_block(rng, 1))
        two = list(_pair_block(rng, 2))
        blocks += rng.sample(two, 500)
    else:
        blocks = _pair_block(rng, 2)
    for chain, pairs in blocks:
        yield from _inst_cases(rng, _dress_hooks(rng, _dress_names(rng, chain), 0.2, 0.3), pairs=pairs, script=want_script())
    # ---- change sets of assoc / evolve after a hash
    for chain, x, ops in itertools.chain.from_iterable(_change_block(rng, 2) for _ in range(2 if quick else 8)):
        if _k3_shape(chain):
            continue
        eqc, hcode, key_map = _rand_domain(rng)
        case = mk_case(_dress_hooks(rng, _dress_names(rng, chain, p=0.2), 0.3, 0.15), eqc=eqc, hcode=hcode, key_map=key_map, insts=[x], ops=ops)
        if build(case)[1] is not None:
            yield case
            if want_script() and _script_ok(case["chain"], None):
                yield make_script_case(case["chain"], rng)
    # ---- random chains and histories
    for _ in range(2800 if quick else 60000):
        root = rng.choice(ROOTS) if rng.random() < 0.12 else None
        yield from _inst_cases(rng, _rand_chain(rng), count=4 if quick else 8, root=root, script=want_script())


# ----------------------------------------------------------------------------------------------- reporting
def _default_row(c):
    return c == cls_spec("attrS", fields=c["fields"])


def nontrivial(case, model):
    if is_script(case):
        return bool(model) and model.get("script") is not None
    if any(isinstance(op, dict) and "hash" in op for op in case["ops"]):
        return bool(model) and "generated" in model.get("classes", [])
    return len(case["chain"]) > 1 or not _default_row(case["chain"][-1])


def _script_dist(case, obs):
    sc = obs.get("script") if isinstance(obs, dict) else None
    body = (sc or {}).get("body", [])
    ops = [o for st in body if isinstance(st, dict) for v in st.values() if isinstance(v, dict)
           for o in (v.get("e") or {}).get("operands", [])]
    return {"stream": "script", "script": "none" if sc is None else ("cached" if isinstance(sc.get("params"), dict) and "cached" in sc["params"] else "plain"),
            "script_operands": len(ops),
            "script_unknown": sum(1 for st in body if isinstance(st, dict) and "unknown" in st)
            + sum(1 for o in ops if isinstance(o, dict) and "unknown" in o),
            "script_keyed": sum(1 for o in ops if isinstance(o, dict) and "keyed" in o),
            "leaf_api": case["chain"][-1]["api"], "depth": len(case["chain"])}


def dist(case, obs):
    if is_script(case):
        return _script_dist(case, obs)
    leaf = case["chain"][-1]
    kinds = obs.get("classes", []) if isinstance(obs, dict) else []
    res = obs.get("results", []) if isinstance(obs, dict) else []
    d = {
        "stream": "instances" if case["ops"] else ("table_mi" if case.get("side") else "table"),
        "depth": len(case["chain"]),
        "leaf_api": leaf["api"],
        "leaf_kind": kinds[-1] if kinds else "?",
        "n_fields": sum(len(c["fields"]) for c in case["chain"]),
        "n_ops": len(case["ops"]),
        "exc_base": case["excBase"],
        "primed": any(bool(c.get("prime")) for c in case["chain"]),
        "hooks": "+".join(h for h in ("pre", "post") if any(c.get(h) for c in case["chain"])) or "-",
        "falsy_keys": sum(1 for c in case["chain"] for f in c["fields"] if f.get("fkey")),
    }
    if case["ops"]:
        d["ops"] = "+".join(sorted({next(iter(op)) for op in case["ops"]}))
        d["hash_outs"] = "+".join(sorted({r["out"] for r, op in zip(res, case["ops"]) if "hash" in op})) or "-"
        d["cached_leaf"] = leaf["cacheHash"] == "t"
    return d


def shrink(case):
    for k, c in enumerate(case["chain"]):
        if c.get("prime"):
            c2 = {kk: v for kk, v in c.items() if kk != "prime"}
            yield dict(case, chain=case["chain"][:k] + [c2] + case["chain"][k + 1:])
            for pk, dv in (("ownEq", False), ("ownNe", False), ("ownHash", "no"), ("ownInit", False), ("base", "object"), ("field", False)):
                if c["prime"].get(pk, dv) != dv:
                    c3 = dict(c, prime=dict(c["prime"], **{pk: dv}))
                    yield dict(case, chain=case["chain"][:k] + [c3] + case["chain"][k + 1:])
    side = case.get("side", [])
    for i in range(len(side)):
        rest = side[:i] + side[i + 1:]
        if _layout_ok(case["chain"], rest):
            yield dict(case, side=rest)
    for i, sd in enumerate(side):
        if sd.get("plainAbove"):
            yield dict(case, side=side[:i] + [dict(sd, plainAbove=False)] + side[i + 1:])
    if side:
        # with further bases only the flags of the classes are shrunk below (the chain keeps its length)
        pass
    ops = case["ops"]
    for i in range(len(ops) - 1, -1, -1):
        (name, _), = ops[i].items()
        if name in ("hash", "set"):   # removing these keeps later instance indices valid
            yield dict(case, ops=ops[:i] + ops[i + 1:])
    if ops:
        yield dict(case, ops=ops[:-1])
    if len(case["insts"]) > 1 and all(next(iter(op.values()))["i"] == 0 for op in ops) and not any(
            next(iter(op)) in ("copy", "deepcopy", "pickle", "evolve", "assoc") for op in ops):
        yield dict(case, insts=case["insts"][:1])
    base = cls_spec()
    for k, c in enumerate(case["chain"]):
        for key, v in base.items():
            if key in ("fields", "api"):
                continue
            if c[key] != v and c["api"] != "plain":
                c2 = dict(c, **{key: v})
                if not _is_legacy_or_mixed(c2):
                    yield dict(case, chain=case["chain"][:k] + [c2] + case["chain"][k + 1:])
    for k, c in enumerate(case["chain"]):
        for hk in ("post", "pre"):
            if c.get(hk):
                c2 = {kk: v for kk, v in c.items() if kk != hk}
                yield dict(case, chain=case["chain"][:k] + [c2] + case["chain"][k + 1:])
        if any(f.get("fkey") for f in c["fields"]):
            c2 = dict(c, fields=[{kk: v for kk, v in f.items() if kk != "fkey"} for f in c["fields"]])
            yield dict(case, chain=case["chain"][:k] + [c2] + case["chain"][k + 1:])
    for k, c in enumerate(case["chain"]):
        if any("py" in f or "alias" in f for f in c["fields"]):
            c2 = dict(c, fields=[{kk: v for kk, v in f.items() if kk not in ("py", "alias")} for f in c["fields"]])
            yield dict(case, chain=case["chain"][:k] + [c2] + case["chain"][k + 1:])
    if case["excBase"] and case.get("cfg", {}).get("root", "Exception") != "Exception":
        yield dict(case, cfg=dict(case.get("cfg", {}), root="Exception"))
    if (not case["ops"] and not case["insts"] and len(case["chain"]) > 1 and not case["chain"][0]["fields"]
            and not any(sd.get("via") is not None for sd in case.get("side", []))):
        yield dict(case, chain=case["chain"][1:])
    for key, v in (("eqc", [0, 1, 2]), ("hcode", [0, 1, 2]), ("keyMap", [0, 1, 2])):
        if case[key] != v:
            yield dict(case, **{key: v})


def neighbours(case, rng):
    if is_script(case):
        # the text differs from the model's: look for a history of that chain on which the behaviour differs
        base = {k: v for k, v in case.items() if k != "kind"}
        chain = case["chain"]
        nf = sum(len(c["fields"]) for c in chain if c["api"] != "plain")
        for _ in range(60):
            c2 = dict(base)
            c2["insts"] = [[rng.randrange(3) for _ in range(nf)] for _ in range(rng.choice([1, 2]))]
            c2["ops"] = _rand_history(rng, chain, nf, len(c2["insts"]), 8, _uniform(chain, False))
            c2["eqc"], c2["hcode"], c2["keyMap"] = _rand_domain(rng)
            yield c2
        return
    chain = case["chain"]
    for k, c in enumerate(chain):
        if c["api"] == "plain":
            continue
        for key in ("eq", "unsafeHash", "hash", "frozen", "slots", "autoDetect", "cacheHash", "autoExc", "getstateSetstate"):
            for v in (FLAGS if key in ("eq", "unsafeHash", "hash") else ["unset", "t", "f"]):
                if c[key] != v:
                    c2 = dict(c, **{key: v})
                    if not _is_legacy_or_mixed(c2):
                        cand = dict(case, chain=chain[:k] + [c2] + chain[k + 1:])
                        if case["ops"] and not _uniform(cand["chain"], case["excBase"]) and any(
                                next(iter(op)) in ("copy", "deepcopy", "pickle", "assoc") for op in case["ops"]):
                            continue
                        yield cand
    nf = sum(len(c["fields"]) for c in chain if c["api"] != "plain")
    if case["insts"]:
        for _ in range(40):
            c2 = dict(case)
            c2["insts"] = [[rng.randrange(3) for _ in range(nf)] for _ in case["insts"]]
            c2["ops"] = _rand_history(rng, chain, nf, len(c2["insts"]), 8, _uniform(chain, case["excBase"]))
            c2["eqc"], c2["hcode"], c2["keyMap"] = _rand_domain(rng)
            yield c2
    yield from shrink(case)


LEVEL_TEXT = (
    "Machine-checked (Lean 4, no sorry, axioms within propext/Classical.choice/Quot.sound) about an executable model of "
    "attrs.wrap's hash block with attr.s/define/frozen keyword defaults read from the source, _make_hash_script, and the "
    "hash-cache life cycle (__init__ cache line, cache slot, __setstate__, _CacheHashWrapper): C04_table (for every class "
    "outside the excluded legacy row the branch the code takes is generated / unhashable / untouched iff the documented "
    "condition, and the three documented conditions partition those classes; auto_exc, own-__hash__ detection incl. the "
    "implicit None, unsafe_hash-over-hash precedence, cache_hash errors characterised); C04_function_of_participating, "
    "C04_nonparticipating_irrelevant, C04_eq_implies_hash (arbitrary field lists and value vectors, abstract value "
    "hash/==/key and combining function, under a == b -> hash a = hash b); C04_stable; C04_cache_once (any history from any "
    "state: at most one computing call per instance; without field writes every result is the uncached value); "
    "C04_never_raises (every hash call of a well-formed history succeeds outside K1/K2) and C04_known_shapes_fail (inside "
    "K1/K2 every hash call fails, so the known predicates suppress nothing that passes); witnesses for K1, K2, K5; "
    "C04_K5_needs_write; C04_model_meets_spec (the model satisfies the declarative specification on every well-formed case "
    "under no known predicate). The model is tied to the code by a differential correspondence: the class-level table "
    "(all 18 432 core definitions in the thorough tier plus ~55 000 varied ones, observing whether C.__hash__ is None / own / "
    "inherited / attrs-generated or the decorator's error) and instance histories over scripted values with call counting "
    "(about 4 x 10^5 cases per thorough run). Observed, not proved: CPython's implicit __hash__ = None, slot-vs-dict lookup, "
    "copy/pickle machinery, tuple hashing (hashes are only compared for equality), and that the generated source is what "
    "the model says beyond T3 below."
    " T3 (translation validation of the generated __hash__ text): `C04_script_correct` proves, for arbitrary field "
    "lists, frozen or not, caching or not, every layout and every instance state, that executing the script the model "
    "generator emits (`genHashOf`: salt, the participating fields in order, key helpers, and the cache read / fill / "
    "return statements) is exactly the model's hash call; the `script` cases check per sampled class that the parsed real "
    "source (both the class's and its uncached twin's) is syntactically that script, and execute the observed scripts in "
    "Lean on all value-vector pairs of the case's domain against the same local specification. So on every class whose "
    "script agrees, the theorems above are about the text that really runs, not only about sampled calls; a rewrite of "
    "the emitted text that keeps the behaviour is reported as a broken tie (`no-failing-input-found`), a script hashing "
    "something else as a violation with the value vectors."
)
