"""C10 -- copy / deepcopy / pickle round trip keeps all fields, never carries a cached hash.

Case = the Lean `Attrs.C10.Case`: a single-inheritance chain of class specifications (root first; attrs
classes with slots / frozen / cache_hash / weakref_slot / getstate_setstate / auto_detect / own
`__getstate__`+`__setstate__` / eq / unsafe_hash / collect_by_mro and 0..3 own fields, or plain classes with
or without `__slots__`), the operation (copy.copy, copy.deepcopy, pickle protocol 0..5, or a direct
`__setstate__` call with a legacy tuple state) and the history (hash computed before, one field changed after
that, init=False fields assigned).  Harness-only keys (`api`, `explicit`, `gsExplicitNone`, `hashKw` per class;
`cfg.mutateHow`, `cfg.pickler`) vary how the same specification is written / exercised; the model ignores them.
"""
from __future__ import annotations

import itertools

import c10_build as B
import c10_ref as R

ID = "C10"
RULE = ("cases = chain of 1..3 classes (attrs: slots x frozen x cache_hash x weakref_slot x getstate_setstate{None,T,F} x "
        "auto_detect x own __getstate__/__setstate__ x eq x unsafe_hash x collect_by_mro x 0..3 own fields (init or "
        "init=False, written through attr.s / attrs.define / attrs.frozen class statements, attr.s(these=...) or attr.make_class(...) called from the "
        "synthetic module's own code (classes are exec'd inside the module, a quarter of them nested in a namespace class: __module__/__qualname__ arise as for a user), int/str/mutable-box valued -- int-valued fields hold, with probability 0.4, an unusual value instead: attr.NOTHING, None, "
        "NotImplemented, Ellipsis, False, 0, '', (), NaN, an int subclass, the cache field's name as a string, an instance of the same "
        "class (harness-only variation: the model sees opaque tokens) --, names shared between classes so fields are inherited and re-declared); "
        "field names include private ones (`_p`; `_x`/`_y` with init=False, whose __init__ alias coincides with that of `x`/`y`) and explicit alias= "
        "(preferably equal to the alias of an init=False field of the chain); chains whose init fields all have a plain default (the very object "
        "standing for the value) or a factory, built without passing anything, and histories where a field is changed and set back to the same "
        "object (all harness-only variation); "
        "decorator-object histories: for most class-statement classes `deco = attr.s(...)` / `define(...)` / `frozen(...)` is created once in the "
        "synthetic module and applied first to a priming class (hand-written state methods / stand-alone / bare subclass of the same base), "
        "then to the class under test -- every class of a chain independently; "
        "a dunder-like field name (`__meta__`); HISTORIES of definitions: for half of the chains the same module + qualnames were defined and used "
        "(constructed, copied, pickled) once before with the same options and number of fields but other field names, or the same names in "
        "reverse order (harness-only: the model knows no earlier definition); "
        "plain classes without / with empty / with named __slots__; a fifth of the chains rooted at Exception with auto_exc=True (copied through "
        "BaseException.__reduce__ as cls(*args) + __setstate__(__dict__)); chains whose init fields all have default factories, left unpassed at "
        "construction (the factory yields the field's value while the harness builds an instance and a DIFFERENT value whenever it runs during "
        "the operation, so any re-derived field shows)) x operation (copy, deepcopy, pickle protocol 0..5 "
        "with the C and the Python pickler, legacy tuple __setstate__ of several lengths) x history (hashed before, one "
        "field changed after hashing by assignment / in place / raw, init=False fields assigned). Single classes are "
        "enumerated exhaustively over the option space, chains of 2 and 3 by a structured random generator biased to "
        "mixed slotted/dict chains; only well-formed cases (every field set on the original) are emitted. "
        "non-trivial = the class has at least one field and the operation succeeded in the model; distinct = distinct JSON case")
ASSUMPTIONS = [
    "CPython 3.12's object.__reduce_ex__/copyreg/copy/pickle are modelled only as far as attrs relies on them (default state "
    "None / __dict__ / (dict, slotsdict), protocols 0/1 refusing __slots__ without __getstate__ and dropping a falsy state, "
    "__setstate__ called iff resolvable and the state is not None, slot state restored with setattr) and diff-tested here",
    "attribute lookup is modelled as: a slot descriptor anywhere along the MRO shadows the instance __dict__",
    "own __getstate__/__setstate__ written by the user are well behaved (all fields of type(self), cache reset)",
    "single-inheritance chains of at most 3 classes; no converters/validators/hooks; all fields take part in eq and hash",
    "unusual field values are harness-only: the verdict must be the same for every value; NaN (unequal to itself) is used only where "
    "nothing compares or hashes it by value (no generated __eq__; copy/deepcopy or no generated __hash__) and is recognised by v != v",
    "exception chains: every attrs class has auto_exc=True, no getstate_setstate=False, no user-written state methods, no legacy tuple call, "
    "no kw_only fields; `args` is modelled as the construction-time value of each init field (an in-place change is visible through it, an "
    "assignment is not); a factory whose result is attr.NOTHING is not used (NOTHING as an *argument* means 'not passed')",
    "hash equality is compared as a pattern (hash(copy) == hash(fresh equal instance)), assuming no collision between the few distinct tokens",
]
EXHAUSTIVE = {"quick": False, "thorough": False}
BUDGET_S = {"quick": 36, "thorough": 400}
TABLES = ["hashCacheField"]
PARALLEL = True

observe = B.observe

NAMES = B.FIELD_NAMES
KINDS = ["int", "str", "box"]


# ------------------------------------------------------------------------------------------------ classes
def plain_cls(slots=False, plain_slots=(), user_gs=False):
    return {"kind": "plain", "slots": slots, "plainSlots": list(plain_slots), "frozen": False, "cacheHash": False,
            "weakrefSlot": True, "gs": "none", "autoDetect": False, "userGS": user_gs, "eq": True,
            "unsafeHash": False, "collectByMro": False, "fields": []}


def attrs_cls(fields, slots=False, frozen=False, cache=False, weakref=True, gs="none", auto_detect=False,
              user_gs=False, eq=True, unsafe_hash=False, by_mro=False, api="attr.s", explicit=True,
              gs_explicit_none=False, hash_kw="unsafe_hash", front="class"):
    return {"kind": "attrs", "slots": slots, "plainSlots": [], "frozen": frozen, "cacheHash": cache,
            "weakrefSlot": weakref, "gs": gs, "autoDetect": auto_detect, "userGS": user_gs, "eq": eq,
            "unsafeHash": unsafe_hash, "collectByMro": by_mro, "fields": fields,
            "api": api, "explicit": explicit, "gsExplicitNone": gs_explicit_none, "hashKw": hash_kw, "front": front}


SPECIALS = sorted(B.SPECIALS)


def _fields(rng, n, pool=NAMES, p_init=0.85):
    fs = [{"name": nm, "init": rng.random() < p_init and nm not in ("_x", "_y"), "kind": rng.choice(KINDS)}
          for nm in rng.sample(pool, min(n, len(pool)))]       # `_x` / `_y` share their __init__ alias with `x` / `y`: init=False
    return add_specials(fs, rng)


def add_specials(fields, rng, p=0.4):
    """harness-only: an int-valued field may hold an unusual value instead (attr.NOTHING, None, NotImplemented,
    Ellipsis, falsy values, NaN, an int subclass, the cache field's name, an instance of the same class)"""
    for f in fields:
        if f["kind"] == "int" and rng.random() < p:
            f["special"] = rng.choice(SPECIALS)
    return fields


def _nan_ok(chain, op):
    """NaN is unequal to itself: only where nothing compares or hashes it by value"""
    if R.resolve_eq(chain) is not None:
        return False
    return op in ("copy", "deepcopy") or R.resolve_hash(chain)[0] != "gen"


def _settle_specials(chain, op, rng):
    """per case: replace NaN where Python's own semantics would break equality"""
    if not any(f.get("special") == "nan" for c in chain for f in c["fields"]) or _nan_ok(chain, op):
        return chain
    return [dict(c, fields=[dict(f, special="none") if f.get("special") == "nan" else f for f in c["fields"]]) for c in chain]


def vary_front(c, rng):
    """harness-only: which front-end writes the class -- a decorated class statement (attr.s / define / frozen),
    `attr.s(these=...)`, or `attr.make_class(...)` called from the synthetic module's own code"""
    if c["kind"] != "attrs":
        return c
    if c["api"] == "attr.s":
        c["front"] = rng.choice(["class", "class", "these", "make_class", "make_class"])
    elif c["api"] == "define" and c["frozen"] and rng.random() < 0.5:
        c["api"] = "frozen"
    c["nested"] = rng.random() < 0.25        # class statement inside a namespace class: dotted __qualname__
    # history of definitions (read on the last class of a chain): the same module + qualnames were defined and used
    # before with other field names / another field order
    c["decoy"] = rng.choice([None, None, None, "rename", "rename", "reverse"])
    # history of the decorator object (class-statement front-ends): created once, applied to a priming class first
    c["prime"] = rng.choice([None, None, "own", "alone", "base"])
    return c


def rand_attrs_cls(rng, pool=NAMES):
    return vary_front(_rand_attrs_cls(rng, pool), rng)


def _rand_attrs_cls(rng, pool=NAMES):
    api = rng.choice(["attr.s", "attr.s", "define"])
    return attrs_cls(
        _fields(rng, rng.choice([0, 1, 1, 2, 2, 3]), pool),
        slots=rng.random() < 0.5, frozen=rng.random() < 0.35, weakref=rng.random() < 0.7,
        gs=rng.choice(["none", "none", "none", "t", "f"]),
        auto_detect=api == "define" or rng.random() < 0.3, user_gs=rng.random() < 0.12,
        eq=rng.random() < 0.8, unsafe_hash=rng.random() < 0.4,
        by_mro=api == "define" or rng.random() < 0.5, api=api, explicit=rng.random() < 0.5,
        gs_explicit_none=rng.random() < 0.5, hash_kw=rng.choice(["unsafe_hash", "hash"]))


def rand_plain_cls(rng):
    slots = rng.random() < 0.45
    ps = rng.choice([[], [], ["p"], ["p", "q"], [rng.choice(NAMES)]]) if slots else []
    return plain_cls(slots, ps, rng.random() < 0.12)


def rand_chain(rng, n=None):
    R.EXC[0] = False
    n = n or rng.choice([1, 2, 2, 2, 3, 3])
    pool = rng.sample(NAMES, rng.choice([2, 3, 3, 4, 5]))      # a small pool makes re-declaration likely
    chain = []
    for i in range(n):
        leaf = i == n - 1
        if leaf or rng.random() < 0.78:
            chain.append(rand_attrs_cls(rng, pool))
        else:
            chain.append(rand_plain_cls(rng))
    # cache_hash only where a __hash__ is generated (a TypeError at definition time otherwise)
    for k, c in enumerate(chain):
        if c["kind"] == "attrs" and R.hash_decision(chain, k) == "gen" and rng.random() < 0.55:
            c["cacheHash"] = True
    return add_aliases(chain, rng)


def as_exception_chain(chain):
    """the same classes below `Exception` with auto_exc=True: no eq/hash is generated (so no cache_hash), the
    state methods are only reached through BaseException.__reduce__ / __setstate__; opt-outs and user-written
    state methods are left to the ordinary chains"""
    out = []
    for c in chain:
        c = dict(c, userGS=False, cacheHash=False)
        if c["gs"] == "f":
            c["gs"] = "none"
        out.append(c)
    return out


def _default_alias(name):
    return name.lstrip("_")


def add_aliases(chain, rng, p=0.3):
    """harness-only: explicit `alias=` on init fields -- preferably one that coincides with the __init__ alias of an
    init=False field of the chain (legal: only init fields need distinct aliases), else a fresh name"""
    decls = [f for c in chain for f in c["fields"]]
    init_aliases = {_default_alias(f["name"]) for f in decls if f["init"]}
    never_init = {f["name"] for f in decls} - {f["name"] for f in decls if f["init"]}
    free = sorted({_default_alias(n) for n in never_init} - init_aliases)
    for f in decls:
        if f["init"] and rng.random() < p:
            if free and rng.random() < 0.7:
                f["alias"] = free.pop(rng.randrange(len(free)))
            else:
                f["alias"] = "al_" + _default_alias(f["name"])
    return chain


def with_defaults(chain, rng):
    """harness-only: every init field gets a plain default (the very object that stands for its value) or a default
    factory; with cfg.passArgs false the instance is built from its defaults alone"""
    def fix(f):
        if not f["init"]:
            return f
        g = dict(f)
        if rng.random() < 0.7:
            g["default"] = True
        else:
            g["factory"] = True
        if g.get("special") in ("nothing", "inner"):      # NOTHING means "no default"; the class cannot default to its own instance
            g["special"] = "none"
        return g
    return [dict(c, fields=[fix(f) for f in c["fields"]]) for c in chain]


def with_factories(chain):
    """harness-only: every init field gets a default factory (left unpassed at construction when cfg.passArgs is
    false); the factory yields the field's value while the harness builds an instance and another value otherwise"""
    # a factory whose result is attr.NOTHING is not used: NOTHING *as an argument* of a Factory-defaulted parameter
    # means "not passed" (C01's business), which an exception's cls(*args) copy would then trip over
    return [dict(c, fields=[dict(f, factory=True, special=("none" if f.get("special") == "nothing" else f.get("special")))
                            if f["init"] else f for f in c["fields"]]) for c in chain]


# ------------------------------------------------------------------------------------------------ operations
OPS = ["copy", "deepcopy"] + [{"pickle": {"proto": p}} for p in range(6)]


def legacy_ops(chain):
    n = len(R.names(chain))
    return [{"legacy": {"len": k}} for k in sorted({0, max(n - 1, 0), n, n + 1})]


def histories(chain, rng, full):
    ns = R.names(chain)
    fields = {f["name"]: f for f in B.leaf_fields(chain)}
    out = []
    muts = [None] + (ns if full else ([rng.choice(ns)] if ns else []))
    for hashed in (False, True):
        for m in muts:
            hows = ["assign", "raw"] + (["inplace"] if m is not None and fields[m]["kind"] == "box" else [])
            out.append((hashed, m, rng.choice(hows) if m is not None else "assign"))
    return out


def cases_for_chain(chain, rng, full, exc=False):
    R.EXC[0] = exc
    has_unset = any(not f["init"] for f in B.leaf_fields(chain))
    has_factory = any(f.get("factory") or f.get("default") for f in B.leaf_fields(chain))
    names = R.names(chain)
    ops = list(OPS) + ([] if exc else legacy_ops(chain))
    hs = histories(chain, rng, full)
    if full:
        combos = list(itertools.product(ops, hs))
    else:
        # every op under one history, every history under one op, plus a few random pairs
        h0 = rng.choice(hs)
        lows, highs = OPS[2:4], OPS[4:]
        focus = ["copy", "deepcopy", rng.choice(lows), rng.choice(highs)]
        combos = ([(o, h0) for o in OPS] + ([] if exc else [(o, h0) for o in rng.sample(legacy_ops(chain), 2)])
                  + [(o, h) for o in focus for h in hs if h != h0])
    for op, (hashed, m, how) in combos:
        R.EXC[0] = exc
        case = {"chain": _settle_specials(chain, op, rng), "op": op, "hashedBefore": hashed, "mutate": m,
                "assignUnset": True if has_unset else rng.random() < 0.5, "exc": exc, "mutInPlace": how == "inplace",
                "cfg": {"mutateHow": how, "pickler": rng.choice(["c", "c", "py"]),
                        "passArgs": (rng.random() < 0.3) if has_factory else True,
                        "touch": rng.choice(names) if m is None and names and rng.random() < 0.3 else None}}
        if R.wf(case):
            yield case


def single_class_space():
    """every option combination of a lone attrs class (field lists fixed per size)"""
    fsets = [[], [{"name": "x", "init": True, "kind": "int"}],
             [{"name": "x", "init": True, "kind": "box"}, {"name": "_p", "init": False, "kind": "str"}]]
    for slots, frozen, (eq, uh), gs, fs in itertools.product(
            (False, True), (False, True), ((True, False), (True, True), (False, False), (False, True)),
            ("none", "t", "f"), fsets):
        for cache in (False, True):
            for weakref in ((True, False) if slots else (True,)):
                for auto_detect, user_gs in ((False, False), (True, True), (False, True)):
                    c = attrs_cls([dict(f) for f in fs], slots=slots, frozen=frozen, cache=cache, weakref=weakref, gs=gs,
                                  auto_detect=auto_detect, user_gs=user_gs, eq=eq, unsafe_hash=uh,
                                  by_mro=auto_detect, api="define" if auto_detect and not user_gs else "attr.s")
                    if R.class_ok([c], 0):
                        yield [c]


def shaped_chains(rng):
    """two- and three-class shapes the property text singles out: every slotted/dict/plain mixture"""
    kinds = ["S", "D", "P", "Q"]        # slotted attrs, dict attrs, plain, plain with __slots__
    for n in (2, 3):
        for pat in itertools.product(kinds, repeat=n - 1):
            for leaf in ("S", "D"):
                pool = rng.sample(NAMES, 3)
                chain = []
                for k in pat + (leaf,):
                    if k == "P":
                        chain.append(plain_cls())
                    elif k == "Q":
                        chain.append(plain_cls(True, rng.choice([[], ["p"], [pool[0]]])))
                    else:
                        c = rand_attrs_cls(rng, pool)
                        c["slots"] = k == "S"
                        chain.append(c)
                for k, c in enumerate(chain):
                    if c["kind"] == "attrs" and R.hash_decision(chain, k) == "gen" and rng.random() < 0.5:
                        c["cacheHash"] = True
                yield chain


def gen_cases(tier, rng):
    full = tier == "thorough"
    singles = list(single_class_space())
    if not full:
        rng.shuffle(singles)
        singles = singles[:600]
    for chain in singles:
        for c in chain:
            add_specials(c["fields"], rng, 0.5)
            vary_front(c, rng)
        add_aliases(chain, rng)
        yield from cases_for_chain(with_defaults(chain, rng) if rng.random() < 0.25 else chain, rng, full)
    for rep in range(5 if not full else 40):
        for chain in shaped_chains(rng):
            if rng.random() < 0.2:
                ch = as_exception_chain(chain)
                yield from cases_for_chain(with_factories(ch) if rng.random() < 0.5 else ch, rng, False, exc=True)
            else:
                add_aliases(chain, rng)
                yield from cases_for_chain(with_defaults(chain, rng) if rng.random() < 0.2 else chain, rng, full and rep < 4)
    n = 3200 if not full else 200000
    for i in range(n):
        chain = rand_chain(rng)
        r = rng.random()
        if r < 0.2:          # exception classes (auto_exc), half of them with default factories left unpassed
            chain = as_exception_chain(chain)
            q = rng.random()
            if q < 0.35:
                chain = with_factories(chain)
            elif q < 0.6:
                chain = with_defaults(chain, rng)
            yield from cases_for_chain(chain, rng, False, exc=True)
        elif r < 0.27:
            yield from cases_for_chain(with_factories(chain), rng, False)
        elif r < 0.42:       # every field at its declared default (plain defaults and factories mixed)
            yield from cases_for_chain(with_defaults(chain, rng), rng, False)
        else:
            yield from cases_for_chain(chain, rng, False)


# ------------------------------------------------------------------------------------------------ reporting
def _pattern(chain):
    return "".join(("S" if c["slots"] else "D") if c["kind"] == "attrs" else ("Q" if c["slots"] else "P") for c in chain)


def nontrivial(case, model):
    R.EXC[0] = bool(case.get("exc"))
    return bool(R.names(case["chain"])) and isinstance(model, dict) and model.get("exc") is None


def dist(case, obs):
    R.EXC[0] = bool(case.get("exc"))
    chain = case["chain"]
    op = case["op"]
    leaf = chain[-1]
    return {
        "chain": _pattern(chain),
        "op": op if isinstance(op, str) else next(iter(op)) + str(next(iter(op.values())).get("proto", "")),
        "n_fields": len(R.names(chain)),
        "resolved_state_methods": R.resolve_gs(chain)[0],
        "resolved_hash": R.resolve_hash(chain)[0] + ("+cache" if R.resolve_hash(chain)[0] == "gen" and chain[R.resolve_hash(chain)[1]]["cacheHash"] else ""),
        "history": ("hashed" if case["hashedBefore"] else "fresh") + ("+changed" if case.get("mutate") else ""),
        "leaf": ("frozen " if R.eff_frozen(chain) else "") + ("slots" if leaf["slots"] else "dict") + " gs=" + leaf["gs"],
        "exc": obs.get("exc") if isinstance(obs, dict) else "?",
        "cacheAfter": obs.get("cacheAfter") if isinstance(obs, dict) else "?",
        "front_end": leaf.get("api") + ("/" + leaf["front"] if leaf.get("front", "class") != "class" else "") + ("/nested" if leaf.get("nested") else ""),
        "exception": ("auto_exc" if case.get("exc") else "no") + ("+defaults" + ("" if case.get("cfg", {}).get("passArgs", True) else " unpassed") if any(f.get("factory") or f.get("default") for f in B.leaf_fields(chain)) else ""),
        "decorator_object": str(chain[-1].get("prime")) if chain[-1].get("front", "class") == "class" else "n/a",
        "earlier_definition": str(chain[-1].get("decoy")),
        "aliases": ("explicit" if any(f.get("alias") for f in B.leaf_fields(chain)) else "-") + ("+shared" if len({(f.get("alias") or f["name"].lstrip("_")) for f in B.leaf_fields(chain)}) < len(B.leaf_fields(chain)) else ""),
        "unusual_values": ",".join(sorted({f["special"] for f in B.leaf_fields(chain) if f.get("special")})) or "-",
    }


_DEFAULT_ATTRS = dict(slots=False, frozen=False, cacheHash=False, weakrefSlot=True, gs="none", autoDetect=False,
                      userGS=False, eq=True, unsafeHash=False, collectByMro=False, api="attr.s", explicit=True,
                      gsExplicitNone=False, hashKw="unsafe_hash", front="class", nested=False, decoy=None, prime=None)


def _variants(case):
    chain = case["chain"]
    # drop a non-leaf class
    for i in range(len(chain) - 1):
        yield dict(case, chain=chain[:i] + chain[i + 1:])
    # drop a field
    for i, c in enumerate(chain):
        for j in range(len(c["fields"])):
            c2 = dict(c, fields=c["fields"][:j] + c["fields"][j + 1:])
            yield dict(case, chain=chain[:i] + [c2] + chain[i + 1:])
    # reset options
    for i, c in enumerate(chain):
        if c["kind"] == "attrs":
            for k, v in _DEFAULT_ATTRS.items():
                if c.get(k) != v:
                    yield dict(case, chain=chain[:i] + [dict(c, **{k: v})] + chain[i + 1:])
            for j, f in enumerate(c["fields"]):
                for k, v in (("kind", "int"), ("special", None), ("alias", None)):
                    if f.get(k) != v:
                        fs = c["fields"][:j] + [dict(f, **{k: v})] + c["fields"][j + 1:]
                        yield dict(case, chain=chain[:i] + [dict(c, fields=fs)] + chain[i + 1:])
        else:
            for k, v in (("userGS", False), ("plainSlots", []), ("slots", False)):
                if c.get(k) != v:
                    c2 = dict(c, **{k: v})
                    if not c2["slots"]:
                        c2["plainSlots"] = []
                    yield dict(case, chain=chain[:i] + [c2] + chain[i + 1:])
    if any(f.get("factory") or f.get("default") for c in chain for f in c["fields"]):
        yield dict(case, chain=[dict(c, fields=[{k: v for k, v in f.items() if k not in ("factory", "default")} for f in c["fields"]]) for c in chain],
                   cfg=dict(case.get("cfg", {}), passArgs=True))
    if case["hashedBefore"]:
        yield dict(case, hashedBefore=False)
    if case.get("mutate") is not None:
        yield dict(case, mutate=None)
    cfg = case.get("cfg", {})
    if cfg.get("mutateHow") != "assign" or cfg.get("pickler") != "c":
        yield dict(case, cfg={"mutateHow": "assign", "pickler": "c"})
    op = case["op"]
    if isinstance(op, dict) and "pickle" in op and op["pickle"]["proto"] not in (0, 2):
        yield dict(case, op={"pickle": {"proto": 2 if op["pickle"]["proto"] > 2 else 0}})
    if isinstance(op, dict) and "legacy" in op and op["legacy"]["len"] > 0:
        yield dict(case, op={"legacy": {"len": op["legacy"]["len"] - 1}})


def shrink(case):
    for v in _variants(case):
        if v.get("mutate") is not None and v["mutate"] not in R.names(v["chain"]):
            v = dict(v, mutate=None)
        if v.get("mutate") is None and v.get("mutInPlace"):
            v = dict(v, mutInPlace=False)
        if R.wf(v):
            yield v


def neighbours(case, rng):
    chain = case["chain"]
    exc = bool(case.get("exc"))
    yield from cases_for_chain(chain, rng, True, exc)
    if exc:
        return
    for i, c in enumerate(chain):
        if c["kind"] != "attrs":
            continue
        for k in ("slots", "frozen", "cacheHash", "weakrefSlot", "autoDetect", "userGS", "eq", "unsafeHash", "collectByMro"):
            ch2 = chain[:i] + [dict(c, **{k: not c[k]})] + chain[i + 1:]
            yield from cases_for_chain(ch2, rng, False)
        for g in ("none", "t", "f"):
            if g != c["gs"]:
                yield from cases_for_chain(chain[:i] + [dict(c, gs=g)] + chain[i + 1:], rng, False)


LEVEL_TEXT = (
    "Lean theorems about an executable model of _make_getstate_setstate, the getstate_setstate wiring of attrs.wrap, "
    "_CacheHashWrapper.__reduce__, the cache part of the generated __hash__/__init__, slot layout and field collection on "
    "single-inheritance chains of ANY length with ANY field lists: C10_getstate_setstate_inverse / C10_getstate_fails_iff / "
    "C10_setstate_exact (arbitrary name lists and dict states, by induction), C10_legacy_tuple_state (arbitrary tuple, positional), "
    "C10_roundtrip (all fields set and no known finding => success, every field equal, for copy/deepcopy/every protocol), "
    "C10_cache_not_carried (deepcopy/pickle, and copy with resolved state methods, never transport the cached value: no known-finding "
    "exclusion needed), C10_shallow_cache_consistent, C10_equal_and_hash_equal (copy == orig; hash(copy) == hash(fresh equal instance); "
    "== hash(orig) unless changed after hashing), C10_protocols (success whenever a __getstate__ resolves or no class has __slots__), "
    "C10_high_protocols_agree, C10_default_reduction_fails_iff (K11/K10b predicates are exact), C10_own_pair_unless_opted_out (an attrs class resolves a base's generated pair only with "
    "getstate_setstate=False), C10_generated_state_never_dropped, C10_inherited_pair_exact (exactly the fields the "
    "base lacks are lost), C10_model_meets_spec (forall c, wf c -> known c = [] -> spec c (model c)), and decide-checked witness theorems "
    "for K1, K2, K5, K10b, K10d, K10e, K11, C10_exception_roundtrip (auto_exc classes: cls(*args) + __setstate__(__dict__) brings every field back "
    "outside K10d/K10e, arbitrary chains), C10_init_placement (what the generated __init__ leaves where, arbitrary field lists), plus regression theorems for the repaired K4, K10a, K10c. Proved about the model; the model is tied to /repo by a differential correspondence over "
    "chains of <= 3 classes x operations x histories (see rule). Observed, not proved: CPython's object.__reduce_ex__/copyreg/copy/pickle "
    "fragment (modelled as small trusted functions and diff-tested with both picklers), that the result is a distinct object of the same "
    "class, hash collisions between tokens, class creation itself. Not covered: multiple inheritance, per-field "
    "eq=/hash= exclusions, converters/validators/on_setattr hooks, self-referential (cyclic) instances, user state methods that are not well behaved.")
