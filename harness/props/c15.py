"""C15 -- contradictory specifications fail at definition time and leave the class untouched.

Case = the Lean `Attrs.C15.Case` (every option the definition-time checks of attrs read: field options as
written, class options as written with "left out" distinct from None where the front-ends differ, own methods
of the class body, what is inherited) plus a harness-only `cfg` (which non-bool object stands for a bad hash,
how a hook is spelled, whether None-valued keywords are passed explicitly, base-class front-end/slots, a plain
class between base and subclass, legacy/MRO collection, `attrs.frozen` alias, `field()` vs `attr.ib()`), which
the model ignores -- that the verdict is the same for every `cfg` is part of what is checked.

observe(): creates the `_CountingAttr`s one after the other (first failure = outcome), builds the base
classes and the plain class with `type()`, snapshots it, makes the decorator, applies it as a function call and,
if that raises, compares the class with the snapshot: keys, key order, identity of every value of `vars(cls)`,
content and identity of `__annotations__`, the resolved `__setattr__`, `__bases__`; (a) the *state* of every value
(for `attr.ib()` objects each slot -- `_default`, `_validator`, `type`, `metadata`, `counter`, ... --, the `these`
dict, and the user containers handed to attrs: metadata dicts, validator / on_setattr lists, make_class's class_body);
(b) behaviourally: a valid decorator (same front-end, kw_only=True, nothing else) is then applied to the same class and
to a fresh identical class that never saw the failed attempt, and the two outcomes (exception kind, or fields, own
dunders, __init__ signature, annotations, construction / repr / eq / hash / assignment probes) must be identical.
"""
from __future__ import annotations

import itertools
import json

import attr
import attrs
from attr import setters

import common

ID = "C15"
TABLES = ["attrsKw", "defineKw", "fn_define_wrap"]
PARALLEL = True
BUDGET_S = {"quick": 36, "thorough": 380}
EXHAUSTIVE = {"quick": False, "thorough": False}

NOTHING = attr.NOTHING
EXC_KINDS = {"typeError", "valueError", "unannotated", "defaultAlreadySet"}

# ------------------------------------------------------------------------------------------ option space
FIELD_DEFAULT = {
    "bare": False, "annotated": False, "dflt": False, "factory": False, "deco": False, "decoMore": 0, "valDeco": 0,
    "init": True,
    "kwOnly": False, "cmp": "none", "eq": "none", "order": "none", "hash": "none", "onSetattr": "none",
    "typeArg": False, "validator": False, "converter": False,
}
FIELD_SPACE = {
    "bare": [False, True], "annotated": [False, True], "dflt": [False, True], "factory": [False, True],
    "deco": [False, True], "decoMore": [0, 1, 2], "valDeco": [0, 1, 2], "init": [True, False], "kwOnly": [False, True],
    "cmp": ["none", "t", "f", "key"], "eq": ["none", "t", "f", "key"], "order": ["none", "t", "f", "key"],
    "hash": ["none", "t", "f", "bad"], "onSetattr": ["none", "hook", "noop"],
    "typeArg": [False, True], "validator": [False, True], "converter": [False, True],
}
ATTR_DEFAULT = {"dflt": False, "init": True, "kwOnly": False, "onSetattr": "none", "validator": False,
                "converter": False}
ATTR_SPACE = {"dflt": [False, True], "init": [True, False], "kwOnly": [False, True],
              "onSetattr": ["none", "hook", "noop"], "validator": [False, True], "converter": [False, True]}
CLASS_DEFAULT = {
    "api": "attrS", "these": False, "autoAttribs": "unset", "annReversed": False, "slots": "unset",
    "frozen": False, "kwOnly": False, "cacheHash": False, "autoExc": "unset", "isBaseExc": False,
    "autoDetect": "unset", "cmp": "none", "eq": "none", "order": "unset", "hash": "none",
    "unsafeHash": "none", "init": "none", "repr": "none", "str": False, "onSetattr": "none",
    "transformer": None, "ownSetattr": False, "ownEq": False, "ownHash": False, "ownInit": False,
    "ownRepr": False, "baseFrozen": False,
}
OPTB = ["unset", "t", "f"]
F3 = ["none", "t", "f"]
HASH = ["none", "t", "f", "bad"]
_E_ID = {"kwOnly": "keep", "dflt": "keep", "init": "keep", "hooks": "keep"}


def tr(shape="none", all=None, first=None, n_first=0, add="none"):  # noqa: A002
    """a field transformer, described by what it returns (the Lean `Attrs.C15.Tr`)"""
    return {"shape": shape, "all": dict(_E_ID, **(all or {})), "first": dict(_E_ID, **(first or {})),
            "nFirst": n_first, "add": add}


TR_ID = tr()
# named transformers: reorder / drop / add, and per-field edits of kw_only, default, init, on_setattr
TR_CATALOGUE = {
    "none": TR_ID,
    "reverse": tr("reverse"), "dropFirst": tr("dropFirst"), "dropLast": tr("dropLast"),
    "mandatoryFirst": tr("mandatoryFirst"),
    "addMandatory": tr(add="mandatoryLast"), "addDefaultedFirst": tr(add="defaultedFirst"),
    "addKwMandatory": tr(add="kwMandatoryLast"),
    "kwOnlyAll": tr(all={"kwOnly": "setT"}), "positionalAll": tr(all={"kwOnly": "setF"}),
    "firstTwoPositional": tr(first={"kwOnly": "setF"}, n_first=2),
    "firstPositional": tr(first={"kwOnly": "setF"}, n_first=1),
    "firstKwOnly": tr(first={"kwOnly": "setT"}, n_first=1),
    "kwOnlyButFirstTwo": tr(all={"kwOnly": "setT"}, first={"kwOnly": "setF"}, n_first=2),
    "setDefaults": tr(all={"dflt": "setT"}), "dropDefaults": tr(all={"dflt": "setF"}),
    "firstDefault": tr(first={"dflt": "setT"}, n_first=1), "firstNoDefault": tr(first={"dflt": "setF"}, n_first=1),
    "initAll": tr(all={"init": "setT"}), "noInitAll": tr(all={"init": "setF"}),
    "firstNoInit": tr(first={"init": "setF"}, n_first=1),
    "stripHooks": tr(all={"hooks": "strip"}), "hookAll": tr(all={"hooks": "setHook"}),
    "hookFirst": tr(first={"hooks": "setHook"}, n_first=1),
    "reversePositional": tr("reverse", all={"kwOnly": "setF"}),
    "positionalAddMandatory": tr(all={"kwOnly": "setF"}, add="mandatoryLast"),
}
TRS = list(TR_CATALOGUE)
CLASS_DEFAULT["transformer"] = TR_ID


def tr_name(d):
    for k, v in TR_CATALOGUE.items():
        if v == d:
            return k
    return "custom"


CLASS_SPACE = {
    "api": ["attrS", "define", "makeClass"], "these": [False, True], "autoAttribs": OPTB,
    "annReversed": [False, True], "slots": OPTB, "frozen": [False, True], "kwOnly": [False, True],
    "cacheHash": [False, True], "autoExc": OPTB, "isBaseExc": [False, True], "autoDetect": OPTB,
    "cmp": F3, "eq": F3, "order": ["unset", "none", "t", "f"], "hash": HASH, "unsafeHash": HASH,
    "init": F3, "repr": F3, "str": [False, True],
    "onSetattr": ["none", "hook", "noop", "validate", "convert"], "transformer": list(TR_CATALOGUE.values()),
    "ownSetattr": [False, True], "ownEq": [False, True], "ownHash": [False, True],
    "ownInit": [False, True], "ownRepr": [False, True], "baseFrozen": [False, True],
}
CFG_DEFAULT = {"badHash": 0, "hookKind": "fn", "explicit": False, "baseApi": "attrS", "baseSlots": False,
               "mid": "none", "hiddenFrozen": False, "collectByMro": False, "frozenAlias": False,
               "fieldApi": "ib", "emptyBase": False, "containers": False, "identityTr": False, "hostile": None}
NAMES = ["a", "b", "c", "d", "e"]
BASE_NAMES = ["p", "q", "r"]

RULE = ("cases = class options as written (api attr.s/define/make_class x these= x auto_attribs x slots x frozen x "
        "kw_only x cache_hash x auto_exc/exception base x auto_detect x cmp/eq/order x hash/unsafe_hash x init/repr/str "
        "x class on_setattr x hostile-but-valid user objects in every role (9 kinds x 10 roles, harness-only) x field_transformer (26 named ones: reorder / drop / add an attribute / kw_only, default, init, "
        "on_setattr evolved to set or cleared for all or the leading fields; free-form combinations in the random stream) x own __setattr__/__eq__/__hash__/__init__/__repr__ x frozen base) x "
        "inherited attributes x fields as written (bare annotation / default / factory / @default / init / kw_only / "
        "cmp,eq,order incl. key callables / hash incl. non-bool / on_setattr hook,NO_OP / type= / annotation / validator "
        "/ converter). Streams: (1) for every seed specification (valid shapes x api x slots x inheritance position) "
        "every single-option change and (thorough: every, quick: a seeded sample of) pair of changes -- the lattice "
        "around each rule incl. near misses and two simultaneous contradictions; (2) hand-listed rule x api x slots x "
        "position grid; (3) seeded random specifications biased to valid ones; (4) specifications of C03's generator "
        "mapped into this space; (5) class chains of the C01/C02/C12 generator (built by its own builder: aliases, "
        "pre/post hooks, 3-level chains, plain classes in between, both collection modes), as generated and with one "
        "change to the leaf class. non-trivial = a rule of the table applies or the spec has >=1 field; distinct = distinct JSON case")
ASSUMPTIONS = [
    "user-supplied objects (class / field hooks, validators, converters, factories, eq/order keys, defaults, types, metadata "
    "values, the field_transformer) also come as hostile-but-valid instances -- callables that are instances; unhashable; "
    "falsy via __bool__ / __len__; equal to everything / to None; raising from __eq__, __bool__, __hash__, __len__ -- a "
    "harness-only variation the model is independent of (same specification, same verdict). 18 of the 90 (role, kind) pairs "
    "are not generated because the pinned tree itself truth-tests or ==-compares those objects (HOSTILE_EXCLUDED lists "
    "them with the reason): raising __bool__/__len__ on hooks, validators, converters, keys; falsy hooks; class hooks and "
    "converters with raising / promiscuous __eq__",
    "the decorator is applied as a function call to a class made with type(): field errors (class body) come before "
    "decorator-argument errors; with decorator syntax Python evaluates the decorator expression first",
    "single-inheritance shapes only (attrs base <- optional plain class <- class); C3 linearisation is CPython's",
    "hooks, key callables, validators, converters and factories are fixed representative callables; field transformers are "
    "the family `edit every attribute (kw_only/default/init/on_setattr: keep, set, clear), edit the leading n, reshape "
    "(reverse, drop first/last, mandatory first), add one attribute` -- built from the case's description, which the model "
    "interprets the same way (the order rule and the frozen/hook rules are judged on the returned list); "
    "non-bool hash values are 1, 0, 'yes', 2",
    "field names are distinct plain identifiers with distinct aliases (duplicate-alias SyntaxError is outside the table and not generated)",
]
LEVEL_TEXT = (
    "Lean theorems (Properties/C15.lean) about an executable model of every definition-time check in code order "
    "(attrib, @x.default, define.wrap incl. the auto_attribs fallback, _determine_attrs_eq_order, attrs.wrap: own "
    "__setattr__+frozen, _transform_attrs incl. from_counting_attr / base collection / kw_only / field_transformer / "
    "ordering loop, add_str, add_setattr, hash and cache_hash block, _make_init_script, cache_hash without init), for "
    "arbitrary option combinations and field / inherited-attribute lists of any length: C15_defError_flat and "
    "C15_define_fallback (all front-ends are the first failing entry of one check list; define's swallowed "
    "UnannotatedAttributeError never hides or invents an error), C15_first_failing_check_decides, C15_sound (any error "
    "is the documented type of an applicable rule of the declarative 17-rule table, or of one of three open readings"
    "), C15_complete (every applicable rule is enforced), C15_no_spurious / C15_characterisation (defined iff "
    "nothing applies), C15_table + C15_kinds (each rule alone yields its documented type), C15_order_iff_exists_pair "
    "(the had_default loop raises iff a defaulted positional attribute at i is followed by a mandatory positional one "
    "at j>i), C15_order_via_inheritance, C15_order_rule_kwonly_exempt / _kwonly_class (class-level kw_only exempts only if "
    "the transformer does not clear kw_only), C15_transformer_output_is_checked (the rule is judged on the list the "
    "transformer returned), C15_first_field_error, "
    "C15_checks_before_mutation (any builder whose only patch step is last leaves an arbitrary class dict unchanged when "
    "it raises) and C15_wrap_checks_before_mutation (attrs.wrap is such a builder and its outcome is the check list's), "
    "C15_slots_irrelevant, C15_initFalse_hook_rejected (fix 059f6c6), C15_defaults_documented (T1 tables), "
    "C15_model_meets_spec, C15_str_needs_some_repr and K15a_repaired (regression of the repaired K15a). Tied to /repo by a differential correspondence on two observables: exception "
    "kind at definition, and the snapshot of vars(cls) (keys, order, identity of values), __annotations__ content, "
    "resolved __setattr__ and __bases__ after a failed decoration. CPython class creation, the staging discipline of "
    "_ClassBuilder on the real class (observed through the snapshot) and decorator-syntax evaluation order are "
    "observed, not proved. The spec accepts either outcome for three readings the statement leaves open (field-level "
    "NO_OP on a frozen class; define(on_setattr=hook) on a class whose own __setattr__ hides a frozen base; "
    "str=True on a class left without any own __repr__, which attrs's tests assert to be rejected). No listed deviation "
    "is left: K15a (str=True with an own __repr__ was rejected) is repaired in attrs (fixes/C15).")


# ------------------------------------------------------------------------------------------ callables
def _hook(inst, a, v):
    return v


def _hook2(inst, a, v):
    return v


def _key(v):
    return v


def _validator(inst, a, v):
    return None


def _converter(v):
    return v


def _own_setattr(self, n, v):
    object.__setattr__(self, n, v)


def _own_eq(self, other):
    return self is other


def _own_hash(self):
    return 7


def _own_init(self, *a, **kw):
    pass


def _own_repr(self):
    return "own"


BAD_HASH = [1, 0, "yes", 2]


def _edit(a, e):
    ch = {}
    if e["kwOnly"] != "keep":
        ch["kw_only"] = e["kwOnly"] == "setT"
    if e["dflt"] != "keep":
        ch["default"] = 0 if e["dflt"] == "setT" else NOTHING
    if e["init"] != "keep":
        ch["init"] = e["init"] == "setT"
    if e["hooks"] != "keep":
        ch["on_setattr"] = None if e["hooks"] == "strip" else _hook
    return a.evolve(**ch) if ch else a


def _new_attribute(default=NOTHING, kw_only=False):
    return attr.Attribute(name="zz", default=default, validator=None, repr=True, cmp=None, hash=None, init=True,
                          inherited=False, kw_only=kw_only)


def make_transformer(d):
    """the real callable for a transformer description; attrs checks what this RETURNS"""
    def transformer(cls, attrs_):
        out = [_edit(a, d["all"]) for a in attrs_]
        out = [_edit(a, d["first"]) if i < d["nFirst"] else a for i, a in enumerate(out)]
        sh = d["shape"]
        if sh == "reverse":
            out = list(reversed(out))
        elif sh == "dropFirst":
            out = out[1:]
        elif sh == "dropLast":
            out = out[:-1]
        elif sh == "mandatoryFirst":
            out = sorted(out, key=lambda a: a.default is not NOTHING)
        ad = d["add"]
        if ad == "mandatoryLast":
            out = [*out, _new_attribute()]
        elif ad == "defaultedFirst":
            out = [_new_attribute(default=0), *out]
        elif ad == "kwMandatoryLast":
            out = [*out, _new_attribute(kw_only=True)]
        return out
    return transformer


def _hook_value(kind, cls_level=False):
    if cls_level and kind == "validate":
        return _hook            # at class level setters.validate is a different model value
    if kind == "list":
        return [_hook, _hook2]
    if kind == "validate":
        return setters.validate
    if kind == "frozen":
        return setters.frozen
    if kind == "pipe":
        return setters.pipe(_hook, setters.convert)
    return _hook


_B3 = {"t": True, "f": False}


# ------------------------------------------------------------------------------------------ hostile-but-valid user objects
class Boom(Exception):
    """raised by a dunder of a hostile object that attrs has no business calling"""


def _raiser(what):
    def f(self, *a):
        raise Boom(what)
    return f


HOSTILE_KINDS = ["unhashable", "falsyBool", "falsyLen", "raisingEq", "raisingBool", "raisingHash", "raisingLen",
                 "eqAll", "eqNone"]
_ROLE_CALL = {
    "clsHook": lambda self, inst, a, v: v, "fldHook": lambda self, inst, a, v: v,
    "validator": lambda self, inst, a, v: None, "converter": lambda self, v: v, "factory": lambda self: [],
    "key": lambda self, v: v, "default": None, "type": None, "metadata": None,
}
_HOSTILE_CLASSES: dict = {}


def hostile(role, kind):
    """a fresh object that can stand for `role` in a specification (a callable *instance* where a callable is
    expected, an arbitrary value otherwise) and is unpleasant in one way: unhashable, falsy, equal to everything,
    or raising from __eq__ / __bool__ / __hash__ / __len__.  Nothing about a class definition needs those dunders."""
    cls = _HOSTILE_CLASSES.get((role, kind))
    if cls is None:
        ns = {"__repr__": lambda self, _r=f"<{role}:{kind}>": _r}
        call = _ROLE_CALL.get(role)
        if call is not None:
            ns["__call__"] = call
        if kind == "unhashable":
            ns["__eq__"] = lambda self, o: self is o
            ns["__hash__"] = None
        elif kind == "falsyBool":
            ns["__bool__"] = lambda self: False
        elif kind == "falsyLen":
            ns["__len__"] = lambda self: 0
        elif kind == "raisingEq":
            ns["__eq__"] = _raiser("__eq__")
            ns["__ne__"] = _raiser("__ne__")
            ns["__hash__"] = lambda self: 1
        elif kind == "raisingBool":
            ns["__bool__"] = _raiser("__bool__")
        elif kind == "raisingHash":
            ns["__hash__"] = _raiser("__hash__")
        elif kind == "raisingLen":
            ns["__len__"] = _raiser("__len__")
        elif kind == "eqAll":
            ns["__eq__"] = lambda self, o: True
            ns["__hash__"] = lambda self: 0
        elif kind == "eqNone":
            ns["__eq__"] = lambda self, o: o is None or self is o
            ns["__hash__"] = lambda self: 0
        cls = _HOSTILE_CLASSES[(role, kind)] = type(f"H_{role}_{kind}", (), ns)
    return cls()


class _HostileTransformer:
    pass


def hostile_transformer(kind, fn):
    base = type(hostile("default", kind))
    cls = type("H_transformer_" + kind, (base,), {"__call__": lambda self, c, a: fn(c, a)})
    return cls()


def _h(cfg, role):
    """the hostile kind asked for this role, if the (role, kind) pair is one a valid specification may contain"""
    k = (cfg.get("hostile") or {}).get(role)
    if k and (role, k) in HOSTILE_OK:
        return k
    return None


# (role, kind) pairs that are accepted: all, except those listed in HOSTILE_EXCLUDED with the reason
HOSTILE_ROLES = ["clsHook", "fldHook", "validator", "converter", "factory", "key", "default", "type", "metadata",
                 "transformer"]
# pairs the pinned tree itself is sensitive to (measured: with every other pair the outcome of 4000 specifications
# is identical to the outcome with plain functions / values); they are NOT generated, see ASSUMPTIONS
HOSTILE_EXCLUDED = {
    "truth-tested (`a.on_setattr or …`, `if on_setattr and …`, `if validator and …`, `callable`/`bool` of keys and "
    "converters): an object whose __bool__/__len__ raises makes the definition raise that exception":
        [(r, k) for r in ("clsHook", "fldHook", "validator", "converter", "key") for k in ("raisingBool", "raisingLen")],
    "truth-tested: a falsy hook object is dropped by add_setattr (`a.on_setattr or self._on_setattr`), so it is neither "
    "run on assignment nor rejected next to an own __setattr__":
        [(r, k) for r in ("clsHook", "fldHook") for k in ("falsyBool", "falsyLen")],
    "compared with == (`on_setattr in (_DEFAULT_ON_SETATTR, validate, convert)`, `not in (None, NO_OP)`, converter "
    "comparisons): a raising __eq__ propagates; an object equal to None / to every function is mistaken for them":
        [("clsHook", "raisingEq"), ("clsHook", "eqAll"), ("clsHook", "eqNone"), ("converter", "raisingEq")],
}
HOSTILE_OK = {(r, k) for r in HOSTILE_ROLES for k in HOSTILE_KINDS} - {p for ps in HOSTILE_EXCLUDED.values() for p in ps}


# ------------------------------------------------------------------------------------------ building
def _field_kwargs(f, cfg):
    kw = {}
    ex = cfg.get("explicit", False)
    if f["dflt"]:
        kw["default"] = 0
    if f["factory"]:
        kw["factory"] = list
    if not f["init"]:
        kw["init"] = False
    elif ex:
        kw["init"] = True
    if f["kwOnly"]:
        kw["kw_only"] = True
    elif ex:
        kw["kw_only"] = False
    for k in ("cmp", "eq", "order"):
        if f[k] == "key":
            kw[k] = _key
        elif f[k] != "none":
            kw[k] = _B3[f[k]]
        elif ex and k != "cmp":
            kw[k] = None
    if f["hash"] == "bad":
        kw["hash"] = BAD_HASH[cfg.get("badHash", 0) % len(BAD_HASH)]
    elif f["hash"] != "none":
        kw["hash"] = _B3[f["hash"]]
    elif ex:
        kw["hash"] = None
    if f["onSetattr"] == "hook":
        kw["on_setattr"] = _hook_value(cfg.get("hookKind", "fn"))
    elif f["onSetattr"] == "noop":
        kw["on_setattr"] = setters.NO_OP
    elif ex:
        kw["on_setattr"] = None
    if f["typeArg"]:
        kw["type"] = int
    if f["validator"]:
        kw["validator"] = _validator
    if f["converter"]:
        kw["converter"] = _converter
    # hostile-but-valid stand-ins (harness-only variation: the model sees the same specification)
    if cfg.get("hostile"):
        if "default" in kw and _h(cfg, "default"):
            kw["default"] = hostile("default", _h(cfg, "default"))
        if "factory" in kw and _h(cfg, "factory"):
            kw["factory"] = hostile("factory", _h(cfg, "factory"))
        for k in ("cmp", "eq", "order"):
            if kw.get(k) is _key and _h(cfg, "key"):
                kw[k] = hostile("key", _h(cfg, "key"))
        if kw.get("on_setattr") is _hook and _h(cfg, "fldHook"):
            kw["on_setattr"] = hostile("fldHook", _h(cfg, "fldHook"))
        if "type" in kw and _h(cfg, "type"):
            kw["type"] = hostile("type", _h(cfg, "type"))
        if "validator" in kw and _h(cfg, "validator"):
            kw["validator"] = hostile("validator", _h(cfg, "validator"))
        if "converter" in kw and _h(cfg, "converter"):
            kw["converter"] = hostile("converter", _h(cfg, "converter"))
        if _h(cfg, "metadata"):
            kw["metadata"] = {"k": hostile("metadata", _h(cfg, "metadata"))}
    return kw


def _validator2(inst, a, v):
    return None


def _make_field(f, cfg, reg=None):
    """`reg` collects the user containers handed to attrs: (label, object, shallow copy)"""
    kw = _field_kwargs(f, cfg)
    if cfg.get("containers") and not cfg.get("hostile"):
        if f["validator"]:
            kw["validator"] = [_validator, _validator2]
        kw["metadata"] = {"k": f["name"], "l": [1]}
    if reg is not None:
        for k in ("validator", "metadata", "on_setattr", "converter"):
            v = kw.get(k)
            if isinstance(v, list):
                reg.append((f"{k} list of {f['name']}", v, list(v)))
            elif isinstance(v, dict):
                reg.append((f"{k} dict of {f['name']}", v, dict(v)))
    if cfg.get("fieldApi", "ib") == "field" and "cmp" not in kw:
        ca = attrs.field(**kw)
    else:
        ca = attr.ib(**kw)
    # decorators in the class body, in sequence: @x.validator any number of times (accumulates), @x.default
    expected = _flat_validators(ca._validator)
    for i in range(f.get("valDeco", 0)):
        def _v(self, a, v, _i=i):
            return None
        ca.validator(_v)
        expected.append(_v)
    for i in range((1 + f.get("decoMore", 0)) if f["deco"] else 0):
        def _dflt(self, _i=i):
            return _i
        ca.default(_dflt)
    if [id(v) for v in _flat_validators(ca._validator)] != [id(v) for v in expected]:
        raise ValidatorsLost(f["name"])
    if f.get("valDeco", 0):
        _EXPECT_VALIDATORS[f["name"]] = expected
    return ca


class ValidatorsLost(Exception):
    """@x.validator applied several times must keep every validator, in order"""


_EXPECT_VALIDATORS: dict = {}


def _flat_validators(v):
    if v is None:
        return []
    if isinstance(v, attr._make._AndValidator):
        return [w for x in v._validators for w in _flat_validators(x)]
    return [v]


def _base_attr(a):
    kw = {}
    if a["dflt"]:
        kw["default"] = 0
    if not a["init"]:
        kw["init"] = False
    if a["kwOnly"]:
        kw["kw_only"] = True
    if a["onSetattr"] == "hook":
        kw["on_setattr"] = _hook
    elif a["onSetattr"] == "noop":
        kw["on_setattr"] = setters.NO_OP
    if a["validator"]:
        kw["validator"] = _validator
    if a["converter"]:
        kw["converter"] = _converter
    return attr.ib(**kw)


_BASE_CACHE: dict = {}


def _bases(case, cfg):
    """the (already defined, valid) classes above the class under test; cached: decorating a subclass never
    writes to its bases"""
    root = Exception if case["isBaseExc"] else object
    actual_frozen = bool(case["baseFrozen"] or cfg.get("hiddenFrozen"))
    need = bool(case["baseAttrs"]) or actual_frozen or cfg.get("emptyBase") or cfg.get("mid", "none") != "none"
    if not need:
        return (root,)
    key = (json.dumps(case["baseAttrs"], sort_keys=True), case["isBaseExc"], actual_frozen, cfg.get("baseApi"),
           bool(cfg.get("baseSlots")), bool(cfg.get("collectByMro")), cfg.get("mid", "none"))
    got = _BASE_CACHE.get(key)
    if got is None:
        if len(_BASE_CACHE) > 4000:
            _BASE_CACHE.clear()
        got = _BASE_CACHE[key] = _bases_uncached(case, cfg, root, actual_frozen)
    return got


def _bases_uncached(case, cfg, root, actual_frozen):
    ns = {a["name"]: _base_attr(a) for a in case["baseAttrs"]}
    plain = type("B", (root,), ns)
    if cfg.get("baseApi", "attrS") == "define":
        base = attrs.define(frozen=actual_frozen, slots=bool(cfg.get("baseSlots")))(plain)
    else:
        base = attr.s(frozen=actual_frozen, slots=bool(cfg.get("baseSlots")),
                      collect_by_mro=bool(cfg.get("collectByMro")))(plain)
    mid = cfg.get("mid", "none")
    if mid == "plain":
        base = type("M", (base,), {})
    elif mid == "setattr":
        base = type("M", (base,), {"__setattr__": _own_setattr})
    return (base,)


def _body(case, cas):
    """class namespace + these dict"""
    ns = {}
    ann = [f["name"] for f in case["fields"] if f["annotated"]]
    if case["annReversed"]:
        ann.reverse()
    if ann:
        ns["__annotations__"] = {n: int for n in ann}
    these = {}
    use_these = case["these"] or case["api"] == "makeClass"
    for f in case["fields"]:
        if f["bare"]:
            if f["dflt"]:
                ns[f["name"]] = 0
        elif use_these:
            these[f["name"]] = cas[f["name"]]
        else:
            ns[f["name"]] = cas[f["name"]]
    if case["ownSetattr"]:
        ns["__setattr__"] = _own_setattr
    if case["ownEq"]:
        ns["__eq__"] = _own_eq
    if case["ownHash"] and not case["ownEq"]:
        ns["__hash__"] = _own_hash
    if case["ownInit"]:
        ns["__init__"] = _own_init
    if case["ownRepr"]:
        ns["__repr__"] = _own_repr
    return ns, (these if use_these else None)


def _class_kwargs(case, cfg):
    kw = {}
    ex = cfg.get("explicit", False)
    api = case["api"]
    if case["slots"] != "unset":
        kw["slots"] = _B3[case["slots"]]
    if case["frozen"]:
        kw["frozen"] = True
    elif ex:
        kw["frozen"] = False
    for key, name in (("kwOnly", "kw_only"), ("cacheHash", "cache_hash"), ("str", "str")):
        if case[key]:
            kw[name] = True
        elif ex:
            kw[name] = False
    for key, name in (("autoExc", "auto_exc"), ("autoDetect", "auto_detect")):
        if case[key] != "unset":
            kw[name] = _B3[case[key]]
    if api != "makeClass" and case["autoAttribs"] != "unset":
        kw["auto_attribs"] = _B3[case["autoAttribs"]]
    for key in ("cmp", "eq", "init", "repr"):
        if case[key] != "none":
            kw[key] = _B3[case[key]]
        elif ex and not (key == "cmp" and api == "define"):
            kw[key] = None
    if case["order"] == "none":
        kw["order"] = None
    elif case["order"] != "unset":
        kw["order"] = _B3[case["order"]]
    for key, name in (("hash", "hash"), ("unsafeHash", "unsafe_hash")):
        if case[key] == "bad":
            kw[name] = BAD_HASH[cfg.get("badHash", 0) % len(BAD_HASH)]
        elif case[key] != "none":
            kw[name] = _B3[case[key]]
        elif ex:
            kw[name] = None
    on = case["onSetattr"]
    if on == "hook":
        kw["on_setattr"] = _hook_value(cfg.get("hookKind", "fn"), cls_level=True)
        if kw["on_setattr"] is _hook and _h(cfg, "clsHook"):
            kw["on_setattr"] = hostile("clsHook", _h(cfg, "clsHook"))
    elif on == "noop":
        kw["on_setattr"] = setters.NO_OP
    elif on == "validate":
        kw["on_setattr"] = setters.validate
    elif on == "convert":
        kw["on_setattr"] = setters.convert
    elif ex:
        kw["on_setattr"] = None
    if case["transformer"] != TR_ID or cfg.get("identityTr"):
        kw["field_transformer"] = make_transformer(case["transformer"])
        if _h(cfg, "transformer"):
            kw["field_transformer"] = hostile_transformer(_h(cfg, "transformer"), kw["field_transformer"])
    if api != "define" and cfg.get("collectByMro"):
        kw["collect_by_mro"] = True
    return kw


_CA = attr._make._CountingAttr
_CA_SLOTS = tuple(getattr(_CA, "__slots__", ()))


_KEEP: list = []      # keeps every object whose id() went into a state alive until the comparison is done


def _state(v, depth=0):
    _KEEP.append(v)
    return _state1(v, depth)


def _state1(v, depth=0):
    """identity-level state of a value found in the class body / handed to attrs: for `attr.ib()` objects every
    slot, for containers their items, for factories their parts; leaves by identity"""
    if isinstance(v, _CA):
        return ("ca",) + tuple((n, _state(getattr(v, n, "<unset>"), depth + 1)) for n in (_CA_SLOTS or sorted(vars(v))))
    if depth > 3:
        return ("obj", id(v))
    if isinstance(v, dict):
        return ("dict", id(v), tuple((repr(k), _state(x, depth + 1)) for k, x in v.items()))
    if isinstance(v, (list, tuple)):
        return (type(v).__name__, id(v), tuple(_state(x, depth + 1) for x in v))
    if isinstance(v, attr.Factory):
        return ("factory", id(v), id(v.factory), v.takes_self)
    if isinstance(v, (bool, int, str, type(None))):
        return ("lit", v)
    return ("obj", id(v))


def _state_diff(label, before, after, out):
    if before == after:
        return
    if before[0] == "ca" and after[0] == "ca":
        for (n, b), (_, a) in zip(before[1:], after[1:]):
            if a != b:
                out.add(f"state of {label}.{n}")
    else:
        out.add(f"state of {label}")


def _snapshot(cls, these=None, reg=()):
    d = vars(cls) if cls is not None else {}
    items = list(d.items())
    ann = d.get("__annotations__")
    if cls is None:
        return {"state": {}, "these": (list(these.items()), {k: _state(v) for k, v in these.items()}) if these is not None else None,
                "reg": reg}
    return {"state": {k: _state(v) for k, v in items},
            "these": (list(these.items()), {k: _state(v) for k, v in these.items()}) if these is not None else None,
            "reg": reg,
            "items": items, "ann": ann, "ann_items": list(ann.items()) if isinstance(ann, dict) else None,
            "setattr": cls.__setattr__, "bases": cls.__bases__, "name": cls.__name__,
            "qualname": cls.__qualname__}


def _diff_state(cls, snap, these, out):
    """(a) deep state: the objects are the same -- is what they hold the same?"""
    if cls is not None:
        for k, v in vars(cls).items():
            if k in snap["state"]:
                _state_diff(str(k), snap["state"][k], _state(v), out)
    if snap["these"] is not None and these is not None:
        items, st = snap["these"]
        now = list(these.items())
        if [k for k, _ in now] != [k for k, _ in items] or any(v is not w for (_, v), (_, w) in zip(now, items)):
            out.add("these dict")
        for k, v in now:
            if k in st:
                _state_diff(f"these[{k}]", st[k], _state(v), out)
    for label, obj, copy_ in snap["reg"]:
        cur = list(obj) if isinstance(obj, list) else dict(obj)
        same = (len(cur) == len(copy_)) and (
            all(x is y for x, y in zip(cur, copy_)) if isinstance(obj, list)
            else list(cur.items()) == list(copy_.items()) and all(cur[k] is copy_[k] for k in cur))
        if not same:
            out.add(label)


def _diff(cls, snap, these=None):
    out = set()
    _diff_state(cls, snap, these, out)
    if cls is None:
        return sorted(out)
    now = list(vars(cls).items())
    before = snap["items"]
    bk = {k: v for k, v in before}
    nk = {k: v for k, v in now}
    for k in bk:
        if k not in nk or nk[k] is not bk[k]:
            out.add(str(k))
    for k in nk:
        if k not in bk:
            out.add(str(k))
    if not out and [k for k, _ in before] != [k for k, _ in now]:
        out.add("<key order>")
    ann = vars(cls).get("__annotations__")
    if isinstance(snap["ann"], dict):
        if ann is not snap["ann"] or list(ann.items()) != snap["ann_items"] or any(
                v is not w for (_, v), (_, w) in zip(ann.items(), snap["ann_items"])):
            out.add("__annotations__ content")
    if cls.__setattr__ is not snap["setattr"]:
        out.add("resolved __setattr__")
    if cls.__bases__ is not snap["bases"] and cls.__bases__ != snap["bases"]:
        out.add("__bases__")
    if cls.__name__ != snap["name"] or cls.__qualname__ != snap["qualname"]:
        out.add("__name__")
    return sorted(out)


def _kind(e):
    k = common.exc_kind(e)
    return k if k in EXC_KINDS else "other"


def _observe_foreign(case):
    """a specification of the C01/C02/C12 generator, built by *its* builder (aliases, pre/post hooks, chains)"""
    import initbuild as ib
    h = case["foreign"]["hspec"]
    try:
        parents = ib.build({"classes": h["classes"][:-1]}) if len(h["classes"]) > 1 else []
        base = parents[-1] if parents else (Exception if h["classes"][0].get("exc_base") else object)
    except Exception as e:  # noqa: BLE001 -- parents are valid by construction
        return {"exc": "other", "touched": ["<parents did not build: %s>" % type(e).__name__]}
    try:
        ib.build_class(h["classes"][-1], base)
    except Exception as e:  # noqa: BLE001
        return {"exc": _kind(e), "touched": []}
    return {"exc": None, "touched": []}


_DUNDERS = ("__init__", "__attrs_init__", "__repr__", "__str__", "__eq__", "__ne__", "__lt__", "__le__", "__gt__",
            "__ge__", "__hash__", "__setattr__", "__delattr__", "__getstate__", "__setstate__", "__match_args__",
            "__slots__", "__attrs_own_setattr__", "__weakref__", "__dict__")


def _probe(thunk):
    try:
        v = thunk()
    except Exception as e:  # noqa: BLE001
        return "exc:" + common.exc_kind(e)
    return v


def _fingerprint(cls):
    """what a user can tell about a defined class: fields, generated methods, signature, behaviour"""
    import inspect
    fs = []
    for a in attr.fields(cls):
        d = a.default
        on = a.on_setattr
        fs.append((a.name, "NOTHING" if d is NOTHING else type(d).__name__, a.init, a.kw_only, bool(a.eq), bool(a.order),
                   a.hash, repr(a.type), a.inherited, a.alias, "none" if on is None else ("noop" if on is setters.NO_OP else "hook"),
                   a.validator is not None, a.converter is not None, sorted(a.metadata)))
    own = sorted(k for k in vars(cls) if k in _DUNDERS)
    vals = {k: repr(vars(cls)[k]) for k in ("__slots__", "__match_args__", "__attrs_own_setattr__") if k in vars(cls)}
    sig = _probe(lambda: str(inspect.signature(cls.__init__)))
    kwargs = {a.alias: 1 for a in attr.fields(cls) if a.init}

    def mk():
        return cls(**kwargs)
    inst = _probe(mk)
    beh = {"make": inst if isinstance(inst, str) else "ok"}
    if not isinstance(inst, str):
        beh["repr"] = _probe(lambda: repr(inst))
        beh["eq"] = _probe(lambda: bool(inst == mk()))
        beh["hash"] = _probe(lambda: (hash(inst), "ok")[1])
        names = [a.name for a in attr.fields(cls)]
        if names:
            beh["set"] = _probe(lambda: (setattr(inst, names[0], 2), "ok")[1])
    return {"fields": fs, "own": own, "vals": vals, "sig": sig, "beh": beh,
            "ann": repr(vars(cls).get("__annotations__"))}


def _build(case, cfg, reg=None):
    """the class body runs: fields are made one after the other; returns (cas | exception, ...)"""
    cas = {}
    for f in case["fields"]:
        if f["bare"]:
            continue
        cas[f["name"]] = _make_field(f, cfg, reg)
    bases = _bases(case, cfg)
    ns, these = _body(case, cas)
    return bases, ns, these


def _rescue(case, cls, bases, ns, these):
    """apply a *valid* decorator (same front-end family, everything keyword-only, nothing else asked for) and
    describe the outcome: the exception kind, or the fingerprint of the class"""
    api = case["api"]
    try:
        if api == "makeClass":
            res = attr.make_class("C", these, bases=bases, class_body=ns, kw_only=True)
        elif api == "define":
            res = attrs.define(kw_only=True, these=these)(cls)
        else:
            res = attr.s(kw_only=True, these=these)(cls)
    except Exception as e:  # noqa: BLE001
        return {"exc": _kind(e)}
    return _probe(lambda: _fingerprint(res))


def _retry_differs(case, cfg, cls, bases, ns, these):
    """(b) after the failed decoration a valid decorator is applied to the same class, and to a fresh identical
    class that never saw the failed attempt: the two outcomes must be indistinguishable"""
    got = _rescue(case, cls, bases, ns, these)
    bases2, ns2, these2 = _build(case, cfg)
    cls2 = None if case["api"] == "makeClass" else type("C", bases2, ns2)
    want = _rescue(case, cls2, bases2, ns2, these2)
    if got == want:
        return []
    if not (isinstance(got, dict) and isinstance(want, dict)):
        return ["retry differs"]
    return ["retry differs: " + ",".join(sorted(k for k in set(got) | set(want) if got.get(k) != want.get(k)))]


def _validators_lost(res):
    """on a defined class every validator added with @x.validator is still there, in order"""
    out = []
    if not _EXPECT_VALIDATORS:
        return out
    by_name = {a.name: a for a in getattr(res, "__attrs_attrs__", ()) if not a.inherited}
    for n, exp in _EXPECT_VALIDATORS.items():
        a = by_name.get(n)
        if a is not None and [id(v) for v in _flat_validators(a.validator)] != [id(v) for v in exp]:
            out.append(f"validators of {n}")
    return out


def _observe(case):
    _EXPECT_VALIDATORS.clear()
    if "foreign" in case:
        return _observe_foreign(case)
    cfg = case.get("cfg") or {}
    # 1. the class body runs: fields are made one after the other
    reg = []
    del _KEEP[:]
    try:
        bases, ns, these = _build(case, cfg, reg)
    except ValidatorsLost as e:
        return {"exc": "other", "touched": [f"validators of {e}"]}
    except Exception as e:  # noqa: BLE001
        return {"exc": _kind(e), "touched": []}
    if case["api"] == "makeClass":
        reg.append(("class_body dict", ns, dict(ns)))
    kw = _class_kwargs(case, cfg)
    api = case["api"]
    if api == "makeClass":
        # no class exists before the call; the caller's dict, the attr.ib() objects in it and the containers
        # handed over are what can be compared after a failure
        snap = _snapshot(None, these, reg)
        try:
            attr.make_class("C", these, bases=bases, class_body=ns, **kw)
        except Exception as e:  # noqa: BLE001
            return {"exc": _kind(e), "touched": _diff(None, snap, these) + _retry_differs(case, cfg, None, bases, ns, these)}
        return {"exc": None, "touched": []}
    cls = type("C", bases, ns)
    snap = _snapshot(cls, these, reg)
    if these is not None:
        kw["these"] = these
    try:
        if api == "define":
            if cfg.get("frozenAlias") and case["frozen"] and case["onSetattr"] == "none" and not cfg.get("explicit"):
                kw2 = dict(kw)
                kw2.pop("frozen", None)
                deco = attrs.frozen(**kw2)
            else:
                deco = attrs.define(**kw)
        else:
            deco = attr.s(**kw)
        res = deco(cls)
    except Exception as e:  # noqa: BLE001
        return {"exc": _kind(e), "touched": _diff(cls, snap, these) + _retry_differs(case, cfg, cls, bases, ns, these)}
    return {"exc": None, "touched": _validators_lost(res)}


_COUNT = [0]


def observe(case):
    _COUNT[0] += 1
    if _COUNT[0] % 100 == 0:
        common.purge_linecache()
    return _observe(case)


# ------------------------------------------------------------------------------------------ case construction
def fld(name, **over):
    f = dict(FIELD_DEFAULT, name=name)
    f.update(over)
    return f


def battr(name, **over):
    a = dict(ATTR_DEFAULT, name=name)
    a.update(over)
    return a


def mk(fields=(), base=(), cfg=None, **over):
    c = dict(CLASS_DEFAULT)
    c.update(over)
    c["fields"] = [dict(f) for f in fields]
    c["baseAttrs"] = [dict(a) for a in base]
    c["cfg"] = dict(CFG_DEFAULT, **(cfg or {}))
    return normalize(c)


def _base_order_ok(attrs_):
    had = False
    for a in attrs_:
        if a["init"] and not a["kwOnly"]:
            if had and not a["dflt"]:
                return False
            had = had or a["dflt"]
    return True


def normalize(c):
    """repair a case so that it is well-formed (`Attrs.C15.wf`) and buildable; idempotent"""
    c = dict(c)
    cfg = dict(CFG_DEFAULT, **(c.get("cfg") or {}))
    if isinstance(c["transformer"], str):
        c["transformer"] = TR_CATALOGUE[c["transformer"]]
    if c["api"] == "define":
        c["cmp"] = "none"
    if c["api"] == "makeClass":
        c["these"] = True
        c["autoAttribs"] = "unset"
    if c["ownEq"]:
        c["ownHash"] = True
    fields = []
    seen = set()
    for f in c["fields"]:
        f = dict(f)
        if f["name"] in seen:
            continue
        seen.add(f["name"])
        f.setdefault("decoMore", 0)
        f.setdefault("valDeco", 0)
        if f["decoMore"]:
            f["deco"] = True
        if f["bare"]:
            f = dict(FIELD_DEFAULT, name=f["name"], bare=True, annotated=True, dflt=f["dflt"])
        fields.append(f)
    c["fields"] = fields
    base = []
    seen = set()
    for a in c["baseAttrs"]:
        a = dict(a)
        if a["name"] in seen:
            continue
        seen.add(a["name"])
        if c["baseFrozen"] or cfg.get("hiddenFrozen"):
            a["onSetattr"] = "none"
        base.append(a)
    if not _base_order_ok(base):
        base = sorted(base, key=lambda a: a["dflt"])
    c["baseAttrs"] = base
    # harness-only shape constraints
    if cfg["hiddenFrozen"]:
        cfg["mid"] = "setattr"
        c["baseFrozen"] = False
    if cfg["mid"] == "setattr":
        # a plain class with its own __setattr__ in between hides a frozen base
        if c["baseFrozen"]:
            cfg["mid"] = "plain"
    if cfg["baseApi"] == "define":
        cfg["collectByMro"] = cfg["collectByMro"]
    c["cfg"] = cfg
    return c


# ------------------------------------------------------------------------------------------ python mirror of the table (for dist / nontrivial only)
def _applies_any_field_rule(c):
    for f in c["fields"]:
        if f["bare"]:
            continue
        if f["cmp"] != "none" and (f["eq"] != "none" or f["order"] != "none"):
            return "fieldCmpMixed"
        if f["cmp"] == "none" and f["eq"] == "f" and f["order"] in ("t", "key"):
            return "fieldOrderWithoutEq"
        if f["hash"] == "bad":
            return "fieldHashNotBool"
        if f["dflt"] and f["factory"]:
            return "defaultAndFactory"
        if f["deco"] and (f["dflt"] or f["factory"] or f.get("decoMore")):
            return "secondDefault"
    return None


def nontrivial(case, model):
    return bool(case["fields"]) or bool(case["baseAttrs"]) or (isinstance(model, dict) and model.get("exc") is not None)


def dist(case, obs):
    cfg = case.get("cfg") or {}
    exc = obs.get("exc") if isinstance(obs, dict) else "?"
    pos = "none"
    if any(f["onSetattr"] != "none" for f in case["fields"]):
        pos = "own"
    elif any(a["onSetattr"] != "none" for a in case["baseAttrs"]):
        pos = "inherited"
    return {
        "api": case["api"] + ("+these" if case["these"] and case["api"] != "makeClass" else ""),
        "slots": case["slots"],
        "exc": exc,
        "n_fields": len(case["fields"]),
        "n_base": len(case["baseAttrs"]),
        "frozen/baseFrozen": f"{case['frozen']}/{case['baseFrozen']}",
        "autoAttribs": case["autoAttribs"],
        "transformer": tr_name(case["transformer"]),
        "stream": case.get("stream", "?"),
        "hook_position": pos,
        "field_rule": _applies_any_field_rule(case),
        "touched": bool(obs.get("touched")) if isinstance(obs, dict) else "?",
        "mid": cfg.get("mid"),
        "hostile": ",".join(sorted(set((cfg.get("hostile") or {}).values()))) or "none",
    }


# ------------------------------------------------------------------------------------------ deltas
def class_deltas():
    for k, vals in CLASS_SPACE.items():
        for v in vals:
            yield ("cls", k, v)


def field_deltas(i):
    for k, vals in FIELD_SPACE.items():
        for v in vals:
            yield ("fld", i, k, v)


def base_deltas(i):
    for k, vals in ATTR_SPACE.items():
        for v in vals:
            yield ("base", i, k, v)


def apply_delta(c, d):
    """returns a new (normalised) case or None if the delta changes nothing"""
    c2 = dict(c)
    if d[0] == "cls":
        _, k, v = d
        if c[k] == v:
            return None
        c2[k] = v
    elif d[0] == "fld":
        _, i, k, v = d
        if i >= len(c["fields"]) or c["fields"][i][k] == v:
            return None
        fs = [dict(f) for f in c["fields"]]
        fs[i][k] = v
        if k != "bare" and fs[i]["bare"] and k != "dflt":
            return None
        c2["fields"] = fs
    elif d[0] == "base":
        _, i, k, v = d
        if i >= len(c["baseAttrs"]) or c["baseAttrs"][i][k] == v:
            return None
        bs = [dict(a) for a in c["baseAttrs"]]
        bs[i][k] = v
        c2["baseAttrs"] = bs
    elif d[0] == "addfld":
        _, f = d
        if any(g["name"] == f["name"] for g in c["fields"]):
            return None
        c2["fields"] = [dict(g) for g in c["fields"]] + [dict(f)]
    elif d[0] == "cfg":
        _, k, v = d
        if (c.get("cfg") or {}).get(k) == v:
            return None
        c2["cfg"] = dict(c.get("cfg") or {}, **{k: v})
    return normalize(c2)


def all_deltas(c):
    ds = list(class_deltas())
    for i in range(len(c["fields"])):
        ds += list(field_deltas(i))
    for i in range(len(c["baseAttrs"])):
        ds += list(base_deltas(i))
    ds.append(("addfld", fld("n1")))
    ds.append(("addfld", fld("n2", dflt=True)))
    ds.append(("addfld", fld("n3", bare=True, annotated=True)))
    ds.append(("addfld", fld("n4", onSetattr="hook")))
    ds.append(("addfld", fld("n5", init=False, onSetattr="hook")))
    ds.append(("addfld", fld("n6", validator=True)))
    return ds


def rand_hostile(rng):
    """one kind of unpleasantness for a random subset of the roles (or a different kind per role)"""
    if rng.random() < 0.6:
        k = rng.choice(HOSTILE_KINDS)
        roles = HOSTILE_ROLES if rng.random() < 0.5 else rng.sample(HOSTILE_ROLES, rng.randrange(1, 5))
        return {r: k for r in roles if (r, k) in HOSTILE_OK}
    return {r: k for r in HOSTILE_ROLES for k in [rng.choice(HOSTILE_KINDS)] if (r, k) in HOSTILE_OK and rng.random() < 0.6}


def all_hostile(kind):
    return {r: kind for r in HOSTILE_ROLES if (r, kind) in HOSTILE_OK}


def rand_cfg(rng):
    cfg = {
        "badHash": rng.randrange(4),
        "hookKind": rng.choice(["fn", "fn", "list", "validate", "frozen", "pipe"]),
        "explicit": rng.random() < 0.25,
        "baseApi": rng.choice(["attrS", "define"]),
        "baseSlots": rng.random() < 0.4,
        "mid": rng.choice(["none", "none", "plain", "setattr"]),
        "hiddenFrozen": rng.random() < 0.12,
        "collectByMro": rng.random() < 0.5,
        "frozenAlias": rng.random() < 0.5,
        "fieldApi": rng.choice(["ib", "field"]),
        "emptyBase": rng.random() < 0.2,
        "containers": rng.random() < 0.4,
        "identityTr": rng.random() < 0.2,
        "hostile": rand_hostile(rng) if rng.random() < 0.35 else None,
    }
    if cfg["hostile"]:
        cfg["hookKind"] = "fn"
    return cfg


def with_cfg(c, rng):
    cfg = rand_cfg(rng)
    old = c.get("cfg") or {}
    if old.get("hostile"):
        cfg["hostile"] = old["hostile"]
        cfg["hookKind"] = "fn"
    if old.get("containers"):
        cfg["containers"] = True
    return normalize(dict(c, cfg=cfg))


# ------------------------------------------------------------------------------------------ seeds
def seeds():
    """valid (or deliberately single-contradiction) shapes around which the lattice is explored"""
    out = []
    A = lambda **o: fld("a", **o)  # noqa: E731
    Bf = lambda **o: fld("b", **o)  # noqa: E731
    Cf = lambda **o: fld("c", **o)  # noqa: E731
    shapes = [
        ([], []),
        ([A()], []),
        ([A(), Bf(dflt=True)], []),
        ([A(annotated=True), Bf(annotated=True, dflt=True)], []),
        ([A(bare=True, annotated=True), Bf(annotated=True, dflt=True), Cf(bare=True, annotated=True, dflt=True)], []),
        ([A(dflt=True), Bf(kwOnly=True)], []),
        ([A(factory=True), Bf(init=False)], []),
        ([A(validator=True), Bf(converter=True, dflt=True)], []),
        ([A(onSetattr="hook"), Bf(onSetattr="noop", dflt=True)], []),
        ([A(init=False, onSetattr="hook")], []),
        ([A()], [battr("p")]),
        ([A(dflt=True)], [battr("p"), battr("q", dflt=True)]),
        ([A(kwOnly=True)], [battr("p", dflt=True)]),
        ([A()], [battr("p", onSetattr="hook")]),
        ([fld("p")], [battr("p", dflt=True), battr("q", dflt=True)]),      # re-declared inherited name
        ([A(annotated=True, typeArg=False), Bf(typeArg=True)], []),
        ([A(eq="f"), Bf(order="f", eq="key"), Cf(cmp="key", dflt=True)], []),
        ([A(hash="t"), Bf(hash="f", dflt=True)], []),
        ([A(deco=True)], []),
        ([A(valDeco=2), Bf(deco=True, valDeco=1)], []),
    ]
    for fields, base in shapes:
        for api in ("attrS", "define", "makeClass"):
            out.append(mk(fields, base, api=api))
    extra = [
        mk([A(), Bf(dflt=True)], api="attrS", these=True),
        mk([A(annotated=True), Bf(annotated=True, dflt=True)], api="define", these=True),
        mk([A(annotated=True), Bf(annotated=True, dflt=True)], api="attrS", autoAttribs="t"),
        mk([A(annotated=True), Bf(annotated=True, dflt=True)], api="define", autoAttribs="t"),
        mk([A(annotated=True), Bf(annotated=True, dflt=True)], api="define", autoAttribs="f"),
        mk([A(annotated=True, dflt=True), Bf(annotated=True)], api="define", annReversed=True),
        mk([A()], api="attrS", frozen=True),
        mk([A()], api="define", frozen=True),
        mk([A()], [battr("p")], api="attrS", baseFrozen=True),
        mk([A()], [battr("p")], api="define", baseFrozen=True),
        mk([A()], [battr("p")], api="makeClass", baseFrozen=True),
        mk([A()], api="attrS", frozen=True, cacheHash=True),
        mk([A()], api="define", unsafeHash="t", cacheHash=True),
        mk([A()], api="attrS", autoDetect="t", ownSetattr=True),
        mk([A()], api="define", ownSetattr=True),
        mk([A()], api="define", ownEq=True, ownHash=True),
        mk([A()], api="attrS", autoDetect="t", ownInit=True, ownRepr=True),
        mk([A()], api="attrS", isBaseExc=True, autoExc="t"),
        mk([A()], api="define", isBaseExc=True),
        mk([A(), Bf(dflt=True)], api="attrS", kwOnly=True),
        mk([A(dflt=True), Bf()], api="define", transformer="mandatoryFirst"),
        mk([A(dflt=True), Bf()], api="attrS", kwOnly=True, transformer="firstPositional"),
        mk([A(), Bf(dflt=True)], [battr("p")], api="define", kwOnly=True, transformer="positionalAll"),
        mk([A(), Bf(dflt=True)], api="makeClass", transformer="firstNoDefault"),
        mk([A(), Bf(dflt=True)], api="attrS", onSetattr="hook"),
        mk([A(validator=True)], api="attrS", onSetattr="validate"),
        mk([A()], api="define", onSetattr="noop"),
        mk([A()], api="attrS", eq="f", order="f"),
        mk([A()], api="attrS", cmp="f"),
        mk([A()], api="define", eq="f", order="none"),
        mk([A()], api="attrS", str=True),
        mk([A()], api="attrS", init="f"),
    ]
    return out + extra


# ------------------------------------------------------------------------------------------ hand-listed grid
def rule_grid():
    """every rule x api x slots x position of the offending field (own / inherited / frozen base), with near misses"""
    A = lambda **o: fld("a", **o)  # noqa: E731
    Bf = lambda **o: fld("b", **o)  # noqa: E731
    apis = [("attrS", {}), ("define", {}), ("makeClass", {}), ("attrS", {"these": True}), ("define", {"these": True}),
            ("attrS", {"autoAttribs": "t"}), ("define", {"autoAttribs": "t"}), ("define", {"autoAttribs": "f"})]
    for (api, extra), slots in itertools.product(apis, OPTB):
        aa = extra.get("autoAttribs") == "t" or (api == "define" and "autoAttribs" not in extra)
        ann = {"annotated": True} if aa else {}
        base = dict(api=api, slots=slots, **extra)

        def M(fields=(), b=(), **o):
            return mk(fields, b, **dict(base, **o))

        # ordering rule: own / inherited / re-declared / kw_only / init=False / transformer
        for d1 in ("dflt", "factory", "deco"):
            yield M([A(**{d1: True}, **ann), Bf(**ann)])
            yield M([A(**{d1: True}, **ann), Bf(kwOnly=True, **ann)])
            yield M([A(**{d1: True}, **ann), Bf(init=False, **ann)])
            yield M([A(**{d1: True}, kwOnly=True, **ann), Bf(**ann)])
            yield M([A(**{d1: True}, init=False, **ann), Bf(**ann)])
            yield M([A(**{d1: True}, **ann), Bf(**ann)], kwOnly=True)
        yield M([A(**ann)], [battr("p", dflt=True)])
        yield M([A(kwOnly=True, **ann)], [battr("p", dflt=True)])
        yield M([A(**ann)], [battr("p", dflt=True, kwOnly=True)])
        yield M([A(**ann)], [battr("p", dflt=True, init=False)])
        yield M([A(**ann)], [battr("p", dflt=True)], kwOnly=True)
        yield M([fld("p", **ann)], [battr("p", dflt=True)])
        yield M([fld("p", **ann), A(**ann)], [battr("p", dflt=True)])
        yield M([fld("q", **ann)], [battr("p"), battr("q", dflt=True)])
        # transformers (reorder / drop / add / per-field edits of kw_only, default, init, hooks) x class-level kw_only
        # x per-field kw_only x inheritance position: the rule is judged on what the transformer RETURNS
        for t, kwo in itertools.product(TRS, (False, True)):
            yield M([A(dflt=True, **ann), Bf(**ann)], transformer=t, kwOnly=kwo)
            yield M([A(**ann), Bf(dflt=True, **ann)], transformer=t, kwOnly=kwo)
            yield M([A(**ann)], [battr("p", dflt=True)], transformer=t, kwOnly=kwo)
            yield M([A(dflt=True, **ann)], [battr("p")], transformer=t, kwOnly=kwo)
            yield M([A(**ann), Bf(**ann)], [battr("p", dflt=True), battr("q")], transformer=t, kwOnly=kwo)
            yield M([A(dflt=True, **ann)], transformer=t, kwOnly=kwo)
            yield M([A(dflt=True, kwOnly=True, **ann), Bf(**ann)], transformer=t, kwOnly=kwo)
            yield M([A(dflt=True, **ann), Bf(kwOnly=True, **ann)], transformer=t, kwOnly=kwo)
            yield M([A(dflt=True, **ann), Bf(init=False, **ann), fld("c", **ann)], transformer=t, kwOnly=kwo)
            yield M([A(**ann)], [battr("p", dflt=True, kwOnly=True)], transformer=t, kwOnly=kwo)
            yield M([A(onSetattr="hook", **ann), Bf(dflt=True, **ann)], frozen=True, transformer=t, kwOnly=kwo)
            yield M([A(**ann), Bf(dflt=True, **ann)], frozen=True, transformer=t, kwOnly=kwo)
        if aa:
            yield M([A(dflt=True, annotated=True), Bf(annotated=True)], annReversed=True)
            yield M([A(annotated=True), Bf(dflt=True, annotated=True)], annReversed=True)
            yield M([A(bare=True, annotated=True, dflt=True), Bf(annotated=True)])
            yield M([A(bare=True, annotated=True, dflt=True), Bf(bare=True, annotated=True)])
            yield M([A(bare=True, annotated=True, dflt=True), Bf()])           # unannotated field(): error or fallback
            yield M([A(annotated=True), Bf()])
            yield M([A(annotated=True, dflt=True), Bf()])
            yield M([A(bare=True, annotated=True, dflt=True), Bf(), fld("c", dflt=True)], frozen=True, ownSetattr=True)
        # hostile-but-valid user objects in every role: valid specifications still define, contradictory ones are
        # still rejected with the documented type
        for kind in HOSTILE_KINDS:
            hc = {"hostile": all_hostile(kind), "identityTr": True}
            rich = [A(validator=True, converter=True, typeArg=not ann, **ann), Bf(dflt=True, eq="key", order="key", **ann),
                    fld("c", factory=True, onSetattr="hook", **ann)]
            yield M(rich, cfg=hc)
            yield M(rich, cfg=hc, onSetattr="hook")
            yield M(rich, cfg=hc, onSetattr="hook", transformer="reverse")
            yield M(rich, [battr("p", dflt=True)], cfg=hc, kwOnly=True, transformer="kwOnlyAll")
            yield M(rich, cfg=hc, frozen=True)                                  # field hook on frozen: ValueError
            yield M(rich[:2], cfg=hc, frozen=True, onSetattr="hook")            # class hook on frozen: ValueError
            yield M(rich[:2], cfg=hc, frozen=True, unsafeHash="t", cacheHash=True)
            yield M(rich[:2], cfg=hc, onSetattr="hook", ownSetattr=True, autoDetect="t")   # ValueError
            yield M(rich[:2], [battr("p")], cfg=hc, onSetattr="hook", baseFrozen=True)     # ValueError
            yield M([A(dflt=True, **ann), Bf(**ann)], cfg=hc)                  # order: ValueError
            yield M([A(dflt=True, factory=True, **ann)], cfg=hc)               # default + factory: ValueError
        # annotated attr.ib()/field() bodies (whatever the auto_attribs mode) x rules that fire after the
        # fields were collected: a failed decoration must not leave anything on the attr.ib() objects
        late = [dict(cacheHash=True), dict(cacheHash=True, unsafeHash="t", init="f"), dict(hash="bad"),
                dict(frozen=True, onSetattr="hook"), dict(str=True, repr="f"), dict(kwOnly=False),
                dict(autoDetect="t", ownSetattr=True, onSetattr="hook"), dict(cacheHash=True, eq="f")]
        for o in late:
            yield M([A(annotated=True), Bf(annotated=True, dflt=True)], **o)
            yield M([A(annotated=True, validator=True), Bf(annotated=True, factory=True, converter=True)],
                    cfg={"containers": True}, **o)
            yield M([A(annotated=True, onSetattr="hook"), Bf(annotated=True, dflt=True)], **dict(o, frozen=True))
            yield M([A(annotated=True, dflt=True), Bf(annotated=True)], **o)
        # class-level eq/order/cmp
        for cmp_, eq, order in itertools.product(F3, F3, ["unset", "none", "t", "f"]):
            yield M([A(**ann)], cmp=cmp_, eq=eq, order=order)
            yield M([A(**ann)], cmp=cmp_, eq=eq, order=order, ownEq=True, autoDetect="t")
        # field-level eq/order/cmp, hash, default+factory, second default, annotation+type
        for cmp_, eq, order in itertools.product(FIELD_SPACE["cmp"], FIELD_SPACE["eq"], FIELD_SPACE["order"]):
            yield M([A(cmp=cmp_, eq=eq, order=order, **ann)])
        for h in HASH:
            yield M([A(hash=h, **ann)])
            yield M([A(**ann), Bf(hash=h, dflt=True, **ann)])
        # every sequence of default sources: default= / factory= at creation, then @x.default 0..3 times; and
        # @x.validator 0..2 times next to validator= (valid: validators accumulate)
        for dflt, fac, nd, nv, v in itertools.product([False, True], [False, True], [0, 1, 2, 3], [0, 1, 2], [False, True]):
            yield M([A(dflt=dflt, factory=fac, deco=nd > 0, decoMore=max(nd - 1, 0), valDeco=nv, validator=v, **ann)])
        for nd, nv in itertools.product([1, 2, 3], [0, 2]):
            yield M([A(**ann), Bf(deco=True, decoMore=nd - 1, valDeco=nv, **ann)], cfg={"fieldApi": "field"})
            yield M([A(valDeco=2, **ann)], onSetattr="validate", ownSetattr=True, autoDetect="t")
        for annot, ty in itertools.product([False, True], repeat=2):
            yield M([A(annotated=annot, typeArg=ty)])
            yield M([A(annotated=annot, typeArg=ty), Bf(bare=True, annotated=True)])
        # hash / cache_hash table
        for h, uh, eq, fr, ch in itertools.product(HASH, HASH, F3, [False, True], [False, True]):
            yield M([A(**ann)], hash=h, unsafeHash=uh, eq=eq, frozen=fr, cacheHash=ch)
        for h, own_eq, own_hash, det, fr in itertools.product(["none", "t"], [False, True], [False, True], OPTB, [False, True]):
            yield M([A(**ann)], hash=h, ownEq=own_eq, ownHash=own_hash, autoDetect=det, frozen=fr, cacheHash=True)
        for exc, ae, uh in itertools.product([False, True], OPTB, ["none", "t"]):
            yield M([A(**ann)], isBaseExc=exc, autoExc=ae, unsafeHash=uh, cacheHash=True, frozen=True)
        for init, own_init, det in itertools.product(F3, [False, True], OPTB):
            yield M([A(**ann)], init=init, ownInit=own_init, autoDetect=det, cacheHash=True, unsafeHash="t")
        for rep, own_repr, det, st in itertools.product(F3, [False, True], OPTB, [False, True]):
            yield M([A(**ann)], repr=rep, ownRepr=own_repr, autoDetect=det, str=st)
        # on_setattr x frozen (own / inherited field / frozen base) x own __setattr__
        for on, fr, bfr, own_sa, det in itertools.product(CLASS_SPACE["onSetattr"], [False, True], [False, True],
                                                          [False, True], OPTB):
            yield M([A(**ann)], onSetattr=on, frozen=fr, baseFrozen=bfr, ownSetattr=own_sa, autoDetect=det)
            yield M([A(validator=True, **ann)], onSetattr=on, frozen=fr, baseFrozen=bfr, ownSetattr=own_sa, autoDetect=det)
            yield M([], onSetattr=on, frozen=fr, baseFrozen=bfr, ownSetattr=own_sa, autoDetect=det)
        for fon, init, dflt, fr, bfr, own_sa in itertools.product(FIELD_SPACE["onSetattr"], [True, False], [False, True],
                                                                  [False, True], [False, True], [False, True]):
            yield M([A(onSetattr=fon, init=init, dflt=dflt, **ann)], frozen=fr, baseFrozen=bfr, ownSetattr=own_sa,
                    autoDetect="t")
            yield M([A(**ann)], [battr("p", onSetattr=fon, init=init, dflt=dflt)], frozen=fr, ownSetattr=own_sa,
                    autoDetect="t")
            yield M([A(onSetattr=fon, init=init, dflt=dflt, **ann)], frozen=fr, baseFrozen=bfr, onSetattr="noop")
        for v, cv, fon, on in itertools.product([False, True], [False, True], FIELD_SPACE["onSetattr"],
                                                CLASS_SPACE["onSetattr"]):
            yield M([A(validator=v, converter=cv, onSetattr=fon, **ann)], ownSetattr=True, autoDetect="t", onSetattr=on)
            yield M([A(**ann)], [battr("p", validator=v, converter=cv, onSetattr=fon)], ownSetattr=True, autoDetect="t",
                    onSetattr=on)


# ------------------------------------------------------------------------------------------ random
def rand_field(rng, name, p):
    f = fld(name)
    if rng.random() < 0.12:
        f["bare"] = True
        f["annotated"] = True
        f["dflt"] = rng.random() < 0.5
        return f
    for k, vals in FIELD_SPACE.items():
        if k == "bare":
            continue
        if rng.random() < p:
            f[k] = rng.choice(vals)
    return f


def rand_attr(rng, name, p):
    a = battr(name)
    for k, vals in ATTR_SPACE.items():
        if rng.random() < p:
            a[k] = rng.choice(vals)
    return a


def rand_case(rng):
    p = rng.choice([0.03, 0.08, 0.15, 0.3])
    c = dict(CLASS_DEFAULT)
    c["api"] = rng.choice(["attrS", "attrS", "define", "define", "makeClass"])
    for k, vals in CLASS_SPACE.items():
        if k != "api" and rng.random() < p:
            c[k] = rng.choice(vals)
    if rng.random() < 0.12:
        # a free-form transformer: any combination of per-field edits, reshaping and an added attribute
        be = lambda: rng.choice(["keep", "keep", "keep", "setT", "setF"])  # noqa: E731
        he = lambda: rng.choice(["keep", "keep", "keep", "strip", "setHook"])  # noqa: E731
        c["transformer"] = tr(rng.choice(["none", "none", "reverse", "dropFirst", "dropLast", "mandatoryFirst"]),
                              all={"kwOnly": be(), "dflt": be(), "init": be(), "hooks": he()},
                              first={"kwOnly": be(), "dflt": be(), "init": be(), "hooks": he()},
                              n_first=rng.choice([0, 1, 1, 2, 3]),
                              add=rng.choice(["none", "none", "mandatoryLast", "defaultedFirst", "kwMandatoryLast"]))
    n = rng.choice([0, 1, 2, 2, 3, 3, 4])
    pf = rng.choice([0.03, 0.08, 0.2])
    fields = [rand_field(rng, NAMES[i], pf) for i in range(n)]
    mode = rng.random()
    if mode < 0.35:
        for f in fields:
            f["annotated"] = True
    elif mode < 0.6:
        for f in fields:
            if not f["bare"]:
                f["annotated"] = False
    if rng.random() < 0.5:
        # mostly-valid order: defaults last among positional fields
        fields.sort(key=lambda f: (f["dflt"] or f["factory"] or f["deco"]) and 1 or 0)
    nb = rng.choice([0, 0, 0, 1, 2, 3])
    base = [rand_attr(rng, BASE_NAMES[i], pf) for i in range(nb)]
    if nb and fields and rng.random() < 0.15:
        fields[0]["name"] = base[0]["name"]
    c["fields"] = fields
    c["baseAttrs"] = base
    c["cfg"] = rand_cfg(rng)
    c["stream"] = "random"
    return normalize(c)


# ------------------------------------------------------------------------------------------ C03's specifications mapped into this space
def from_c03(case03):
    cfg = case03.get("cfg", {})
    api = cfg.get("api", "attr.s")
    m = {"unset": "none", "t": "t", "f": "f", "key": "key"}
    fields = [fld(f["name"], cmp=m[f["cmp"]], eq=m[f["eq"]]) for f in case03["fields"]]
    o = dict(api="attrS" if api == "attr.s" else "define")
    if cfg.get("slots") is not None:
        o["slots"] = "t" if cfg["slots"] else "f"
    if cfg.get("frozen") or api == "frozen":
        o["frozen"] = True
    ce = cfg.get("cls_eq", "unset")
    if ce == "t":
        o["eq"] = "t"
    elif ce == "cmp_t" and api == "attr.s":
        o["cmp"] = "t"
    co = cfg.get("cls_order", "unset")
    if co != "unset" and "cmp" not in o:
        o["order"] = co
    c = mk(fields, **o)
    c["stream"] = "c03"
    return c


# ------------------------------------------------------------------------------------------ C01/C02/C12's specifications
def _attr_of(a):
    on = a.on_setattr
    return {"name": a.name, "dflt": a.default is not NOTHING, "init": a.init is not False, "kwOnly": bool(a.kw_only),
            "onSetattr": "none" if on is None else ("noop" if on is setters.NO_OP else "hook"),
            "validator": a.validator is not None, "converter": a.converter is not None}


def _real_base_attrs(parent, by_mro):
    """what the leaf will collect from the (real, already built) classes above it"""
    mro = parent.__mro__[:-1]
    out = []
    if by_mro:
        for b in reversed(mro):
            for a in b.__dict__.get("__attrs_attrs__", ()):      # the MRO collector reads each class's own tuple
                if not a.inherited:
                    out.append(a)
        seen, filt = set(), []
        for a in reversed(out):
            if a.name not in seen:
                seen.add(a.name)
                filt.insert(0, a)
        return filt
    taken = set()
    for b in mro:
        for a in getattr(b, "__attrs_attrs__", []):
            if a.name not in taken:
                taken.add(a.name)
                out.append(a)
    return out


def _break_leaf(rng, cs):
    """one change to a valid leaf spec that may or may not make it contradictory"""
    k = rng.randrange(9)
    fs = cs.get("fields", [])
    if k == 0:
        cs["frozen"] = True if cs.get("api") != "frozen" else None
        if cs.get("api") == "frozen":
            cs["cls_on_setattr"] = "hook"
    elif k == 1:
        cs["cache_hash"] = True
    elif k == 2:
        for f in fs:
            f["kw_only"] = False
    elif k == 3:
        cs["cls_on_setattr"] = rng.choice(["hook", "validate", "noop", "pipeCV"])
    elif k == 4 and fs:
        rng.choice(fs)["on_setattr"] = rng.choice(["hook", "noop", "hooks2"])
    elif k == 5 and fs:
        fs[0]["default"] = "value"
        fs[0]["kw_only"] = False
        fs[0]["init"] = True
    elif k == 6:
        cs["unsafe_hash"] = rng.choice([False, None])
        cs["cache_hash"] = True
    elif k == 7:
        cs["init"] = False
    elif k == 8:
        cs["kw_only"] = not cs.get("kw_only")


def from_hspec(h):
    import initbuild as ib
    classes = h["classes"]
    leaf = classes[-1]
    api = leaf.get("api", "attr.s")
    parents = ib.build({"classes": classes[:-1]}) if len(classes) > 1 else []
    parent = parents[-1] if parents else None
    by_mro = True if api in ("define", "frozen") else bool(leaf.get("collect_by_mro"))
    exc_base = bool(classes[0].get("exc_base"))
    o = dict(CLASS_DEFAULT)
    o["api"] = {"attr.s": "attrS", "these": "attrS", "make_class": "makeClass", "define": "define", "frozen": "define"}[api]
    o["these"] = api in ("these", "make_class")
    o["isBaseExc"] = exc_base
    if parent is not None:
        o["baseFrozen"] = parent.__setattr__ is attr._make._frozen_setattrs
    tri = {None: "none", True: "t", False: "f"}
    opt = {None: "unset", True: "t", False: "f"}
    o["slots"] = opt[leaf.get("slots")]
    o["frozen"] = bool(leaf.get("frozen")) or api == "frozen"
    o["kwOnly"] = bool(leaf.get("kw_only"))
    o["cacheHash"] = bool(leaf.get("cache_hash"))
    o["autoExc"] = opt[leaf.get("auto_exc")]
    o["autoDetect"] = opt[leaf.get("auto_detect")]
    o["init"] = tri[leaf.get("init")]
    o["eq"] = tri[leaf.get("eq")]
    o["unsafeHash"] = tri[leaf.get("unsafe_hash")]
    con = leaf.get("cls_on_setattr", "unset")
    o["onSetattr"] = {"unset": "none", "noop": "noop", "hook": "hook", "validate": "validate", "convert": "convert",
                      "pipeCV": "hook"}[con]
    fields = []
    for f in leaf.get("fields", []):
        d = f.get("default", "none")
        annotated = bool(f.get("annotated") and f.get("type")) and api in ("attr.s", "define", "frozen")
        fields.append(fld(
            f["name"], annotated=annotated, dflt=d in ("value", "factory_self", "decorator"), factory=d == "factory",
            init=bool(f.get("init", True)), kwOnly=bool(f.get("kw_only")),
            eq="f" if f.get("eq") is False else "none",
            onSetattr={"unset": "none", "noop": "noop"}.get(f.get("on_setattr", "unset"), "hook"),
            typeArg=bool(f.get("type") and not f.get("annotated")),
            validator=f.get("validators", 0) > 0, converter=bool(f.get("converter"))))
    c = dict(o)
    c["fields"] = fields
    c["baseAttrs"] = [_attr_of(a) for a in _real_base_attrs(parent, by_mro)] if parent is not None else []
    c["cfg"] = dict(CFG_DEFAULT)
    c["foreign"] = {"kind": "hspec", "hspec": h}
    c["stream"] = "initgroup"
    return c


def foreign_initgroup(tier, rng):
    import copy

    import initbuild as ib
    n = 700 if tier == "quick" else 20000
    for i in range(n):
        h = ib.gen_hspec(rng)
        try:
            yield from_hspec(h)
            for _ in range(2):
                h2 = copy.deepcopy(h)
                _break_leaf(rng, h2["classes"][-1])
                # two init fields sharing a parameter name (`_p` and `p`) make the generated __init__ a
                # SyntaxError: not a valid Python class definition, outside the property's table
                al = [f.get("alias") or ib.default_alias(f["name"]) for f in ib.expected_fields(h2) if f.get("init", True)]
                if len(set(al)) != len(al):
                    continue
                c = from_hspec(h2)
                c["stream"] = "initgroup-changed"
                yield c
        except Exception:  # noqa: BLE001 -- a parent chain that does not build is the other generator's business
            continue


# ------------------------------------------------------------------------------------------ generator
def _tag(c, s):
    c = dict(c)
    c["stream"] = s
    return c


def gen_cases(tier, rng):
    sd = seeds()
    # (2) the hand-listed grid: complete in thorough, a seeded third in quick
    grid = list(rule_grid())
    if tier == "quick":
        grid = [c for c in grid if rng.random() < 0.17]
    # (1a) seeds and every single-option change
    for s in sd:
        yield _tag(s, "seed")
        for d in all_deltas(s):
            c = apply_delta(s, d)
            if c is not None:
                yield _tag(c, "single")
    for i, c in enumerate(grid):
        yield _tag(with_cfg(c, rng) if i % 2 else c, "grid")
    # (4) C03's specifications
    try:
        import random as _random

        from props import c03
        n03 = 300 if tier == "quick" else 5000
        for k, c3 in enumerate(c03.gen_cases("quick", _random.Random(rng.randrange(1 << 30)))):
            if k >= n03:
                break
            # two init fields sharing a parameter name (`_b` and `b`) make the generated __init__ a SyntaxError:
            # not a valid Python class definition, outside the property's table
            al = [f["name"].lstrip("_") for f in c3["fields"]]
            if len(set(al)) != len(al):
                continue
            yield from_c03(c3)
    except ImportError:
        pass
    # (5) the specifications of the initializer group (C01/C02/C12), as generated and with one change to the leaf
    yield from foreign_initgroup(tier, rng)
    # (1b) pairs of changes; (3) random; interleaved so that a time cut keeps both
    def pairs():
        if tier == "thorough":
            def of_seed(s):
                ds = all_deltas(s)
                for d1, d2 in itertools.combinations(ds, 2):
                    if d1[:-1] == d2[:-1]:
                        continue
                    c1 = apply_delta(s, d1)
                    if c1 is None:
                        continue
                    c2 = apply_delta(c1, d2)
                    if c2 is not None:
                        yield _tag(with_cfg(c2, rng) if rng.random() < 0.3 else c2, "pair")
            # round-robin over the seeds, so that a time cut is spread evenly over the shapes
            gens = [of_seed(s) for s in sd]
            while gens:
                nxt = []
                for g in gens:
                    try:
                        for _ in range(8):
                            yield next(g)
                        nxt.append(g)
                    except StopIteration:
                        pass
                gens = nxt
        else:
            while True:
                s = rng.choice(sd)
                ds = all_deltas(s)
                c = s
                for d in rng.sample(ds, rng.choice([2, 2, 3])):
                    c2 = apply_delta(c, d)
                    if c2 is not None:
                        c = c2
                yield _tag(with_cfg(c, rng) if rng.random() < 0.3 else c, "pair")

    def randoms():
        n = 7000 if tier == "quick" else 600000
        for _ in range(n):
            yield rand_case(rng)

    pg, rg = pairs(), randoms()
    budget_pairs = 7500 if tier == "quick" else None
    produced = 0
    while True:
        alive = False
        for _ in range(3):
            if budget_pairs is not None and produced >= budget_pairs:
                break
            try:
                yield next(pg)
                produced += 1
                alive = True
            except StopIteration:
                break
        try:
            yield next(rg)
            alive = True
        except StopIteration:
            pass
        if not alive:
            break


# ------------------------------------------------------------------------------------------ shrinking / neighbourhood
def shrink(case):
    fs = case["fields"]
    for i in range(len(fs)):
        yield normalize(dict(case, fields=fs[:i] + fs[i + 1:]))
    bs = case["baseAttrs"]
    for i in range(len(bs)):
        yield normalize(dict(case, baseAttrs=bs[:i] + bs[i + 1:]))
    for k, v in CLASS_DEFAULT.items():
        if case[k] != v:
            yield normalize(dict(case, **{k: v}))
    for i, f in enumerate(fs):
        for k, v in FIELD_DEFAULT.items():
            if f[k] != v:
                g = dict(f, **{k: v})
                yield normalize(dict(case, fields=fs[:i] + [g] + fs[i + 1:]))
    for i, a in enumerate(bs):
        for k, v in ATTR_DEFAULT.items():
            if a[k] != v:
                g = dict(a, **{k: v})
                yield normalize(dict(case, baseAttrs=bs[:i] + [g] + bs[i + 1:]))
    cfg = case.get("cfg") or {}
    for k, v in CFG_DEFAULT.items():
        if cfg.get(k, v) != v:
            yield normalize(dict(case, cfg=dict(cfg, **{k: v})))


def neighbours(case, rng):
    ds = all_deltas(case)
    for d in ds:
        c = apply_delta(case, d)
        if c is not None:
            yield c
    for _ in range(40):
        c = case
        for d in rng.sample(ds, 2):
            c2 = apply_delta(c, d)
            if c2 is not None:
                c = c2
        yield with_cfg(c, rng)
    yield from shrink(case)
