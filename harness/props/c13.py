"""C13 -- asdict / astuple structural conversion.

Case = the Lean `Attrs.C13.Case`: which function (attr.asdict / attr.astuple / attrs.asdict / attrs.astuple),
the argument as a tree (scalars, attrs instances of a fixed family of classes, list / tuple / namedtuple / set /
frozenset, dict / OrderedDict), recurse, retain_collection_types, filter, dict_factory / tuple_factory, the
symbolic value_serializer -- plus a harness-only `cfg` (how the arguments are passed: explicit defaults or not,
positionally or by keyword) the model ignores.

Observation = the returned structure as an `Out` tree (exact container classes, for every container whether it
is the very same object as a part of the argument, where the serializer was applied) or the exception kind;
whether a deep snapshot of the argument (structure, scalars, identity of every container) is unchanged; and, for
flat public classes, whether `type(x)(**asdict(x)) == x`.

Set iteration order: members of sets are restricted to values whose hash does not depend on the process (ints,
None, tuples / namedtuples / frozensets of such, instances of classes whose `__hash__` returns a number given in
the case); the generator lists the members of every set in the order the real set iterates them, and `observe`
re-checks that order after building (a mismatch is a tool failure, never a verdict).  The members of *result*
sets are compared as multisets by the Lean side.
"""
from __future__ import annotations

import collections
import json
import re

import attr
import attrs

import common

ID = "C13"
RULE = ("cases = random argument trees (attrs instances of 19 classes at every position -- top level, field value, "
        "list / tuple / set member, dict key / value --: decorated classes incl. inherited / private / init=False / "
        "slotted / field-less / hashable ones, and classes that are attrs classes only through the MRO: a plain "
        "behaviour-only subclass, a plain dict class over a slotted attrs class, a diamond with plain classes two levels "
        "deep, an attrs subclass of a plain subclass, a slotted attrs class over a plain class over a slotted one, a "
        "plain subclass of a hashable class; and attrs classes that are ALSO builtin containers -- subclasses of list, "
        "dict, set, tuple (an unhashable and a hashable one), OrderedDict -- carrying members of their own (harness-only "
        "`content`, must be left alone) at every position; list, tuple, namedtuple of 0-3 fields, set, frozenset, dict, OrderedDict, "
        "int / str / None, their equal-but-distinguishable twins (True/False, float(n), instances of a str subclass: same "
        "== and hash, other exact class; also several instances of one class holding such twins in the same field) "
        "and opaque objects that must be handed through as they are at every position but set "
        "membership: attrs class objects, other class objects, objects with a catch-all __getattr__, modules, functions, "
        "object()) to depth 4 (quick) or 5 (thorough), plus targeted streams (namedtuples under retain, "
        "collection / instance dict keys, instances in sets, Attribute-based filters over inherited fields, non-attrs "
        "arguments) x api in {attr.asdict, attr.astuple, attrs.asdict, attrs.astuple} x recurse x "
        "retain_collection_types x filter in {None, include/exclude of types / names / Attributes, name predicate, "
        "value predicate}, every filter also answering with truthy / falsy NON-bool verdicts (1/0, 'keep'/None, 'x'/'', "
        "[0]/[], 0.5/0.0, (None,)/(), objects with scripted __bool__: harness-only, 45% of the filtered cases) "
        "x dict_factory in {dict, OrderedDict} / tuple_factory in {tuple, list} x value_serializer in "
        "{None, wrap everything, wrap int/str/None, wrap every non-container non-instance value, SUBSTITUTE: for the "
        "inputs it targets (one scalar of the argument / every scalar / every value of a field name / everything) return "
        "one hostile object -- None, 0, '', b'', NOTHING, empty and non-empty list / tuple / namedtuple / frozenset / "
        "dict / OrderedDict, an attrs instance, a list or dict holding one -- and the argument itself otherwise (14% of "
        "the asdict cases, no fault there)} x FAULTS (22% of the cases: the k-th call of value_serializer / filter / "
        "dict_factory / tuple_factory raises TypeError / ValueError / KeyError / StopIteration / AttributeError / a "
        "BaseException-only class, k over every existing position and the first missing one, only for calls that "
        "complete without the fault) x HISTORY (7%: a fresh set of classes, or classes that are plain while warm-up "
        "conversions see their instances directly in a field / in lists / as dict values / keys through all four "
        "entry points and are then made attrs classes in place with attr.s(these=...), any subset) x a repeated "
        "identical call (25%); exception type, history and repetition are harness-only variation the model does not "
        "depend on; non-trivial = the argument holds a container or instance below the "
        "top level; distinct = distinct JSON case")
ASSUMPTIONS = [
    "filter and value_serializer are always passed through counting wrappers: the number of calls is an observable of every call that returns (demanded: once per field occurrence / leaf, no memo); not counted with the substituting serializer",
    "the substituting serializer's replacement holds nothing it would replace again when converted as a field value (else the real call recurses without end) and no hashable attrs instance; objects it returns count as pre-existing objects (`same`)",
    "dict_factory / tuple_factory results other than dict / OrderedDict / tuple / list are not explored (falsy results are: the empty OrderedDict and the empty tuple of a field-less class)",
    "a filter's verdict is read by truthiness: the verdict objects are harness-only variation, the model sees the boolean",
    "opaque leaf objects are named by (kind, n) tokens; the same token is the same object; they are kept out of sets (identity hash -> iteration order)",
    "faults are injected only into calls that complete without them (decided by a dry run of the real code at generation time), so the injected exception is the only one in play and whether the k-th call exists does not depend on evaluation order; the model counts the calls of each callback (verified for every k by the correspondence)",
    "a StopIteration fault that leaves a generator frame arrives as RuntimeError caused by it (PEP 479, CPython): counted as the fault itself",
    "Python's hashability, == between hashable values, set(...) / dict(...) / namedtuple construction are modelled as small trusted functions (hashable, pyEq, pyColl, pyDict) shared by model and specification and diff-tested here",
    "the symbolic value_serializer (wraps its argument, or only scalars, recording the class of `inst` and the name of the attribute) stands for arbitrary serializers; serializers that return attrs instances or containers are not explored",
    "no object occurs twice in the argument (no aliasing, no cycles)",
    "the iteration order of a set is stable while it is not modified and is reproduced by rebuilding the set the same way (re-checked on every observation)",
]
EXHAUSTIVE = {"quick": False, "thorough": False}
BUDGET_S = {"quick": 34, "thorough": 400}
PARALLEL = True

LEVEL_TEXT = (
    "Lean theorems by structural induction over arbitrary argument trees (nested inductive type: unbounded depth "
    "and width, every class / container kind / option): C13_code_computes_reference + C13_model_meets_spec (the model "
    "of asdict / _asdict_anything / astuple -- two conversion sites, is_key flag, _make_collection, filter "
    "threading -- equals an independent two-phase reference written from the statement: `shape` = the promised value "
    "(keys, container classes, object identity, serializer positions), then `realise` = Python's construction of the "
    "new containers, TypeError included; on every case, no exclusion: K13a-c are repaired in attrs and the model "
    "follows the repaired code; K13a/b/c_fixed show that the former witnesses pass and that the model of the "
    "unrepaired code, kept in Proofs/C13Old.lean, fails the specification on each), "
    "C13_sites_agree (asdict's own branches = _asdict_anything: the F10 regression as a theorem), "
    "C13_other_objects_untouched (class objects, proxies, modules, functions pass through at every position), "
    "C13_attrs_instance_first (the classification asks has(type(v)) before the container tests at every site: an "
    "attrs instance that is also a list / dict / set / tuple is converted by its fields), C13_instance_by_fields (an instance is converted by its field list = has(type(v)) through the MRO, whatever its "
    "class, at both sites and in astuple), C13_keys / "
    "C13_keys_nested, C13_recurse_off_identity, C13_no_instances_left, C13_container_shapes(+_field), "
    "C13_callbacks_once_per_occurrence (call counts of filter and serializer: compared on every returning call), "
    "C13_fault_propagates (an exception raised by any callback makes the call raise it: nothing swallowed, no partial "
    "result; model side: call counts per callback, tied for every k), C13_callback_counts_flat, "
    "C13_serializer_result_is_used (whatever the serializer returns -- None, falsy, NOTHING, containers, instances -- is "
    "what lands in the result: stored below field level and with recurse=False, converted like a field value at field "
    "level; the substituting layer anythingS/fieldS is proved to compute the reference too), "
    "C13_serializer_positions / C13_serializer_everywhere, C13_astuple_positional, C13_astuple_matches_asdict, "
    "C13_roundtrip_flat (cls(**asdict(x)) modelled directly as keyword binding for flat public classes, not through "
    "the C01 initializer model), C13_exclude_is_negation, C13_nextgen_retains, C13_pure (trivial in the model: "
    "no-mutation is an *observed* part, by deep before/after snapshot incl. object identities). "
    "Only modelled and observed, not proved: Python's hashability, == of hashable values, set()/dict()/namedtuple "
    "construction (functions hashable, pyEq, pyColl, pyDict, shared by model and reference). "
    "Correspondence: ~40k (quick) / ~370k (thorough) random and targeted trees to depth 4/5 x 4 entry points x "
    "recurse x retain x 5 filter kinds x factories x 3 serializer modes x argument-passing style; exact result "
    "structure (`type(x) is ...`, namedtuple type, dict vs OrderedDict, identity with the argument's objects), "
    "exception kinds (identity of the injected fault object), snapshot, round trip, stability of a repeated call "
    "and independence of history (observed, harness-only dimensions). Readings fixed where the statement is silent are listed at the top of "
    "Spec/C13.lean (serializer positions, dicts always through dict_factory in asdict, astuple depth, deep tuple keys, "
    "unbuildable results must raise, non-attrs arguments: only no-mutation)."
)

# ------------------------------------------------------------------------------------------------ classes


class HarnessError(Exception):
    pass


def _hv_hash(self):
    return self.__dict__["_hv"]


class Mixin:
    """a plain class that has nothing to do with attrs (for the diamond)"""


# name, base classes (indices into DEFS / Mixin), kind, own fields (name, attr.ib kwargs), attr.s kwargs, class body.
# kind: "attrs" (attr.s, dict class), "define" (attrs.define, slotted, annotated), "slots" (attr.s(slots=True)),
#       "plain" (NOT decorated: an attrs class only through what it inherits -- `has(cls)` resolves through the MRO)
DEFS = [
    ("A", (), "attrs", [("x", {}), ("y", {})], {}, {}),
    ("B", (0,), "attrs", [("z", {})], {}, {}),
    ("P", (), "attrs", [("_p", {}), ("q", {"init": False}), ("r", {"default": None})], {}, {}),
    ("S", (), "define", None, {}, {}),               # a: int, x: object
    ("E", (), "attrs", [], {}, {}),
    ("H", (), "attrs", [("k", {}), ("x", {})], {"eq": False}, {"__hash__": _hv_hash}),
    ("HB", (5,), "attrs", [("m", {})], {"eq": False}, {}),
    ("AP", (0,), "plain", None, {}, {"norm": lambda self: 0}),       # behaviour-only subclass of an attrs class
    ("SP", (3,), "plain", None, {}, {}),                             # plain dict class over a slotted attrs base
    ("DM", (Mixin, 7), "plain", None, {}, {}),                       # diamond-ish: plain classes two levels deep
    ("AD", (7,), "attrs", [("w", {})], {}, {}),                      # attrs subclass of a plain subclass of an attrs class
    ("HP", (5,), "plain", None, {}, {}),                             # plain subclass of a hashable attrs class
    ("SD", (8,), "slots", [("u", {})], {}, {}),                      # slotted attrs class over a plain dict class over a slotted one
    # attrs classes that are ALSO builtin containers: they are attrs instances first, at every site
    ("BL", (list,), "attrs", [("label", {})], {}, {}),
    ("RD", (dict,), "attrs", [("owner", {})], {}, {}),
    ("TS", (set,), "attrs", [("source", {})], {}, {}),
    ("TT", (tuple,), "attrs", [("tag", {})], {}, {}),
    ("HT", (tuple,), "attrs", [("tag", {})], {"eq": False},           # hashable (identity): fit for keys and sets
     {"__hash__": _hv_hash, "__eq__": lambda self, other: self is other}),
    ("RO", (collections.OrderedDict,), "attrs", [("owner", {}), ("x", {})], {}, {}),
]
NCLS = len(DEFS)
HASHABLE_CLS = {5, 6, 11, 17}
# class id -> the builtin container it derives from; such instances carry a harness-only "content" (scalars)
CONTAINER_BASE = {13: list, 14: dict, 15: set, 16: tuple, 17: tuple, 18: dict}
NOT_IN_PLACE = {3, 12}      # slotted classes are new class objects: they cannot be decorated in place later


def _ancestors(i):
    out = set()
    for b in DEFS[i][1]:
        if isinstance(b, int):
            out.add(b)
            out |= _ancestors(b)
    return out


class Family:
    """one set of the classes.  `late`: ids of attrs classes that start as *plain* classes and are turned into
    attrs classes in place (`attr.s(these=...)(cls)`) by `decorate()` — the way to enhance a class one does not own"""

    def __init__(self, late=(), needed=None):
        """`needed`: ids of the classes the case instantiates (others are taken from the fixed family: cheaper)"""
        late = {i for i in late if DEFS[i][2] == "attrs"} - NOT_IN_PLACE
        if needed is not None:
            needed = set(needed)
            for i in list(needed):
                needed |= _ancestors(i)
            late &= needed
        # an attrs class declared on top of a still plain base has to wait for it
        for i in range(NCLS):
            if DEFS[i][2] == "attrs" and i not in NOT_IN_PLACE and _ancestors(i) & late:
                late.add(i)
        if any(_ancestors(i) & late for i in NOT_IN_PLACE):
            late = set()                             # (a slotted class cannot wait: keep the whole family early)
        self.late = sorted(late)
        self.classes = []
        for i, (name, bases, kind, fields, ckw, body) in enumerate(DEFS):
            if needed is not None and i not in needed:
                self.classes.append(CLASSES[i])
                continue
            bs = tuple(self.classes[b] if isinstance(b, int) else b for b in bases) or (object,)
            if kind == "define":
                cls = attrs.define(type(name, bs, {"__annotations__": {"a": int, "x": object}}))
            elif kind == "plain" or i in late:
                cls = type(name, bs, dict(body))
            elif kind == "slots":
                cls = attr.s(slots=True, **ckw)(type(name, bs, dict(body, **{f: attr.ib(**kw) for f, kw in fields})))
            else:
                cls = attr.s(**ckw)(type(name, bs, dict(body, **{f: attr.ib(**kw) for f, kw in fields})))
            self.classes.append(cls)
        self.cid = {c: i for i, c in enumerate(self.classes)}
        self.pending = list(self.late)

    def is_raw(self, i):
        """no usable `__init__` yet: the class or one of its ancestors is still waiting to be decorated"""
        return bool(self.pending) and (i in self.pending or bool(_ancestors(i) & set(self.pending)))

    def decorate(self):
        for i in self.pending:
            name, bases, kind, fields, ckw, body = DEFS[i]
            got = attr.s(these={f: attr.ib(**kw) for f, kw in fields}, **ckw)(self.classes[i])
            if got is not self.classes[i]:
                raise HarnessError("in-place decoration returned another class")
        self.pending = []


FAMILY0 = Family()
CLASSES = FAMILY0.classes
CID = FAMILY0.cid
_ALL_ATTRS = []          # representatives of the == classes of Attribute objects
CLS_FIELDS = []          # per class: list of FI dicts


def _sig(a):
    for i, b in enumerate(_ALL_ATTRS):
        if a == b:
            return i
    _ALL_ATTRS.append(a)
    return len(_ALL_ATTRS) - 1


for _c in CLASSES:
    CLS_FIELDS.append([{"name": a.name, "sig": _sig(a), "init": bool(a.init)} for a in attr.fields(_c)])


FIELD_NAMES = {f["name"] for fs in CLS_FIELDS for f in fs}


def _check_family(fam):
    """a fresh / late-decorated family has the same fields (names, order, Attribute ==) as the fixed one"""
    for i, c in enumerate(fam.classes):
        if [a for a in attr.fields(c)] != [a for a in attr.fields(CLASSES[i])]:
            raise HarnessError(f"family class {i} differs from the fixed family")


_f = Family(late=range(NCLS))
_f.decorate()
_check_family(_f)
_check_family(Family())


class W:
    """holder for warm-up conversions (always an attrs class)"""


W = attr.s(these={"a": attr.ib(), "b": attr.ib(), "c": attr.ib()})(W)

_NT = {}


def nt_type(ty, arity):
    t = _NT.get((ty, arity))
    if t is None:
        t = collections.namedtuple(f"NT{ty}_{arity}", [f"f{i}" for i in range(arity)])
        _NT[(ty, arity)] = t
    return t


def nt_key(t):
    for k, v in _NT.items():
        if v is t:
            return k
    return None


class Ser:
    """result of the symbolic value_serializer"""
    __slots__ = ("cls", "fld", "v")

    def __init__(self, cls, fld, v):
        self.cls, self.fld, self.v = cls, fld, v

    def __eq__(self, o):
        return type(o) is Ser and (self.cls, self.fld) == (o.cls, o.fld) and self.v == o.v

    def __hash__(self):
        return hash((self.cls, self.fld, self.v))


class MyStr(str):
    """a str subclass: its instances equal (and hash like) the plain str, but their exact class differs"""


def _is_leaf(v):
    """values the model has value tokens for: int / str / None and their equal-but-distinguishable twins"""
    return v is None or type(v) in (int, str, bool, float, MyStr)


def _is_scalar(v):
    """int / str / None of the model"""
    return v is None or type(v) in (int, str)


def target_hits(target, a, v, reg, fam):
    if target == "all":
        return True
    if target == "scalars":
        return _is_scalar(v)
    if "field" in target:
        return a is not None and a.name == target["field"]["name"]
    t = atom_py(target["atomIs"]["a"], reg, fam)
    if _is_leaf(t):
        return _is_leaf(v) and type(v) is type(t) and v == t
    return v is t


def subst_serializer(subst, reg, fam):
    """a serializer with hostile results: for the inputs it targets it returns the one object built from
    `subst["repl"]` (None, 0, '', NOTHING, a container, an attrs instance), for all others its argument"""
    repl = reg.get(("repl",), reg)
    if repl is reg:
        repl = reg[("repl",)] = build(subst["repl"], reg, fam)
    target = subst["target"]

    def ser(inst, a, v):
        return repl if target_hits(target, a, v, reg, fam) else v

    return ser


def serializers(fam):
    def ser_wrap(inst, a, v):
        return Ser(None if inst is None else fam.cid.get(type(inst)), None if a is None else a.name, v)

    def ser_wrap_leaf(inst, a, v):
        return ser_wrap(inst, a, v) if _is_scalar(v) else v

    def ser_wrap_atoms(inst, a, v):
        if type(v) in fam.cid or isinstance(v, (list, tuple, set, frozenset, dict)):
            return v
        return ser_wrap(inst, a, v)

    return {"off": None, "wrap": ser_wrap, "wrapLeaf": ser_wrap_leaf, "wrapAtoms": ser_wrap_atoms}


# ------------------------------------------------------------------------------------------------ trees <-> objects

class Anything:
    """answers every attribute lookup (a dynamic proxy / chainable stub) -- also `__attrs_attrs__`"""

    def __getattr__(self, name):
        return (name,)


class PlainCls:
    pass


def _fn0(x):
    return x


# opaque leaf objects: (kind, n) -> object.  kind 0: the attrs class object with id n (of the case's family),
# 1: other class objects, 2: objects with a catch-all __getattr__ (one per (case, n)), 3: modules, 4: functions,
# 5: plain object() instances (one per (case, n))
OPAQUE = {
    1: [int, PlainCls, dict, collections.OrderedDict, Mixin],
    3: [collections, json],
    4: [_fn0, (lambda: 0), len],
    6: [attr.NOTHING],
    7: [b"", b"\x00"],
}
OPAQUE_KINDS = [0, 0, 0, 1, 1, 2, 2, 3, 4, 5]


def obj_py(kind, n, reg, fam):
    key = ("obj", kind, n)
    o = reg.get(key)
    if o is None:
        if kind == 0:
            o = fam.classes[n % NCLS]
        elif kind == 2:
            o = Anything()
        elif kind in OPAQUE:
            o = OPAQUE[kind][n % len(OPAQUE[kind])]
        else:
            o = object()
        reg[key] = o
        reg[("rev", id(o))] = (kind, n)
    return o


def atom_py(a, reg=None, fam=None):
    if a == "none":
        return None
    if "int" in a:
        return a["int"]["n"]
    if "bool" in a:
        return bool(a["bool"]["b"])
    if "float" in a:
        return float(a["float"]["n"])
    if "strsub" in a:
        return MyStr(f"s{a['strsub']['n']}")
    if "obj" in a:
        return obj_py(a["obj"]["kind"], a["obj"]["n"], reg if reg is not None else {}, fam or FAMILY0)
    n = a["str"]["n"]
    return "" if n == STR_EMPTY else f"s{n}"


STR_EMPTY = 999      # the token of the empty string


_STR = re.compile(r"^s(\d+)$")


def py_atom(v):
    if v is None:
        return "none"
    if type(v) is bool:
        return {"bool": {"b": v}}
    if type(v) is float:
        return {"float": {"n": int(v)}} if v == int(v) and v >= 0 else {"str": {"n": 999997}}
    if type(v) is int:
        return {"int": {"n": v}}
    if type(v) is MyStr:
        m = _STR.match(v)
        return {"strsub": {"n": int(m.group(1))}} if m else {"str": {"n": 999996}}
    if v == "":
        return {"str": {"n": STR_EMPTY}}
    m = _STR.match(v)
    if not m:
        return {"str": {"n": 999998}}      # a string that cannot come out of the model (e.g. a field name as a value)
    return {"str": {"n": int(m.group(1))}}


def build(node, reg, fam=FAMILY0):
    """tree -> Python value; `reg` maps id(object) -> object for every container / instance built.
    Instances of a class that is still plain (`fam.pending`) are made with `__new__` + setattr."""
    if "atom" in node:
        return atom_py(node["atom"]["a"], reg, fam)
    if "inst" in node:
        d = node["inst"]
        cls = fam.classes[d["cls"]]
        vals = [build(v, reg, fam) for _, v in d["fields"]]
        names = [f["name"] for f, _ in d["fields"]]
        if names != [f["name"] for f in CLS_FIELDS[d["cls"]]]:
            raise HarnessError("instance fields do not match the class")
        kw, later = {}, []
        raw = fam.is_raw(d["cls"])
        for f, v in zip(CLS_FIELDS[d["cls"]], vals):
            if f["init"] and not raw:
                kw[f["name"].lstrip("_")] = v
            else:
                later.append((f["name"], v))
        cbase = CONTAINER_BASE.get(d["cls"])
        if cbase is None:
            obj = cls.__new__(cls) if raw else cls(**kw)
        else:
            # an attrs instance that is also a container: the members first, then the attrs fields
            content = d.get("content", [])
            if cbase is dict:
                obj = cls.__new__(cls)
                setter = collections.OrderedDict.__setitem__ if issubclass(cls, collections.OrderedDict) else dict.__setitem__
                for kk, vv in content:
                    setter(obj, atom_py(kk["atom"]["a"], reg, fam), atom_py(vv["atom"]["a"], reg, fam))
            else:
                members = [atom_py(m["atom"]["a"], reg, fam) for m in content]
                if cbase is tuple:
                    obj = tuple.__new__(cls, members)
                else:
                    obj = cls.__new__(cls)
                    (list.extend if cbase is list else set.update)(obj, members)
            if not raw:
                obj.__init__(**kw)
        for n, v in later:
            setattr(obj, n, v)
        if d["hsh"] is not None:
            obj.__dict__["_hv"] = d["hsh"]
        reg[id(obj)] = obj
        return obj
    if "coll" in node:
        d = node["coll"]
        k = d["k"]
        items = [build(v, reg, fam) for v in d["items"]]
        if k == "list":
            obj = list(items)
        elif k == "tuple":
            obj = tuple(items)
        elif k in ("set", "frozenset"):
            obj = (set if k == "set" else frozenset)(items)
            got = list(obj)
            if len(got) != len(items) or any(
                (g is not e) and not (_is_leaf(g) and _is_leaf(e) and type(g) is type(e) and g == e)
                for g, e in zip(got, items)
            ):
                raise HarnessError("set iteration order differs from the order listed in the case")
        else:
            obj = nt_type(k["ntuple"]["ty"], len(items))(*items)
        reg[id(obj)] = obj
        return obj
    d = node["dict"]
    obj = dict() if d["k"] == "dict" else collections.OrderedDict()
    for kk, vv in d["items"]:
        key = build(kk, reg, fam)
        if key in obj:
            raise HarnessError("equal dict keys in the case")
        obj[key] = build(vv, reg, fam)
    reg[id(obj)] = obj
    return obj


def to_out(v, reg, fam=FAMILY0):
    """Python value -> `Out` tree JSON"""
    if type(v) is Ser:
        return {"ser": {"cls": v.cls, "fld": v.fld, "v": to_out(v.v, reg, fam)}}
    if _is_leaf(v):
        return {"atom": {"a": py_atom(v)}}
    t = type(v)
    rev = reg.get(("rev", id(v)))
    if rev is not None:                   # an opaque leaf object of the argument: the very same object
        return {"atom": {"a": {"obj": {"kind": rev[0], "n": rev[1]}}}}
    same = id(v) in reg
    if t in fam.cid:
        c = fam.cid[t]
        return {"inst": {"same": same, "cls": c, "hsh": v.__dict__.get("_hv") if c in HASHABLE_CLS else None,
                         "fields": [[f, to_out(getattr(v, f["name"]), reg, fam)] for f in CLS_FIELDS[c]]}}
    if t is list:
        return {"coll": {"same": same, "k": "list", "items": [to_out(i, reg, fam) for i in v]}}
    if t is tuple:
        return {"coll": {"same": same and len(v) > 0, "k": "tuple", "items": [to_out(i, reg, fam) for i in v]}}
    if t is set or t is frozenset:
        return {"coll": {"same": same, "k": "set" if t is set else "frozenset", "items": [to_out(i, reg, fam) for i in v]}}
    nk = nt_key(t)
    if nk is not None:
        if nk[1] != len(v):
            raise HarnessError("namedtuple arity")
        return {"coll": {"same": same, "k": {"ntuple": {"ty": nk[0]}}, "items": [to_out(i, reg, fam) for i in v]}}
    if t is dict or t is collections.OrderedDict:
        k = "dict" if t is dict else "odict"
        if not same and len(v) > 0 and all(type(x) is str and x in FIELD_NAMES for x in v):
            return {"record": {"k": k, "items": [[n, to_out(x, reg, fam)] for n, x in v.items()]}}
        return {"dict": {"same": same, "k": k, "items": [[to_out(a, reg, fam), to_out(b, reg, fam)] for a, b in v.items()]}}
    return {"atom": {"a": {"str": {"n": 999999}}}}    # something that cannot come out of the model


def snapshot(v, fam=FAMILY0):
    """structure + scalars + identity of every container (sets by sorted member snapshots)"""
    if _is_leaf(v):
        return ("a", type(v).__name__, repr(v))
    t = type(v)
    if t in fam.cid:
        extra = tuple(sorted((k, repr(x)) for k, x in getattr(v, "__dict__", {}).items() if k == "_hv"))
        if isinstance(v, dict):
            extra += (("content", tuple((repr(a), repr(b)) for a, b in dict.items(v))),)
        elif isinstance(v, (set, frozenset)):
            extra += (("content", tuple(sorted(repr(i) for i in set(v)))),)
        elif isinstance(v, (list, tuple)):
            extra += (("content", tuple(repr(i) for i in v)),)
        return ("i", id(v), t.__name__, extra,
                tuple(snapshot(getattr(v, f["name"]), fam) for f in CLS_FIELDS[fam.cid[t]]))
    if isinstance(v, (set, frozenset)):
        return ("s", id(v), t.__name__, tuple(sorted((snapshot(i, fam) for i in v), key=repr)))
    if isinstance(v, (list, tuple)):
        return ("c", id(v), t.__name__, tuple(snapshot(i, fam) for i in v))
    if isinstance(v, dict):
        return ("d", id(v), t.__name__, tuple((snapshot(a, fam), snapshot(b, fam)) for a, b in v.items()))
    return ("?", repr(v))


def ty_py(t, fam=FAMILY0):
    if isinstance(t, str):
        return {"bool": bool, "float": float, "strsub": MyStr, "int": int, "str": str, "noneType": type(None), "list": list, "tuple": tuple, "set": set,
                "frozenset": frozenset, "dict": dict, "odict": collections.OrderedDict}[t]
    if "ntuple" in t:
        return nt_type(t["ntuple"]["ty"], t["ntuple"]["arity"])
    return fam.classes[t["cls"]["id"]]


def filter_py(f, fam=FAMILY0):
    if f == "none":
        return None
    if f == "notNone":
        return lambda a, v: v is not None
    if "namePred" in f:
        names = set(f["namePred"]["names"])
        return lambda a, v: a.name in names
    kind = "incl" if "incl" in f else "excl"
    d = f[kind]
    what = [ty_py(t, fam) for t in d["types"]] + list(d["names"]) + [_ALL_ATTRS[s] for s in d["sigs"]]
    return (attr.filters.include if kind == "incl" else attr.filters.exclude)(*what)


def roundtrip_applies(case):
    v = case["value"]
    if (case["api"] != "asdict" or case["filter"] != "none" or case["ser"] != "off" or case.get("fault") is not None
            or "inst" not in v):
        return False
    d = v["inst"]
    return d["hsh"] is None and all("atom" in x and not f["name"].startswith("_") and f["init"] for f, x in d["fields"])


# what a predicate filter may answer instead of True / False
VERDICTS = {"bool": None, "int": (1, 0), "none": ("keep", None), "str": ("x", ""), "list": ([0], []),
            "float": (0.5, 0.0), "scripted": (common.TRUTHY, common.FALSY), "tuple": ((None,), ())}


class Abort(BaseException):
    """a fault that `except Exception` does not catch"""


FAULT_EXC = {"typeError": TypeError, "valueError": ValueError, "keyError": KeyError, "stopIteration": StopIteration,
             "attributeError": AttributeError, "abort": Abort}


class FaultBox:
    """counts the calls of the callbacks; the k-th call at `site` raises a fresh exception of the chosen type"""

    def __init__(self, fault, exc_name, wrap_all=False):
        self.site = fault["site"] if fault else None
        self.k = fault["k"] if fault else 0
        self.exc_type = FAULT_EXC.get(exc_name, ValueError)
        self.wrap_all = wrap_all
        self.counts = {}
        self.fired = False
        self.exc = None

    def wraps(self, site):
        return self.wrap_all or site == self.site or site in ("filter", "ser")   # these two are always counted

    def hit(self, site):
        n = self.counts[site] = self.counts.get(site, 0) + 1
        if site == self.site and n == self.k:
            self.fired = True
            self.exc = self.exc_type("injected fault")
            raise self.exc

    def is_mine(self, e):
        if self.exc is None:
            return False
        if e is self.exc:
            return True
        # PEP 479: CPython turns a StopIteration that leaves a generator frame (the dict branches feed generator
        # expressions to dict_factory) into RuntimeError(...) from it -- that is the fault, not something swallowed
        return (self.exc_type is StopIteration and type(e) is RuntimeError and e.__cause__ is self.exc)


def call(case, inst, fam=FAMILY0, box=None, reg=None):
    cfg = case.get("cfg", {})
    explicit = cfg.get("explicit", True)
    box = box or FaultBox(None, None)
    flt = filter_py(case["filter"], fam)
    verdict = VERDICTS.get(cfg.get("verdict", "bool"))
    if flt is not None and verdict is not None:
        yes, no = verdict
        pred = flt

        def flt(a, v):                     # same verdicts, given as arbitrary truthy / falsy objects
            return yes if pred(a, v) else no
    if box.wraps("filter") and flt is not None:
        base_flt = flt

        def flt(a, v):
            box.hit("filter")
            return base_flt(a, v)
    kw = {}
    if case["recurse"] is not True or explicit:
        kw["recurse"] = case["recurse"]
    if flt is not None or explicit:
        kw["filter"] = flt
    if case["api"] == "asdict":
        if case["ser"] == "subst":
            ser = subst_serializer(case["subst"], reg if reg is not None else {}, fam)
        else:
            ser = serializers(fam)[case["ser"]]
        if box.wraps("ser") and ser is not None:
            base_ser = ser

            def ser(i, a, v):
                box.hit("ser")
                return base_ser(i, a, v)
        if ser is not None or explicit:
            kw["value_serializer"] = ser
        if case["ng"]:
            return attrs.asdict(inst, **kw)
        df = dict if case["dictFactory"] == "dict" else collections.OrderedDict
        if box.wraps("dictFactory"):
            base_df = df

            def df(*a):
                box.hit("dictFactory")
                return base_df(*a)
        if df is not dict or explicit:
            kw["dict_factory"] = df
        if case["retain"] or explicit:
            kw["retain_collection_types"] = case["retain"]
        if cfg.get("positional") and len(kw) == 5:
            return attr.asdict(inst, kw["recurse"], kw["filter"], kw["dict_factory"], kw["retain_collection_types"],
                               kw["value_serializer"])
        return attr.asdict(inst, **kw)
    if case["ng"]:
        return attrs.astuple(inst, **kw)
    tf = tuple if case["tupleFactory"] == "tuple" else list
    if box.wraps("tupleFactory"):
        base_tf = tf

        def tf(x):
            box.hit("tupleFactory")
            return base_tf(x)
    if tf is not tuple or explicit:
        kw["tuple_factory"] = tf
    if case["retain"] or explicit:
        kw["retain_collection_types"] = case["retain"]
    if cfg.get("positional") and len(kw) == 4:
        return attr.astuple(inst, kw["recurse"], kw["filter"], kw["tuple_factory"], kw["retain_collection_types"])
    return attr.astuple(inst, **kw)


def _canon_sets(o):
    """result JSON with the members of sets in a canonical order (to compare two runs)"""
    if isinstance(o, dict):
        d = {k: _canon_sets(v) for k, v in o.items()}
        c = d.get("coll")
        if isinstance(c, dict) and c.get("k") in ("set", "frozenset"):
            c["items"] = sorted(c["items"], key=lambda x: json.dumps(x, sort_keys=True))
        return d
    if isinstance(o, list):
        return [_canon_sets(x) for x in o]
    return o


def run_once(case, inst, reg, fam):
    """one measured call -> (result JSON, fault fired, raw result or None)"""
    box = FaultBox(case.get("fault"), case.get("cfg", {}).get("faultExc"))
    try:
        res = call(case, inst, fam, box, reg)
    except BaseException as e:  # noqa: BLE001
        return {"exc": {"e": "fault" if box.is_mine(e) else common.exc_kind(e)}}, box.fired, None, box
    return {"ok": {"v": to_out(res, reg, fam)}}, box.fired, res, box


def warm_up(objs, fam):
    """earlier conversions in which the same classes (and objects) play other roles: directly in a field, inside a
    list, as a dict value / tuple member, through every entry point.  Exceptions are of no interest here."""
    for o in objs[:5]:
        hashable = type(o).__hash__ is not None
        for f in (
            lambda: attr.asdict(W(o, [o], {1: o})),
            lambda: attr.astuple(W(o, (o,), [o])),
            lambda: attrs.asdict(W((o,), o, None)),
            lambda: attr.asdict(W(o, {o: 1} if hashable else None, o), retain_collection_types=True, recurse=False),
            lambda: attrs.astuple(W(None, o, {2: [o]})),
        ):
            try:
                f()
            except Exception:  # noqa: BLE001
                pass


def observe(case):
    cfg = case.get("cfg", {})
    history = cfg.get("history", "fixed")
    if history == "fixed":
        fam = FAMILY0
    else:
        needed = _classes_in(case["value"], set())
        if case.get("subst"):
            _classes_in(case["subst"]["repl"], needed)
        if history == "fresh":               # classes created after the process has converted many other things
            fam = Family(needed=needed)
        else:                                # plain classes that become attrs classes in place after a warm-up
            fam = Family(late=cfg.get("late", range(NCLS)), needed=needed)
    reg = {}
    inst = build(case["value"], reg, fam)
    if case["ser"] == "subst" and case.get("subst"):
        reg[("repl",)] = build(case["subst"]["repl"], reg, fam)
    if history != "fixed":
        objs = [o for o in reg.values() if type(o) in fam.cid]
        warm_up(objs, fam)                   # plain classes are seen here while they are not attrs classes yet
        fam.decorate()                       # ... and become attrs classes in place
        if cfg.get("rewarm"):
            warm_up(objs[::-1], fam)
    before = snapshot(inst, fam)
    rt = None
    result, fired, res, box = run_once(case, inst, reg, fam)
    counted = "ok" in result and not (case["ser"] == "subst" and case["api"] == "asdict")
    filter_calls = box.counts.get("filter", 0) if counted and case["filter"] != "none" else None
    ser_calls = (box.counts.get("ser", 0)
                 if counted and case["api"] == "asdict" and case["ser"] not in ("off", "subst") else None)
    if roundtrip_applies(case):
        if res is None:
            rt = False
        else:
            try:
                rt = bool(type(inst)(**res) == inst)
            except Exception:  # noqa: BLE001
                rt = False
    stable = True
    if cfg.get("twice"):
        result2, fired2, _, box2 = run_once(case, inst, reg, fam)
        stable = fired2 == fired and _canon_sets(result2) == _canon_sets(result) and box2.counts == box.counts
    after = snapshot(inst, fam)
    return {"result": result, "argUnchanged": before == after, "roundtrip": rt, "faultFired": fired, "stable": stable,
            "filterCalls": filter_calls, "serCalls": ser_calls}


def count_calls(case):
    """dry run on the fixed family: (completes without exception, number of calls of every callback)"""
    box = FaultBox(None, None, wrap_all=True)
    ok = True
    try:
        reg = {}
        call(dict(case, fault=None), build(case["value"], reg), FAMILY0, box, reg)
    except BaseException:  # noqa: BLE001
        ok = False
    return ok, box.counts


def _opaque_kinds(node, acc):
    if "atom" in node:
        a = node["atom"]["a"]
        if isinstance(a, dict) and "obj" in a:
            acc.add(a["obj"]["kind"])
    elif "inst" in node:
        for _, v in node["inst"]["fields"]:
            _opaque_kinds(v, acc)
    elif "coll" in node:
        for v in node["coll"]["items"]:
            _opaque_kinds(v, acc)
    else:
        for k, v in node["dict"]["items"]:
            _opaque_kinds(k, acc)
            _opaque_kinds(v, acc)
    return acc


def _classes_in(node, acc):
    if "inst" in node:
        acc.add(node["inst"]["cls"])
        for _, v in node["inst"]["fields"]:
            _classes_in(v, acc)
    elif "coll" in node:
        for v in node["coll"]["items"]:
            _classes_in(v, acc)
    elif "dict" in node:
        for k, v in node["dict"]["items"]:
            _classes_in(k, acc)
            _classes_in(v, acc)
    return acc


# ------------------------------------------------------------------------------------------------ generation

def A_int(n):
    return {"atom": {"a": {"int": {"n": n}}}}


def A_str(n):
    return {"atom": {"a": {"str": {"n": n}}}}


A_NONE = {"atom": {"a": "none"}}


def coll(k, items):
    return {"coll": {"k": k, "items": list(items)}}


def nt(ty, items):
    return coll({"ntuple": {"ty": ty}}, items)


def dct(k, pairs):
    return {"dict": {"k": k, "items": [list(p) for p in pairs]}}


class Gen:
    def __init__(self, rng, max_depth):
        self.rng = rng
        self.max_depth = max_depth
        self.hv = 0

    def atom(self, nostr=False):
        r = self.rng.random()
        if not nostr and self.rng.random() < 0.07:
            kind = self.rng.choice(OPAQUE_KINDS)
            n = self.rng.randrange(NCLS if kind == 0 else len(OPAQUE.get(kind, [0, 1, 2])))
            return {"atom": {"a": {"obj": {"kind": kind, "n": n}}}}
        if self.rng.random() < 0.09:      # equal-but-distinguishable twins of small ints / of strs
            k = self.rng.random()
            if k < 0.4:
                return {"atom": {"a": {"bool": {"b": self.rng.random() < 0.5}}}}
            if k < 0.8 or nostr:
                return {"atom": {"a": {"float": {"n": self.rng.randrange(0, 4)}}}}
            return {"atom": {"a": {"strsub": {"n": self.rng.randrange(0, 12)}}}}
        if r < 0.12:
            return A_NONE
        if r < 0.6 or nostr:
            return A_int(self.rng.randrange(0, 40))
        return A_str(self.rng.randrange(0, 12))

    def inst(self, depth, cls=None, hashable=False, nostr=False):
        rng = self.rng
        if cls is None:
            cls = rng.choice([5, 6, 11, 11, 17, 17] if hashable else
                             [0, 0, 1, 1, 2, 3, 4, 5, 6, 7, 7, 8, 9, 10, 10, 11, 12, 13, 13, 14, 14, 15, 16, 17, 18])
        hsh = None
        if cls in HASHABLE_CLS:
            hsh = rng.randrange(0, 64)
        # field values of an instance are unconstrained even when the instance itself is a key / set member
        fields = [[f, self.value(depth + 1, "field")] for f in CLS_FIELDS[cls]]
        return self.mk_inst(cls, hsh, fields)

    def mk_inst(self, cls, hsh, fields):
        d = {"cls": cls, "hsh": hsh, "fields": fields}
        base = CONTAINER_BASE.get(cls)
        if base is not None:        # what the instance holds as a container (harness-only: the model ignores it)
            n = self.rng.choice([0, 1, 2, 2, 3])
            ks = self.rng.sample(range(50, 60), n)
            if base is dict:
                d["content"] = [[A_int(k), A_str(self.rng.randrange(12))] for k in ks]
            else:
                d["content"] = [A_int(k) for k in ks]
        return {"inst": d}

    def value(self, depth, ctx):
        """ctx: field | member | key (hashable) | setmember (hashable, hash independent of the process)"""
        rng = self.rng
        hashable = ctx in ("key", "setmember")
        nostr = ctx == "setmember"
        if depth >= self.max_depth or rng.random() < (0.3 if ctx == "field" else 0.42):
            return self.atom(nostr)
        r = rng.random()
        if hashable:
            if r < 0.12:
                return self.inst(depth, hashable=True)
            n = rng.choice([0, 1, 1, 2, 2, 3])
            if r < 0.55:
                return coll("tuple", [self.value(depth + 1, ctx) for _ in range(n)])
            if r < 0.8:
                return nt(rng.randrange(2), [self.value(depth + 1, ctx) for _ in range(n)])
            return self.setlike("frozenset", depth, n)
        if r < 0.3:
            return self.inst(depth)
        n = rng.choice([0, 1, 1, 2, 2, 3, 4])
        if r < 0.45:
            return coll("list", [self.value(depth + 1, "member") for _ in range(n)])
        if r < 0.55:
            return coll("tuple", [self.value(depth + 1, "member") for _ in range(n)])
        if r < 0.65:
            return nt(rng.randrange(2), [self.value(depth + 1, "member") for _ in range(min(n, 3))])
        if r < 0.75:
            return self.setlike(rng.choice(["set", "frozenset"]), depth, n)
        return self.dictlike(depth, n)

    def distinct(self, trees):
        """drop members equal (Python ==) to an earlier one"""
        keep, objs, reg = [], [], {}
        for t in trees:
            o = build(t, reg)
            try:
                hash(o)
            except TypeError:
                continue
            if any(o == p for p in objs):
                continue
            keep.append(t)
            objs.append(o)
        return keep

    def setlike(self, kind, depth, n):
        members = self.distinct([self.value(depth + 1, "setmember") for _ in range(n)])
        return coll(kind, self.iteration_order(kind, members))

    def iteration_order(self, kind, members):
        """list the members in the order a set built from that very list iterates them"""
        ctor = set if kind == "set" else frozenset
        for _ in range(6):
            objs = [build(m, {}) for m in members]
            byid = {id(o): m for o, m in zip(objs, members)}
            order = []
            for o in ctor(objs):
                if id(o) in byid:
                    order.append(byid[id(o)])
                else:       # scalars may come back as another object: match by value
                    order.append(next(m for m, p in zip(members, objs) if _is_leaf(p) and type(p) is type(o) and p == o))
            if order == members:
                return members
            members = order
        return members[:1]

    def dictlike(self, depth, n):
        keys = self.distinct([self.value(depth + 1, "key") for _ in range(n)])
        return dct(self.rng.choice(["dict", "dict", "odict"]),
                   [(k, self.value(depth + 1, "member")) for k in keys])


TYTAGS = ["bool", "float", "strsub", "bool", "int", "str", "noneType", "list", "tuple", "set", "frozenset", "dict", "odict",
          {"ntuple": {"ty": 0, "arity": 2}}, {"ntuple": {"ty": 1, "arity": 1}}, {"ntuple": {"ty": 0, "arity": 1}},
          {"cls": {"id": 0}}, {"cls": {"id": 1}}, {"cls": {"id": 5}}, {"cls": {"id": 3}}, {"cls": {"id": 7}},
          {"cls": {"id": 7}}, {"cls": {"id": 8}}, {"cls": {"id": 10}}, {"cls": {"id": 11}}, {"cls": {"id": 13}},
          {"cls": {"id": 14}}, {"cls": {"id": 16}}]
NAMES = ["x", "y", "z", "_p", "q", "r", "a", "k", "m", "p", "nope", "w", "u", "label", "owner", "tag"]


def rand_filter(rng):
    r = rng.random()
    if r < 0.34:
        return "none"
    if r < 0.42:
        return "notNone"
    if r < 0.52:
        return {"namePred": {"names": rng.sample(NAMES, rng.randrange(0, 6))}}
    kind = "incl" if r < 0.76 else "excl"
    big = kind == "incl"
    types = rng.sample(TYTAGS, rng.randrange(0, 7 if big else 3))
    names = rng.sample(NAMES, rng.randrange(0, 5 if big else 3))
    sigs = rng.sample(range(len(_ALL_ATTRS)), rng.randrange(0, 5 if big else 3))
    return {kind: {"types": types, "names": names, "sigs": sorted(sigs)}}


def rand_opts(rng, value):
    api = rng.choice(["asdict", "asdict", "asdict", "astuple", "astuple"])
    return {
        "api": api,
        "ng": rng.random() < 0.25,
        "value": value,
        "recurse": rng.random() < 0.85,
        "retain": rng.random() < 0.5,
        "filter": rand_filter(rng),
        "dictFactory": rng.choice(["dict", "dict", "odict"]),
        "tupleFactory": rng.choice(["tuple", "tuple", "list"]),
        "ser": rng.choice(["off", "off", "off", "wrap", "wrapLeaf", "wrapLeaf", "wrapAtoms"]) if api == "asdict" else "off",
        "fault": None,
        "subst": None,
        "cfg": {"explicit": rng.random() < 0.6, "positional": rng.random() < 0.3, "history": "fixed",
                "twice": rng.random() < 0.25,
                "verdict": rng.choice(list(VERDICTS)) if rng.random() < 0.45 else "bool"},
    }


SITES = ["ser", "filter", "dictFactory", "tupleFactory"]


def site_ok(case, site):
    if site == "ser":
        return case["api"] == "asdict" and case["ser"] not in ("off", "subst")
    if site == "filter":
        return case["filter"] != "none"
    if site == "dictFactory":
        return case["api"] == "asdict" and not case["ng"]
    return case["api"] == "astuple" and not case["ng"]


def add_fault(case, rng):
    """the k-th call of one of the callbacks raises; only for calls that complete without the fault; k is drawn
    over every position that exists plus the first one that does not"""
    if "inst" not in case["value"] or case["ser"] == "subst":
        return
    sites = [s for s in SITES if site_ok(case, s)]
    if not sites:
        return
    ok, counts = count_calls(case)
    if not ok:
        return
    site = rng.choice(sites)
    n = counts.get(site, 0)
    r = rng.random()
    k = n + 1 if r < 0.12 else (n if r < 0.3 and n else rng.randint(1, max(n, 1)))
    case["fault"] = {"site": site, "k": k}
    case["cfg"]["faultExc"] = rng.choice(["typeError", "typeError", "valueError", "keyError", "stopIteration",
                                          "attributeError", "abort"])


def _scalars_in(node, acc):
    if "atom" in node:
        a = node["atom"]["a"]
        if a == "none" or "int" in a or "str" in a:
            acc.append(node)
    elif "inst" in node:
        for _, v in node["inst"]["fields"]:
            _scalars_in(v, acc)
    elif "coll" in node:
        for v in node["coll"]["items"]:
            _scalars_in(v, acc)
    else:
        for k, v in node["dict"]["items"]:
            _scalars_in(k, acc)
            _scalars_in(v, acc)
    return acc


def _hits_tree(target, fld, node):
    """Lean `Target.hits`"""
    if target == "all":
        return True
    if target == "scalars":
        return "atom" in node and (node["atom"]["a"] == "none" or "int" in node["atom"]["a"] or "str" in node["atom"]["a"])
    if "field" in target:
        return fld == target["field"]["name"]
    return "atom" in node and node["atom"]["a"] == target["atomIs"]["a"]


def repl_safe(target, node, member=False):
    """Lean `replSafeF` / `replSafeM` (+ no hashable instance): converting the replacement as a field value hands
    the serializer nothing it would replace again"""
    if "atom" in node:
        return not (member and _hits_tree(target, None, node))
    if "inst" in node:
        d = node["inst"]
        return d["hsh"] is None and all(not _hits_tree(target, f["name"], v) and repl_safe(target, v) for f, v in d["fields"])
    if "coll" in node:
        return all(repl_safe(target, v, True) for v in node["coll"]["items"])
    return all(repl_safe(target, k, True) and repl_safe(target, v, True) for k, v in node["dict"]["items"])


O_NOTHING = {"atom": {"a": {"obj": {"kind": 6, "n": 0}}}}
O_EMPTY_STR = {"atom": {"a": {"str": {"n": STR_EMPTY}}}}
O_EMPTY_BYTES = {"atom": {"a": {"obj": {"kind": 7, "n": 0}}}}


def hostile_results(rng):
    """what a serializer may return: None, falsy values, NOTHING, containers, attrs instances"""
    flat = lambda c, vals: {"inst": {"cls": c, "hsh": None, "fields": [[f, v] for f, v in zip(CLS_FIELDS[c], vals)]}}  # noqa: E731
    other = [O_NOTHING, O_EMPTY_STR, A_int(rng.randrange(90, 99)), A_NONE]
    pick = lambda: rng.choice(other)  # noqa: E731
    return [
        A_NONE, A_NONE, A_NONE, A_int(0), O_EMPTY_STR, O_EMPTY_BYTES, O_NOTHING, A_int(rng.randrange(90, 99)),
        A_str(rng.randrange(20, 30)),
        coll("list", []), coll("tuple", []), dct("dict", []), coll("frozenset", []),
        coll("list", [pick(), pick()]), coll("tuple", [pick()]), nt(1, [pick(), O_NOTHING]),
        dct("odict", [(O_NOTHING, pick())]), dct("dict", [(A_int(91), coll("list", [O_EMPTY_STR]))]),
        flat(4, []), flat(0, [pick(), pick()]), flat(7, [O_NOTHING, coll("list", [O_EMPTY_STR])]),
        flat(2, [pick(), pick(), O_NOTHING]), coll("list", [flat(0, [O_NOTHING, O_EMPTY_STR])]),
        dct("dict", [(A_int(92), flat(10, [O_NOTHING, O_EMPTY_BYTES, O_EMPTY_STR]))]),
    ]


def add_subst(case, rng):
    """a value_serializer with hostile RESULTS for some or all inputs (asdict, no fault)"""
    v = case["value"]
    if case["api"] != "asdict" or "inst" not in v:
        return
    r = rng.random()
    scal = _scalars_in(v, [])
    if r < 0.45 and scal:
        target = {"atomIs": {"a": rng.choice(scal)["atom"]["a"]}}
    elif r < 0.65:
        target = "scalars"
    elif r < 0.9:
        target = {"field": {"name": rng.choice(NAMES)}}
    else:
        target = "all"
    cands = [x for x in hostile_results(rng) if repl_safe(target, x)]
    if not cands:
        return
    case["ser"] = "subst"
    case["subst"] = {"target": target, "repl": rng.choice(cands)}
    case["fault"] = None


def add_history(case, rng):
    used = sorted(i for i in _classes_in(case["value"], set()) if DEFS[i][2] == "attrs" and i not in NOT_IN_PLACE)
    r = rng.random()
    if r < 0.3 or not used:
        case["cfg"]["history"] = "fresh"
    else:
        case["cfg"]["history"] = "late"
        case["cfg"]["late"] = used if r < 0.75 else sorted(rng.sample(used, rng.randint(1, len(used))))
        case["cfg"]["rewarm"] = rng.random() < 0.4


def targeted(g, rng):
    """small hand-shaped arguments around the places where the two conversion sites must agree"""
    v = g.value
    pick = rng.randrange(16)
    if pick == 15:
        pick = 13
    d = 2
    if pick == 0:    # namedtuples nested in collections / namedtuples (retain)
        inner = nt(rng.randrange(2), [v(d, "member") for _ in range(rng.choice([0, 2, 2, 3]))])
        outer = rng.choice([coll("list", [inner, v(d, "member")]), coll("tuple", [inner]), nt(0, [inner, g.atom()]),
                            dct("dict", [(g.atom(), inner)]), inner])
        return outer
    if pick == 1:    # namedtuple with one field
        inner = nt(rng.randrange(2), [v(d, "member")])
        return rng.choice([inner, coll("list", [inner]), dct("odict", [(A_int(1), inner)]), dct("dict", [(inner if all("atom" in i for i in inner["coll"]["items"]) else A_int(3), A_int(1))])])
    if pick == 2:    # collection-valued keys, flat
        keys = g.distinct([coll("tuple", [g.atom(), g.atom()]), nt(0, [g.atom()]) if rng.random() < 0.3 else nt(1, [g.atom(), g.atom()]),
                           g.setlike("frozenset", d, 2), coll("tuple", [])])
        return dct(rng.choice(["dict", "odict"]), [(k, v(d, "member")) for k in keys])
    if pick == 3:    # collection-valued keys holding collections
        k1 = coll("tuple", [coll("tuple", [g.atom()]), g.atom()])
        k2 = nt(0, [g.setlike("frozenset", d, 2)])
        keys = g.distinct([k1, k2][: rng.choice([1, 2])])
        return dct("dict", [(k, g.atom()) for k in keys])
    if pick == 4:    # instances as keys
        keys = [g.inst(d, hashable=True) for _ in range(rng.choice([1, 2]))] + [coll("tuple", [g.atom(True)])]
        rng.shuffle(keys)
        return dct(rng.choice(["dict", "odict"]), [(k, v(d, "member")) for k in g.distinct(keys)])
    if pick == 5:    # instances inside sets, alone or inside tuples
        ms = [g.inst(d, hashable=True), coll("tuple", [g.inst(d, hashable=True), g.atom(True)]), g.atom(True)]
        ms = g.distinct(ms[: rng.choice([1, 2, 3])])
        kind = rng.choice(["set", "frozenset"])
        return coll(kind, g.iteration_order(kind, ms))
    if pick == 6:    # dict values / keys that are instances (astuple drops the filter there)
        return dct(rng.choice(["dict", "odict"]), [(g.inst(d, hashable=True), g.inst(d)), (g.atom(), g.inst(d, cls=1))])
    if pick == 7:    # OrderedDict, nested
        return dct("odict", [(g.atom(), dct("odict", [(g.atom(), g.inst(d))])), (A_str(11), coll("list", [dct("odict", [])]))])
    if pick == 8:    # two levels of lists of instances (astuple stops after one)
        return coll(rng.choice(["list", "tuple"]), [coll("list", [g.inst(d)]), g.inst(d), coll("tuple", [])])
    if pick == 9:    # keys that collide after conversion: a frozenset and the tuple of its members
        fs = g.setlike("frozenset", d, 2)
        items = fs["coll"]["items"]
        keys = g.distinct([fs, coll("tuple", items), nt(1, items)])
        rng.shuffle(keys)
        return dct("dict", [(k, g.atom()) for k in keys])
    if pick == 11:   # something unbuildable (an instance as key / set member) below a tuple below field level
        bad = rng.choice([dct("dict", [(g.inst(d, hashable=True), g.atom())]),
                          coll("set", [g.inst(d, hashable=True)]),
                          dct("odict", [(coll("tuple", [g.inst(d, hashable=True)]), g.atom())])])
        tup = coll("tuple", [g.atom(), bad, g.atom()])
        return rng.choice([coll("list", [tup]), dct("dict", [(g.atom(), tup)]), coll("tuple", [tup]),
                           nt(0, [tup, g.atom()])])
    if pick == 12:   # attrs instances that are also containers, below a field value
        ci = lambda: g.inst(d, cls=rng.choice([13, 14, 15, 16, 18]))  # noqa: E731
        hk = g.inst(d, cls=17)
        return rng.choice([coll("list", [ci(), g.atom()]), coll("tuple", [ci()]), dct("dict", [(g.atom(), ci())]),
                           dct("odict", [(hk, ci())]), coll("list", [dct("dict", [(g.atom(), coll("list", [ci()]))])]),
                           nt(0, [ci(), ci()]), coll("set", [hk]), coll("list", [hk, coll("tuple", [hk])])])
    if pick == 13:   # several instances of one class whose fields hold equal-but-distinguishable values
        cls = rng.choice([0, 7, 5, 13, 3])
        n = rng.choice([0, 1, 1, 2])
        twins = [A_int(n), {"atom": {"a": {"float": {"n": n}}}}] + ([{"atom": {"a": {"bool": {"b": bool(n)}}}}] if n < 2 else [])
        st = rng.randrange(12)
        stw = [A_str(st), {"atom": {"a": {"strsub": {"n": st}}}}]
        other = g.atom()
        insts = []
        for _ in range(rng.choice([2, 3, 4])):
            vals = [rng.choice(twins) if i == 0 else (rng.choice(stw) if rng.random() < 0.5 else other)
                    for i in range(len(CLS_FIELDS[cls]))]
            insts.append(g.mk_inst(cls, rng.randrange(64) if cls in HASHABLE_CLS else None,
                                   [[f, x] for f, x in zip(CLS_FIELDS[cls], vals)]))
        return rng.choice([coll("list", insts), coll("tuple", insts), dct("dict", [(A_int(i + 70), x) for i, x in enumerate(insts)])])
    if pick == 10:   # empty containers of every kind
        return coll("list", [coll("tuple", []), coll("list", []), coll("set", []), coll("frozenset", []), nt(0, []),
                             dct("dict", []), dct("odict", []), g.inst(d, cls=4)])
    return v(1, "field")


def gen_cases(tier, rng):
    n = 40000 if tier == "quick" else 600000
    g = Gen(rng, 4 if tier == "quick" else 5)
    for i in range(n):
        r = rng.random()
        if r < 0.03:
            value = g.value(1, "member")           # mostly not an attrs instance
        elif r < 0.4:
            cls = rng.choice([0, 1, 2, 3, 5, 6, 7, 8, 9, 10, 11, 12, 13, 14, 16, 18])
            fields = [[f, targeted(g, rng) if rng.random() < 0.6 else g.value(2, "field")] for f in CLS_FIELDS[cls]]
            value = g.mk_inst(cls, rng.randrange(64) if cls in HASHABLE_CLS else None, fields)
        elif r < 0.5:                              # flat instances (round trip)
            cls = rng.choice([0, 1, 2, 3, 4, 5, 7, 8, 9, 10, 12, 13, 14, 15, 16, 18])
            fields = [[f, g.atom()] for f in CLS_FIELDS[cls]]
            value = g.mk_inst(cls, rng.randrange(64) if cls in HASHABLE_CLS else None, fields)
        else:
            value = g.inst(0)
        case = rand_opts(rng, value)
        if r >= 0.4 and r < 0.5 and rng.random() < 0.7:
            case["filter"], case["ser"] = "none", "off"
            case["api"] = "asdict"
        if not _valid(case):
            continue
        if rng.random() < 0.14:
            add_subst(case, rng)
        if case["ser"] != "subst" and rng.random() < 0.22:
            add_fault(case, rng)
        if rng.random() < 0.07:
            add_history(case, rng)
        yield case


# ------------------------------------------------------------------------------------------------ reporting

def _depth(node):
    if "atom" in node:
        return 0
    if "inst" in node:
        return 1 + max([_depth(v) for _, v in node["inst"]["fields"]] or [0])
    if "coll" in node:
        return 1 + max([_depth(v) for v in node["coll"]["items"]] or [0])
    return 1 + max([max(_depth(k), _depth(v)) for k, v in node["dict"]["items"]] or [0])


def _size(node):
    if "atom" in node:
        return 1
    if "inst" in node:
        return 1 + sum(_size(v) for _, v in node["inst"]["fields"])
    if "coll" in node:
        return 1 + sum(_size(v) for v in node["coll"]["items"])
    return 1 + sum(_size(k) + _size(v) for k, v in node["dict"]["items"])


def _kinds(node, acc):
    if "atom" in node:
        return acc
    if "inst" in node:
        acc.add(f"cls{node['inst']['cls']}")
        for _, v in node["inst"]["fields"]:
            _kinds(v, acc)
    elif "coll" in node:
        k = node["coll"]["k"]
        acc.add(k if isinstance(k, str) else f"ntuple{len(node['coll']['items'])}")
        for v in node["coll"]["items"]:
            _kinds(v, acc)
    else:
        acc.add(node["dict"]["k"])
        for k, v in node["dict"]["items"]:
            if "atom" not in k:
                acc.add("key:" + next(iter(k)))
            _kinds(k, acc)
            _kinds(v, acc)
    return acc


def nontrivial(case, model):
    v = case["value"]
    return "inst" in v and any("atom" not in x for _, x in v["inst"]["fields"])


def dist(case, obs):
    f = case["filter"]
    res = obs.get("result", {}) if isinstance(obs, dict) else {}
    d = {
        "api": ("attrs." if case["ng"] else "attr.") + case["api"],
        "recurse": case["recurse"],
        "retain": case["retain"],
        "filter": f if isinstance(f, str) else next(iter(f)),
        "factory": case["dictFactory"] if case["api"] == "asdict" else case["tupleFactory"],
        "ser": case["ser"],
        "depth": _depth(case["value"]),
        "size": min(_size(case["value"]) // 10 * 10, 100),
        "outcome": "ok" if "ok" in res else res.get("exc", {}).get("e", "?"),
        "roundtrip": obs.get("roundtrip") if isinstance(obs, dict) else "?",
        "explicit_args": case.get("cfg", {}).get("explicit"),
        "history": case.get("cfg", {}).get("history", "fixed"),
        "subst_target": (lambda t: None if t is None else (t if isinstance(t, str) else next(iter(t))))(
            (case.get("subst") or {}).get("target") if case["ser"] == "subst" else None),
        "subst_result": (lambda x: None if x is None else (next(iter(x)) if "atom" not in x else json.dumps(x["atom"]["a"])))(
            (case.get("subst") or {}).get("repl") if case["ser"] == "subst" else None),
        "filter_verdict": case.get("cfg", {}).get("verdict", "bool") if case["filter"] != "none" else None,
        "opaque_leaves": sorted(_opaque_kinds(case["value"], set())),
        "twice": case.get("cfg", {}).get("twice", False),
        "fault_site": (case.get("fault") or {}).get("site"),
        "fault_fired": obs.get("faultFired") if isinstance(obs, dict) else "?",
        "fault_exc": case.get("cfg", {}).get("faultExc") if case.get("fault") else None,
        "fault_k": min((case.get("fault") or {}).get("k", 0), 9),
    }
    for k in _kinds(case["value"], set()):
        d["has_" + k] = True
    return d


# ------------------------------------------------------------------------------------------------ shrinking

def _valid(case):
    try:
        build(case["value"], {})
        return True
    except Exception:  # noqa: BLE001
        return False


def _subtrees(node):
    """smaller variants of a tree"""
    if "atom" in node:
        if node != A_INT0:
            yield A_INT0
        return
    if "inst" in node:
        d = node["inst"]
        for i, (f, v) in enumerate(d["fields"]):
            for s in _subtrees(v):
                fs = list(d["fields"])
                fs[i] = [f, s]
                yield {"inst": dict(d, fields=fs)}
        return
    if "coll" in node:
        d = node["coll"]
        yield A_INT0
        for i, v in enumerate(d["items"]):
            yield {"coll": dict(d, items=d["items"][:i] + d["items"][i + 1:])}
        for i, v in enumerate(d["items"]):
            for s in _subtrees(v):
                yield {"coll": dict(d, items=d["items"][:i] + [s] + d["items"][i + 1:])}
        return
    d = node["dict"]
    yield A_INT0
    for i in range(len(d["items"])):
        yield {"dict": dict(d, items=d["items"][:i] + d["items"][i + 1:])}
    for i, (k, v) in enumerate(d["items"]):
        for s in _subtrees(v):
            yield {"dict": dict(d, items=d["items"][:i] + [[k, s]] + d["items"][i + 1:])}
        for s in _subtrees(k):
            yield {"dict": dict(d, items=d["items"][:i] + [[s, v]] + d["items"][i + 1:])}


A_INT0 = A_int(0)


def shrink(case):
    cfg = case.get("cfg", {})
    if case["ser"] == "subst":
        yield dict(case, ser="off", subst=None)
    if case.get("fault") is not None:
        yield dict(case, fault=None)
        if case["fault"]["k"] > 1:
            yield dict(case, fault=dict(case["fault"], k=case["fault"]["k"] - 1))
    if cfg.get("history", "fixed") != "fixed":
        yield dict(case, cfg=dict(cfg, history="fixed"))
        if cfg.get("rewarm"):
            yield dict(case, cfg=dict(cfg, rewarm=False))
    if cfg.get("twice"):
        yield dict(case, cfg=dict(cfg, twice=False))
    for k, v in (("filter", "none"), ("ser", "off"), ("ng", False), ("dictFactory", "dict"), ("tupleFactory", "tuple"),
                 ("retain", False), ("recurse", True)):
        if case[k] != v:
            c = dict(case, **{k: v})
            if c.get("fault") is None or site_ok(c, c["fault"]["site"]):
                yield c
    if cfg.get("explicit") is not True or cfg.get("positional"):
        yield dict(case, cfg=dict(cfg, explicit=True, positional=False))
    n = 0
    for s in _subtrees(case["value"]):
        c = dict(case, value=s)
        if _valid(c):
            n += 1
            yield c
            if n > 400:
                return


def neighbours(case, rng):
    for c in _neighbours(case, rng):
        if c.get("fault") is not None and not site_ok(c, c["fault"]["site"]):
            c = dict(c, fault=None)
        yield c


def _neighbours(case, rng):
    cfg = case.get("cfg", {})
    for h in ("fresh", "late"):
        yield dict(case, cfg=dict(cfg, history=h, twice=True, rewarm=True))
    if "inst" in case["value"]:
        for site in SITES:
            if site_ok(case, site):
                for k in (1, 2, 3, 5):
                    for e in ("typeError", "valueError", "abort"):
                        yield dict(case, fault={"site": site, "k": k}, cfg=dict(cfg, faultExc=e))
    for api in ("asdict", "astuple"):
        for ng in (False, True):
            for recurse in (True, False):
                for retain in (False, True):
                    yield dict(case, api=api, ng=ng, recurse=recurse, retain=retain,
                               ser=case["ser"] if api == "asdict" else "off")
    for ser in ("off", "wrap", "wrapLeaf", "wrapAtoms"):
        if case["api"] == "asdict":
            yield dict(case, ser=ser)
    if case["api"] == "asdict" and "inst" in case["value"]:
        for target in ("scalars", "all"):
            for repl in (A_NONE, O_NOTHING, coll("list", [])):
                if repl_safe(target, repl):
                    yield dict(case, ser="subst", subst={"target": target, "repl": repl}, fault=None)
    for _ in range(6):
        yield dict(case, filter=rand_filter(rng))
    yield dict(case, dictFactory="odict", tupleFactory="list")
    yield dict(case, dictFactory="dict", tupleFactory="tuple")
