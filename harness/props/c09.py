"""C09 -- generated ordering equals tuple comparison of the order fields, same class only.

Case = the Lean `Attrs.C09.Case`: front-end (attr.s / define / make_class), class-level cmp/eq/order
(four states: not passed / None / True / False), auto_detect, ordering methods written in the class body,
whether the attrs base class has generated ordering, whether the subclass used as operand is itself an
ordered attrs class, the fields (per-field cmp/eq/order in {unset, True, False, key}, defined on the base or
on the class, and the *scripted* outcomes of every comparison between the two raw values, the two values
keyed by the eq= key and the two values keyed by the order=/cmp= key -- the outcomes of `xv ∘ yv`; those of
`yv ∘ xv` are their mirror: reflected comparisons of values agree --, plus "same object" flags) and the kind of
right operand.  Harness-only `cfg` (slots, frozen, api of base/subclass,
attr.ib vs attrs.field, decorator alias (attr.attrs, attr.dataclass, attrs.mutable, attrs.frozen...), annotated
fields, decorator object reused after another class, kind of foreign operand, whether an attrs base exists
at all) is ignored by the model:
that the verdict is the same for every `cfg` is part of what is checked.  Harness-only `hist` gives the operands an
earlier life: they were built with other values (other scripts), compared in every way and sorted, and then
brought to the case's values -- by changing what the key functions return for the same raw objects (in-place
mutation seen through a key), by rebinding fields behind the instance (object.__setattr__), or through
attr.assoc / attr.evolve / copy.copy of the already-compared instance.  The model is a function of the current
values only, so every comparison must equal the tuple comparison of the values current at that time; and the
comparisons must leave nothing behind on the instances or on the classes (`residue`).
More harness-only dimensions the model is independent of: `truth` (what bool() does on each raw value and each key
result: true / false / raises -- a key function may map a value to 0, "", () ...; the keyed object is still the one
compared), `pre` (the earlier life of the class family: instances of the ancestor with its own generated ordering, of
a sibling, of the subclass have been compared before C's instances ever are; classes are built afresh per `pre`),
`redef` on an own field (the base class defines the same field with other cmp/eq/order arguments and C overrides it;
only honoured when ordering is requested explicitly for C, so that the base's definition never applies to C),
`opts` per field, own or inherited (kw_only, init=False, alias, repr, hash, metadata, converter / validator present,
default value / factory: none of them is ordering's business -- the order tuple stays in field order with the same
participants and keys; instances are built through whatever __init__ results, init=False fields set behind it),
`meta` in cfg (the metaclass of all classes of the case: `type`, or one whose ==/!= between class objects lies -- any two
classes "equal" -- or raises; the class test is identity, other-class operands still get NotImplemented and the
classes are never asked), `hashes` per field (what hash() does on each operand's value: unhashable / by identity / a number shared with other
values, as 1, True and 1.0 share theirs -- so that nothing can be remembered about a value, or shared between
values that are equal or hash alike, without showing), `vk` per field (what kind of object the field values and the
key results ARE: a plain object, an instance of an attrs class -- attr.s or slotted define, with comparison methods of
its own, the two operands' values of one class or of base and subclass, or an attrs instance against a plain object --,
a list / tuple / dict / set subclass holding attrs instances; always with the scripted comparison methods: a value takes
part in the order tuple as the object it is, it is never taken apart (astuple-style recursion), copied or rebuilt).
Also observed: the applications of the key functions during
each direct call (`keys`): every keyed order field's key is applied to self's value, then to other's, on every call.

Observed: the class-level call's error kind, the fields whose attr.ib() raised ValueError, where each of the
four methods of C comes from (attrs-generated in C / user's / inherited attrs-generated / object's), the
results of `C.__lt__(x, y)`... with the trace of value comparisons they perform, `x < y`... and `y < x`....
"""
from __future__ import annotations

import copy
import itertools
import operator
import warnings

import attr
import attrs

import common
from common import UserError

ID = "C09"
RULE = ("cases = class-level (api x cmp x eq x order x auto_detect x own ordering methods) x per-field (cmp x eq x order "
        "x defined-on-base) x scripted comparison outcomes of xv o yv (per view raw/eq-key/order-key, same-object flags; "
        "yv o xv is the mirror) x right-operand kind x base-ordered x subclass-ordered x cfg; blocks: class-level table "
        "exhaustive (own methods: 5 subsets quick / all 16 thorough), field-level table exhaustive (64 x on-base x 3 front-ends), "
        "tuple positions (identical/equal/truthy-equal/unequal/falsy-unequal/raising per position x operator outcome) exhaustive "
        "for <=2 fields quick / <=3 thorough over 7 key shapes, {0,1,2}^k all ordered pairs (k<=2 quick, <=3 thorough) with key "
        "functions and participation patterns, subset partial order and NaN, operand kinds x method provenance, random fill "
        "(<=5 fields) with a malformed stream (12%), histories (block: kind in rekey/rebind/assoc/evolve/copy x who x key shape x "
        "frozen explicit/inherited x slots, and 30% of the random block: earlier values compared and sorted, then changed); "
        "class families (block: 5 front-end settings x 8 pre-comparison orders of ancestor/sibling/subclass x base ordered x "
        "inherited/own field counts x key shapes, with overriding redefinitions), truthiness of key results (block: 7 key shapes "
        "x {true,false,raises}^2 per operand), field options that must not matter (block: kw_only/init/alias/repr/hash/metadata/converter/"
        "validator/default singly and mixed x first/second/inherited/all fields x 3 front-ends, fields disagreeing in direction), "
        "hashable values (block memo: key shapes x earlier life none/rekey/rebind/evolve/copy x hash by identity / shared number / "
        "unhashable), kind of the value objects (block values: attrs instance of attr.s / slotted define class with its own comparison "
        "methods, base-vs-subclass and attrs-vs-plain across the operands, list/tuple/dict/set holding attrs instances x 6 key shapes "
        "x 3 front-ends; harness-only, the model is independent of it), all five as random decoration of every other block; metaclasses whose class ==/!= lies or raises (cfg, 3 of 8 cases; "
        "40% of the operands block); field names permuted; non-trivial = class built, ordering generated, and "
        "(other-class operand or at least one value comparison performed); distinct = distinct JSON case")
ASSUMPTIONS = [
    "instances that lie about `__class__` are not used as other-class operands: the generated methods test `other.__class__`, so such an object is, for attrs, an instance of the class it claims; lying METACLASSES (class ==/!= True/False or raising) are varied",
    "the values' reflected comparisons agree (yv > xv is xv < yv, yv == xv is xv == yv), as Python's data model asks: y-side scripted values answer with the mirror of the script; the trace records which value was compared with == / an ordering operator, not by which side",
    "CPython's tuple rich comparison (first position neither identical nor ==, operator applied there, else lengths) is modelled as a 6-line function and diff-tested here through scripted, tracing value objects",
    "CPython's rich-comparison dispatch for x<y (reflected method of a proper subclass first, left, reflected, TypeError) is modelled and diff-tested here for the operand kinds same/identical/subclass/superclass/foreign",
    "scripted comparison objects stand for arbitrary values: every comparison outcome is an input of the case; the concrete {0,1,2} / subset / NaN domains are turned into scripts by running Python's own comparisons in the generator, and Lean's wf re-derives the natural-number scripts",
    "the kind of object a field value is (`vk`: attrs instance, container of attrs instances, ...) is harness-only variation: all kinds carry the same scripted comparison methods, so the model's verdict is independent of it; values that are attrs instances with GENERATED ordering of their own are not used (their comparisons would be attrs's, not the script's)",
    "exception classes (auto_exc) and field redefinition in subclasses are not varied here (C14 / C07)",
]
EXHAUSTIVE = {"quick": False, "thorough": False}
BUDGET_S = {"quick": 32, "thorough": 380}
TABLES = ["attrsKw", "defineKw", "fn_determine_attrs_eq_order", "fn_determine_attrib_eq_order", "fn_attrs_wrap"]
PARALLEL = True

OPS = ["lt", "le", "gt", "ge"]
DUNDER = {"lt": "__lt__", "le": "__le__", "gt": "__gt__", "ge": "__ge__"}
PYOP = {"lt": operator.lt, "le": operator.le, "gt": operator.gt, "ge": operator.ge}
OUTS = ["T", "F", "truthy", "falsy", "raises"]
FARGS = ["unset", "t", "f", "key"]
ARG4 = ["unset", "non", "t", "f"]
ARG3 = ["unset", "t", "f"]
APIS = ["attrS", "define", "makeClass"]
RHS = ["same", "identical", "sub", "super", "foreign"]
NAMES = ["a", "b", "c", "d", "e"]
OWN5 = [[], ["lt"], ["le"], ["gt", "ge"], ["lt", "le", "gt", "ge"]]
OWN16 = [[o for o, bit in zip(OPS, bits) if bit] for bits in itertools.product([0, 1], repeat=4)]

TRUTHY, FALSY = common.TRUTHY, common.FALSY
MK = {"T": True, "F": False, "truthy": TRUTHY, "falsy": FALSY}
LOG: list = []


class _User:
    def __repr__(self):
        return "USER"


USER = _User()
WRONG = _User()


def _mirror(sc):
    return {"eq": sc["eq"], "lt": sc["gt"], "le": sc["ge"], "gt": sc["lt"], "ge": sc["le"]}


class V:
    """a scripted value: raw field value or keyed value.  x's values answer with the script, y's values
    with its mirror (reflected comparisons agree); the log records which value was compared how
    (`tag:eq` for ==, `tag:ord` for an ordering operator), not by which side"""
    def __hash__(self):
        # scripted hashability (must never matter for ordering): unhashable / by identity / a given number, so that
        # distinct values can share a hash the way 1, True and 1.0 do
        if self.hashv is None:
            raise TypeError("unhashable scripted value")
        return id(self) >> 4 if self.hashv == "id" else self.hashv

    hashv = None

    def __init__(self, tag, script):
        self.tag, self.script = tag, script
        self.ek = self.ok = self.ck = None
        self.partner = self          # the value at the same position of the other operand
        self.truth = "T"             # what bool(value) does: "T", "F" or "raises" (must never matter)

    def __bool__(self):
        if self.truth == "raises":
            raise ValueError("truth value of a scripted value")
        return self.truth == "T"

    def _do(self, op, other):
        if other is not self.partner:
            # compared with something that is not its counterpart (a raw value against a keyed one,
            # another field's value, ...): never happens in a tuple comparison of the two order tuples
            LOG.append(self.tag + ":!partner")
            return WRONG
        LOG.append(self.tag + (":eq" if op == "eq" else ":ord"))
        out = self.script[op]
        if out == "raises":
            raise UserError("cmp")
        return MK[out]

    def __eq__(self, other):
        return self._do("eq", other)

    def __ne__(self, other):
        LOG.append(self.tag + ":ne")
        return True

    def __lt__(self, other):
        return self._do("lt", other)

    def __le__(self, other):
        return self._do("le", other)

    def __gt__(self, other):
        return self._do("gt", other)

    def __ge__(self, other):
        return self._do("ge", other)


@attr.s(eq=False, init=False)
class VA(V):
    """a scripted value that is an instance of an attrs class (with comparison methods of its own: V's)"""
    p = attr.ib()
    q = attr.ib(order=False)

    def __init__(self, tag, script):
        V.__init__(self, tag, script)
        self.p, self.q = 0, tag


@attr.s(eq=False, init=False)
class VA2(VA):
    """a subclass of VA: the y-side value of kind `attrsSub` (mixed base/subclass values)"""
    r = attr.ib(default=1)

    def __init__(self, tag, script):
        VA.__init__(self, tag, script)
        self.r = 1


@attrs.define(eq=False, init=False)
class VD(V):
    """scripted value, instance of a slotted attrs.define class without generated eq/ordering"""
    p: int
    q: object

    def __init__(self, tag, script):
        V.__init__(self, tag, script)
        self.p, self.q = 0, VA(tag + ":inner", script)


class VL(V, list):
    """scripted value that is a list (holding an attrs instance)"""
    def __init__(self, tag, script):
        V.__init__(self, tag, script)
        list.append(self, VA(tag + ":item", script))


class VT(V, tuple):
    def __new__(cls, tag, script):
        return tuple.__new__(cls, (0, VA(tag + ":item", script)))


class VM(V, dict):
    def __init__(self, tag, script):
        V.__init__(self, tag, script)
        dict.__setitem__(self, "k", VA(tag + ":item", script))


class VS(V, set):
    def __init__(self, tag, script):
        V.__init__(self, tag, script)
        set.add(self, 0)


# harness-only `vk` of a field: what kind of object the field VALUES (and key results) are -- always with the scripted
# comparison methods, so that the model does not depend on it: values take part as the objects they are
VKINDS = {"plain": (V, V), "attrs": (VA, VA), "attrsSub": (VA, VA2), "attrsSuper": (VA2, VA), "define": (VD, VD),
          "list": (VL, VL), "tuple": (VT, VT), "dict": (VM, VM), "set": (VS, VS), "attrsVsPlain": (VA, V)}
VKIND_NAMES = [k for k in VKINDS if k != "plain"]


KEYLOG: list = []


def key_e(v):
    KEYLOG.append(getattr(v, "tag", "?") + ":ek")
    return v.ek


def key_o(v):
    KEYLOG.append(getattr(v, "tag", "?") + ":ok")
    return v.ok


def key_c(v):
    KEYLOG.append(getattr(v, "tag", "?") + ":ck")
    return v.ck


def canon(v):
    if v is True:
        return "T"
    if v is False:
        return "F"
    if v is NotImplemented:
        return "NI"
    if v is USER:
        return "user"
    if v is TRUTHY:
        return "truthy"
    if v is FALSY:
        return "falsy"
    return "other"


def call(f):
    try:
        return canon(f())
    except UserError:
        return "raised"
    except TypeError:
        return "typeErr"
    except BaseException:  # noqa: BLE001
        return "other"


def _kind(e):
    if isinstance(e, ValueError):
        return "valueError"
    if isinstance(e, TypeError):
        return "typeError"
    return "other:" + common.exc_kind(e)


# ------------------------------------------------------------------------------------------ building

def _field_kwargs(f):
    kw = {}
    for arg, keyfn in (("cmp", key_c), ("eq", key_e), ("order", key_o)):
        v = f[arg]
        if v == "t":
            kw[arg] = True
        elif v == "f":
            kw[arg] = False
        elif v == "key":
            kw[arg] = keyfn
    return kw


def _ident(v):
    return v


def _no_check(inst, a, v):
    return None


def _opt_kwargs(f):
    """field options that have nothing to do with ordering (harness-only `opts`): the order tuple must stay in
    field order with the same participants whatever these are"""
    o = f.get("opts") or {}
    kw = {}
    if o.get("kw_only"):
        kw["kw_only"] = True
    if o.get("init") is False:
        kw["init"] = False
    if o.get("alias"):
        kw["alias"] = "al_" + f["name"]
    if o.get("repr") is False:
        kw["repr"] = False
    if o.get("hash") is not None:
        kw["hash"] = bool(o["hash"])
    if o.get("metadata"):
        kw["metadata"] = {"k": f["name"]}
    if o.get("converter"):
        kw["converter"] = _ident
    if o.get("validator"):
        kw["validator"] = _no_check
    if o.get("default") == "value":
        kw["default"] = None
    elif o.get("default") == "factory":
        kw["factory"] = list
    return kw


def _new(K, vals):
    """an instance of the attrs class K holding vals[name] in every field, whatever the __init__ signature is
    (aliases, keyword-only, init=False fields are then set behind the instance)"""
    kw, later = {}, {}
    for a in attr.fields(K):
        if a.init:
            kw[a.alias] = vals[a.name]
        else:
            later[a.name] = vals[a.name]
    inst = K(**kw)
    for n, v in later.items():
        object.__setattr__(inst, n, v)
    return inst


def _norm_opts(fields):
    """attrs refuses a mandatory positional __init__ argument after one with a default: walking C's field order
    (inherited first), every positional init field after the first defaulted one gets a default too, so that any
    combination of `opts` (also after shrinking) is a definable class"""
    out = {}
    had = False
    for f in [g for g in fields if g["inBase"]] + [g for g in fields if not g["inBase"]]:
        o = dict(f.get("opts") or {})
        if not o.get("kw_only") and o.get("init") is not False:
            if had and not o.get("default"):
                o["default"] = "value"
            if o.get("default"):
                had = True
        out[f["name"]] = o
    return [dict(f, opts=out[f["name"]]) for f in fields]


def _mk_field(f, cfg):
    kw = _field_kwargs(f)
    kw.update(_opt_kwargs(f))
    if "cmp" in kw or cfg.get("maker", "attrib") == "attrib":
        return attr.ib(**kw)
    return attrs.field(**kw)


def _cls_kwargs(case):
    kw = {}
    for arg in ("cmp", "eq", "order"):
        v = case[arg]
        if v == "non":
            kw[arg] = None
        elif v == "t":
            kw[arg] = True
        elif v == "f":
            kw[arg] = False
    if case["autoDetect"] != "unset":
        kw["auto_detect"] = case["autoDetect"] == "t"
    return kw


def _bg_kwargs(cfg, which):
    kw = {}
    s = cfg.get(which)
    if s is not None:
        kw["slots"] = s
    if cfg.get("frozen") or (which == "base_slots" and cfg.get("frozen_base")):
        kw["frozen"] = True       # frozen_base: only the base is frozen, C inherits the frozen-ness
    return kw


def _mk_user(op):
    def m(self, other):
        return USER

    m.__name__ = DUNDER[op]
    m._c09_user = True
    return m


def _deco(api_name):
    return attrs.define if api_name == "define" else attr.s


ALIASES = {"attrS": [("attr.s", attr.s, {}), ("attr.attrs", attr.attrs, {}), ("attr.attributes", attr.attributes, {}),
                     ("attr.dataclass", attr.dataclass, {"annot": True})],
           "define": [("define", attrs.define, {}), ("mutable", attrs.mutable, {}), ("frozen", attrs.frozen, {"frozen": True})]}


def _alias(api, cfg):
    lst = ALIASES[api]
    return lst[cfg.get("alias", 0) % len(lst)]


def _annotate(body, cfg, force=False):
    """annotated fields (the auto_attribs route of _transform_attrs)"""
    if cfg.get("annot") or force:
        body["__annotations__"] = {k: int for k, v in body.items() if not k.startswith("__")}
    return body


_CLASS_CACHE: dict = {}


def _redefs(case):
    """own fields of C that the base class defines too, with other cmp/eq/order arguments (harness-only `redef`).
    Honoured only when ordering is requested explicitly for C (order=True or cmp=True): C then orders by its
    own definition and the base's definition is never used on C's instances, so the model need not know it."""
    if not (case["order"] == "t" or case["cmp"] == "t"):
        return []
    return [f for f in case["fields"] if not f["inBase"] and f.get("redef")]


META_LOG: list = []


def _metaclass(kind):
    """the metaclass of every class of the case: plain `type`, or one whose == between class objects LIES (any two
    classes of the family are "equal", != says False) or raises -- the class test of the ordering methods is about
    identity, so operands of another class must still get NotImplemented whatever the metaclass answers"""
    if not kind:
        return type

    def __eq__(cls, other):
        META_LOG.append("meta:eq")
        if kind == "raises":
            raise RuntimeError("metaclass ==")
        return True

    def __ne__(cls, other):
        META_LOG.append("meta:ne")
        if kind == "raises":
            raise RuntimeError("metaclass !=")
        return False

    return type("Meta", (type,), {"__eq__": __eq__, "__ne__": __ne__, "__hash__": type.__hash__})


def _nobase(case):
    cfg = case.get("cfg", {})
    return bool(cfg.get("nobase")) and not cfg.get("frozen_base") and not case["baseOrdered"] and \
        case["rhs"] != "super" and not any(f["inBase"] for f in case["fields"]) and not _redefs(case) and \
        not case.get("pre") and not cfg.get("meta")


def build(case):
    """returns dict(fieldErrs, clsErr, classes or None)"""
    cfg = case.get("cfg", {})
    key = (case["api"], case["cmp"], case["eq"], case["order"], case["autoDetect"], tuple(case["own"]),
           case["baseOrdered"], case["subOrdered"], _nobase(case),
           tuple((f["name"], f["cmp"], f["eq"], f["order"], f["inBase"], str(f.get("redef")), str(sorted((f.get("opts") or {}).items()))) for f in case["fields"]),
           tuple(sorted((k, str(v)) for k, v in cfg.items() if k != "nobase")),
           tuple(case.get("pre") or ()))
    got = _CLASS_CACHE.get(key)
    if got is not None:
        return got
    if len(_CLASS_CACHE) > 2000:
        _CLASS_CACHE.clear()
        common.purge_linecache()
    res = _build(case, cfg)
    _CLASS_CACHE[key] = res
    return res


def _build(case, cfg):
    case = dict(case, fields=_norm_opts(case["fields"]))
    if cfg.get("frozen") or cfg.get("frozen_base") or \
            (case["api"] in ALIASES and _alias(case["api"], cfg)[2].get("frozen")):
        # frozen dict classes below a slotted frozen base cannot read inherited fields back on the pinned tree
        # (known finding K3 of C01/C08/C10; a validator makes even __init__ fail): frozen families are built
        # uniformly slotted or uniformly dict-based
        uniform = cfg.get("slots") if cfg.get("slots") is not None else case["api"] == "define"
        cfg = dict(cfg, slots=uniform, base_slots=uniform)
    fields = case["fields"]
    field_errs = []
    for f in fields:
        try:
            _mk_field(f, cfg)
        except ValueError:
            field_errs.append(f["name"])
        except BaseException as e:  # noqa: BLE001
            field_errs.append(f["name"] + "!" + _kind(e))
    api = case["api"]
    ckw = _cls_kwargs(case)
    cls_err = "ok"
    try:
        # the class-level call alone, on an empty class (attr.s raises when the decorator is made,
        # define only when it is applied)
        if api == "attrS":
            attr.s(**ckw)(type("Probe", (object,), {}))
        elif api == "define":
            attrs.define(**ckw)(type("Probe", (object,), {}))
        else:
            attr.make_class("Probe", {}, **ckw)
    except BaseException as e:  # noqa: BLE001
        cls_err = _kind(e)
        if cls_err.startswith("other"):
            cls_err = "typeError"
    if field_errs or cls_err != "ok":
        return {"fieldErrs": field_errs, "clsErr": cls_err, "classes": None}

    base_fields = [f for f in fields if f["inBase"]]
    own_fields = [f for f in fields if not f["inBase"]]
    M = _metaclass(cfg.get("meta"))
    try:
        if _nobase(case):
            Base = object
        else:
            bdeco = _deco(cfg.get("base_api", "attr.s"))
            base_body = {f["name"]: _mk_field(f, cfg) for f in base_fields}
            for f in _redefs(case):
                base_body[f["name"]] = _mk_field(dict(f, **f["redef"]), cfg)
            bkw = _bg_kwargs(cfg, "base_slots")
            if _redefs(case):
                # a frozen dict class re-declaring a field that is a slot of its base cannot read it back on the
                # pinned tree (known finding K3 of C01/C08/C10, not this property's business): keep that base dict-based
                bkw["slots"] = False
            Base = bdeco(order=bool(case["baseOrdered"]), **bkw)(M("Base", (object,), base_body))
        body = {f["name"]: _mk_field(f, cfg) for f in own_fields}
        methods = {DUNDER[op]: _mk_user(op) for op in case["own"]}
        bg = _bg_kwargs(cfg, "slots")
        if api == "makeClass":
            C = attr.make_class("C", body, bases=(Base,), class_body=methods, **ckw, **bg)
        else:
            _name, deco, forced = _alias(api, cfg)
            if forced.get("frozen"):
                bg.pop("frozen", None)
            annot = bool(cfg.get("annot")) or bool(forced.get("annot"))
            _annotate(body, cfg, force=annot)
            if annot and api == "attrS" and not forced.get("annot"):
                bg["auto_attribs"] = True
            body.update(methods)
            the_deco = deco(**ckw, **bg)
            if cfg.get("reuse"):
                # the same decorator object is first applied to another class (one with its own __lt__)
                other_body = _annotate({"q": attr.ib()}, cfg, force=annot)
                other_body["__lt__"] = _mk_user("lt")
                the_deco(type("Other", (object,), other_body))
            C = the_deco(M("C", (Base,), body))
        if case["subOrdered"]:
            D = _deco(cfg.get("sub_api", "attr.s"))(order=True, **_bg_kwargs(cfg, "slots"))(M("D", (C,), {}))
        else:
            D = M("D", (C,), {})
        fk = cfg.get("foreign_kind", "twin")
        F = None
        if fk == "twin":
            F = attr.s(order=True)(M("C", (object,), {f["name"]: _mk_field(f, cfg) for f in base_fields + own_fields}))
    except BaseException as e:  # noqa: BLE001
        k = _kind(e)
        return {"fieldErrs": [], "clsErr": k if k in ("valueError", "typeError") else "typeError", "classes": None}
    # what the classes look like before anything is compared (class-level residue is judged against this)
    dicts = [(K, frozenset(K.__dict__)) for K in (Base, C, D) if K is not object]
    try:
        _pre_compare(case.get("pre") or (), Base, C, D)
    finally:
        del LOG[:]
    return {"fieldErrs": [], "clsErr": "ok", "classes": (Base, C, D, F), "dicts": dicts}


_NE = {"eq": "F", "lt": "T", "le": "T", "gt": "F", "ge": "F"}


def _throwaway_pair(K):
    """two instances of the attrs class K over fresh scripted values (first < second everywhere)"""
    vx, vy = {}, {}
    for n in _field_names(K) or []:
        p = {"same": False, "s": _NE}
        vx[n], vy[n] = _mk_values({"name": n, "raw": p, "ek": p, "ok": p})
    return _new(K, vx), _new(K, vy)


def _pre_compare(pre, Base, C, D):
    """the earlier life of the class family: instances of the ancestor / a sibling / the subclass are
    compared (every operator, both ways, and a sort) before C's instances ever are"""
    for who in pre:
        if who == "base":
            K = Base
        elif who == "sub":
            K = D
        elif who == "sib":
            if Base is object:
                continue
            K = attr.s(order=True)(type("Sib", (Base,), {"zz": attr.ib(default=None)}))
        else:
            K = C
        if K is object or _field_names(K) is None:
            continue
        a, b = _throwaway_pair(K)
        _warm_up(a, b)


def _pair_up(a, b):
    a.partner, b.partner = b, a


def _mk_values(f):
    n = f["name"]
    VX, VY = VKINDS[f.get("vk") or "plain"]
    X = VX(n, f["raw"]["s"])
    X.ek = VX(n + ":ek", f["ek"]["s"])
    X.ok = VX(n + ":ok", f["ok"]["s"])
    X.ck = VX(n + ":ck", f["ok"]["s"])
    if f["raw"]["same"]:
        return X, X
    Y = VY(n, _mirror(f["raw"]["s"]))
    _pair_up(X, Y)
    for view, pk in (("ek", "ek"), ("ok", "ok"), ("ck", "ok")):
        if f[pk]["same"]:
            setattr(Y, view, getattr(X, view))
        else:
            ky = VY(n + ":" + view, _mirror(f[pk]["s"]))
            _pair_up(getattr(X, view), ky)
            setattr(Y, view, ky)
    hashes = f.get("hashes")
    if hashes:
        for side, val in (("x", X), ("y", Y)):
            if side == "y" and val is X:
                continue
            val.hashv = hashes.get(side)
            for view in VIEWS:
                kv = getattr(val, view)
                if side == "x" or kv is not getattr(X, view):
                    kv.hashv = hashes.get(side)
    truth = f.get("truth")
    if truth:
        # falsy (or bool()-raising) raw values and key results: e.g. order=len on "", order=lambda v: v % 3
        for side, val in (("x", X), ("y", Y)):
            t = truth.get(side, {})
            if side == "y" and val is X:
                continue
            val.truth = t.get("raw", "T")
            for view, pk in (("ek", "ek"), ("ok", "ok"), ("ck", "ok")):
                kv = getattr(val, view)
                if side == "x" or kv is not getattr(X, view):
                    kv.truth = t.get(pk, "T")
    return X, Y


_Q_OTHER = {"lt": "other", "le": "other", "gt": "other", "ge": "other"}


def _failed(cls_err, field_errs):
    return {"clsErr": cls_err, "fieldErrs": field_errs, "built": False,
            "status": {o: "dflt" for o in OPS}, "direct": dict(_Q_OTHER), "trace": {o: [] for o in OPS},
            "ops": dict(_Q_OTHER), "rops": dict(_Q_OTHER), "residue": [],
            "keys": {o: [] for o in OPS}}


def _status(C, Base, op):
    d = DUNDER[op]
    own = C.__dict__.get(d)
    if own is not None:
        return "user" if getattr(own, "_c09_user", False) else "gen"
    for k in C.__mro__[1:]:
        if d in k.__dict__:
            return "dflt" if k is object else "inh"
    return "dflt"


def observe(case):
    try:
        return _observe(case)
    except BaseException as e:  # noqa: BLE001
        k = _kind(e)
        return _failed(k if k in ("valueError", "typeError") else "typeError", ["!observe"])
    finally:
        del LOG[:]
        del KEYLOG[:]


VIEWS = ("ek", "ok", "ck")


def _retarget(v, partner):
    """one-directional partner links of a value (and its keyed forms) used only during the warm-up phase"""
    v.partner = partner
    for view in VIEWS:
        getattr(v, view).partner = getattr(partner, view)


def _warm_up(x, y):
    """earlier uses of the instances: every operator both ways and a sort; results are discarded"""
    for op in OPS:
        for thunk in (lambda: PYOP[op](x, y), lambda: PYOP[op](y, x)):
            try:
                thunk()
            except BaseException:  # noqa: BLE001
                pass
    try:
        sorted([x, y])
    except BaseException:  # noqa: BLE001
        pass
    del LOG[:]


def _field_names(inst):
    try:
        return [a.name for a in attr.fields(inst if isinstance(inst, type) else type(inst))]
    except BaseException:  # noqa: BLE001
        return None


def _transform(inst, kind, cur):
    """bring an already-compared instance to the current values: rebinding behind its back, or through
    assoc / evolve / copy (the result replaces the instance)"""
    names = _field_names(inst)
    changes = {n: cur[n] for n in names}
    if kind == "rebind":
        for n, v in changes.items():
            object.__setattr__(inst, n, v)
        return inst
    # copying some mixed slotted/dict hierarchies fails on the pinned tree for reasons that belong to
    # C10 (known findings K3/K4 there): the history then degrades to rebinding on the instance itself
    try:
        if kind == "assoc":
            with warnings.catch_warnings():
                warnings.simplefilter("ignore")
                return attr.assoc(inst, **changes)
        if kind == "evolve":
            flds = attr.fields(type(inst))
            twin = attr.evolve(inst, **{a.alias: cur[a.name] for a in flds if a.init})
            for a in flds:
                if not a.init:
                    object.__setattr__(twin, a.name, cur[a.name])
            return twin
        twin = copy.copy(inst)
    except BaseException:  # noqa: BLE001
        twin = inst
    for n, v in changes.items():
        object.__setattr__(twin, n, v)
    return twin


def _observe(case):
    b = build(case)
    if b["classes"] is None:
        return _failed(b["clsErr"], b["fieldErrs"])
    Base, C, D, F = b["classes"]
    cfg = case.get("cfg", {})
    fs = case["fields"]
    rhs = case["rhs"]
    hist = case.get("hist")
    xv, yv = {}, {}
    for f in fs:
        xv[f["name"]], yv[f["name"]] = _mk_values(f)
    fk = cfg.get("foreign_kind", "twin")
    y_is_attrs = rhs != "foreign" or fk == "twin"
    # ---- which sides have a history, and their earlier values
    hx = hy = False
    xb, yb = dict(xv), dict(yv)
    saved = []
    if hist:
        who = "x" if rhs == "identical" else hist["who"]
        hx = who in ("x", "both")
        hy = who in ("y", "both") and y_is_attrs
        for f, bf in zip(fs, hist["before"]):
            n = f["name"]
            Xb, Yb = _mk_values(dict(f, raw=bf["raw"], ek=bf["ek"], ok=bf["ok"]))
            if not (hx and hy):
                # the unchanged side keeps its current values: the earlier values answer to those
                if hx:
                    _retarget(Xb, yv[n])
                if hy:
                    _retarget(Yb, xv[n])
            if hist["kind"] == "rekey":
                # same raw objects throughout; only what the key functions return for them changes
                for side, val, bef in ((hx, xv[n], Xb), (hy, yv[n], Yb)):
                    if side:
                        saved.append((val, val.ek, val.ok, val.ck))
                        val.ek, val.ok, val.ck = bef.ek, bef.ok, bef.ck
            else:
                if hx:
                    xb[n] = Xb
                if hy:
                    yb[n] = Yb

    def make(vals):
        x = _new(C, vals[0])
        if rhs == "same":
            y = _new(C, vals[1])
        elif rhs == "identical":
            y = x
        elif rhs == "sub":
            y = _new(D, vals[1])
        elif rhs == "super":
            y = _new(Base, vals[1])
        else:
            y = _new(F, vals[1]) if fk == "twin" else object() if fk == "object" else 5 if fk == "int" else None
        return x, y

    x, y = make((xb, yb))
    if hist:
        _warm_up(x, y)
        if hist["kind"] == "rekey":
            for val, ek, ok, ck in saved:
                val.ek, val.ok, val.ck = ek, ok, ck
        else:
            if hx:
                x = _transform(x, hist["kind"], xv)
                if rhs == "identical":
                    y = x
            if hy and rhs != "identical":
                y = _transform(y, hist["kind"], yv)
    obs = {"clsErr": "ok", "fieldErrs": [], "built": True,
           "status": {op: _status(C, Base, op) for op in OPS},
           "direct": {}, "trace": {}, "ops": {}, "rops": {}, "keys": {}}
    del META_LOG[:]
    for op in OPS:
        meth = getattr(C, DUNDER[op])
        del LOG[:]
        del KEYLOG[:]
        obs["direct"][op] = call(lambda: meth(x, y))
        obs["trace"][op] = list(LOG)
        obs["keys"][op] = list(KEYLOG)
        obs["ops"][op] = call(lambda: PYOP[op](x, y))
        obs["rops"][op] = call(lambda: PYOP[op](y, x))
    # ---- comparing leaves nothing behind on the instances
    residue = set(META_LOG)     # the classes are never asked whether they are "equal"
    del META_LOG[:]
    for inst in (x, y):
        names = _field_names(inst)
        if names is not None:
            residue.update(k for k in getattr(inst, "__dict__", {}) if k not in names)
    for K, before in b.get("dicts", []):
        # (`__slotnames__` is copyreg's own cache, written by copy.copy / attr.assoc in the histories)
        residue.update(K.__name__ + "." + k for k in K.__dict__ if k not in before and k != "__slotnames__")
    obs["residue"] = sorted(residue)
    return obs


# ------------------------------------------------------------------------------------------ evidence helpers

def _part(f):
    """documented participation (for distribution / non-triviality only)"""
    if f["order"] != "unset":
        return f["order"] != "f"
    if f["cmp"] != "unset":
        return f["cmp"] != "f"
    return f["eq"] != "f"


def nontrivial(case, model):
    if not model or not model.get("built"):
        return False
    if model["status"]["lt"] != "gen":
        return False
    if case["rhs"] not in ("same", "identical"):
        return True
    return len(model["trace"]["lt"]) > 0


def dist(case, obs):
    cfg = case.get("cfg", {})
    o = obs if isinstance(obs, dict) else {}
    return {
        "api": case["api"],
        "cls_args": f'{case["cmp"]}/{case["eq"]}/{case["order"]}',
        "auto_detect": case["autoDetect"],
        "own": len(case["own"]),
        "n_fields": len(case["fields"]),
        "n_part": sum(1 for f in case["fields"] if _part(f)),
        "n_keys": sum(1 for f in case["fields"] if "key" in (f["cmp"], f["eq"], f["order"])),
        "n_inherited": sum(1 for f in case["fields"] if f["inBase"]),
        "rhs": case["rhs"],
        "block": case.get("block"),
        "hist": (case.get("hist") or {}).get("kind"),
        "pre": "+".join(case.get("pre") or []) or "-",
        "falsy_keys": sum(1 for f in case["fields"] if f.get("truth") and any(
            v != "T" for side in f["truth"].values() for k, v in side.items() if k != "raw")),
        "redef": sum(1 for f in case["fields"] if f.get("redef")),
        "meta": cfg.get("meta"),
        "hashes": "/".join(sorted({str(v) for f in case["fields"] for v in (f.get("hashes") or {}).values()})) or "-",
        "key_calls_lt": len((o.get("keys") or {}).get("lt", [])),
        "opts": "+".join(sorted({k for f in case["fields"] for k, v in (f.get("opts") or {}).items()})) or "-",
        "hist_who": (case.get("hist") or {}).get("who"),
        "frozen": bool(cfg.get("frozen") or cfg.get("frozen_base")),
        "residue": len(o.get("residue", [])),
        "slots": cfg.get("slots"),
        "clsErr": o.get("clsErr"),
        "field_errs": len(o.get("fieldErrs", [])),
        "status_lt": (o.get("status") or {}).get("lt") if o.get("built") else "-",
        "direct_lt": (o.get("direct") or {}).get("lt"),
        "op_le": (o.get("ops") or {}).get("le"),
        "trace_len_lt": len((o.get("trace") or {}).get("lt", [])),
        "nat": sum(1 for f in case["fields"] if f.get("nat")),
        "value_kind": "+".join(sorted({f.get("vk") or "plain" for f in case["fields"]})),
    }


# ------------------------------------------------------------------------------------------ generators

def _script(eq, lt, le, gt, ge):
    return {"eq": eq, "lt": lt, "le": le, "gt": gt, "ge": ge}


EQ_ALL = _script("T", "F", "T", "F", "T")


def _rand_script(rng, eq_bias=0.5):
    r = rng.random()
    if r < eq_bias:
        eq = rng.choice(["T", "T", "truthy"])
    elif r < eq_bias + 0.04:
        eq = "raises"
    else:
        eq = rng.choice(["F", "F", "falsy"])
    w = ["T", "F", "T", "F", "truthy", "falsy", "raises"]
    return _script(eq, rng.choice(w), rng.choice(w), rng.choice(w), rng.choice(w))


def _rand_pair(rng, eq_bias=0.5, same_p=0.12):
    return {"same": rng.random() < same_p, "s": _rand_script(rng, eq_bias)}


def _cmp_script(a, b):
    def t(op):
        try:
            return "T" if op(a, b) else "F"
        except TypeError:      # e.g. a set against a float: the comparison itself raises
            return "raises"
    return _script(t(operator.eq), t(operator.lt), t(operator.le), t(operator.gt), t(operator.ge))


def _val_pair(a, b, same):
    assert _cmp_script(b, a) == _mirror(_cmp_script(a, b))
    return {"same": bool(same), "s": _cmp_script(a, b)}


KEYFNS = {"id": lambda v: v, "neg": lambda v: 2 - v, "mod2": lambda v: v % 2, "const": lambda v: 1}


def _nat_field(name, a, b, rng, ke="id", ko="neg", **args):
    """field whose scripts are those of the integers a (in x) and b (in y); small ints are cached by
    CPython, so equal values may be the very same object"""
    ea, eb, oa, ob = KEYFNS[ke](a), KEYFNS[ke](b), KEYFNS[ko](a), KEYFNS[ko](b)
    same = a == b and rng.random() < 0.5
    f = {"name": name, "cmp": "unset", "eq": "unset", "order": "unset", "inBase": False,
         "raw": _val_pair(a, b, same),
         "ek": _val_pair(ea, eb, ea == eb and rng.random() < 0.5),
         "ok": _val_pair(oa, ob, oa == ob and rng.random() < 0.5),
         "nat": {"rx": a, "ry": b, "ex": ea, "ey": eb, "ox": oa, "oy": ob}}
    f.update(args)
    return f


SUBSETS = [frozenset(), frozenset({0}), frozenset({1}), frozenset({0, 1})]
NAN = float("nan")


def _poset_field(name, a, b, rng, **args):
    """values from the subset partial order (incomparable pairs answer False to everything) or NaN"""
    def pair(u, v):
        same = (u is v) and rng.random() < 0.5
        assert _cmp_script(v, u) == _mirror(_cmp_script(u, v))
        return {"same": same, "s": _cmp_script(u, v)}
    comp = lambda s: (SUBSETS[3 - SUBSETS.index(s)] if isinstance(s, frozenset) else s)  # noqa: E731  (key: complement)
    f = {"name": name, "cmp": "unset", "eq": "unset", "order": "unset", "inBase": False,
         "raw": pair(a, b), "ek": pair(a, b), "ok": pair(comp(a), comp(b)), "nat": None}
    if f["raw"]["same"]:
        f["ek"]["same"] = f["ok"]["same"] = True
    f.update(args)
    return f


def _rand_field(rng, name, valid=True, eq_bias=0.5):
    while True:
        r = rng.random()
        if r < 0.35:
            cmp_, eq, order = "unset", "unset", "unset"
        elif r < 0.45:
            cmp_, eq, order = rng.choice(["t", "f", "key"]), "unset", "unset"
        else:
            cmp_, eq, order = "unset", rng.choice(FARGS), rng.choice(FARGS)
        if not valid:
            cmp_, eq, order = rng.choice(FARGS), rng.choice(FARGS), rng.choice(FARGS)
        bad = (cmp_ != "unset" and (eq != "unset" or order != "unset")) or (eq == "f" and order in ("t", "key"))
        if valid and bad:
            continue
        break
    return {"name": name, "cmp": cmp_, "eq": eq, "order": order, "inBase": rng.random() < 0.3,
            "raw": _rand_pair(rng, eq_bias), "ek": _rand_pair(rng, eq_bias), "ok": _rand_pair(rng, eq_bias), "nat": None}


def _plain_field(rng, name, eq_bias=0.5, **args):
    f = {"name": name, "cmp": "unset", "eq": "unset", "order": "unset", "inBase": False,
         "raw": _rand_pair(rng, eq_bias), "ek": _rand_pair(rng, eq_bias), "ok": _rand_pair(rng, eq_bias), "nat": None}
    f.update(args)
    return f


def _rand_cfg(rng):
    return {
        "slots": rng.choice([None, None, True, False]),
        "base_slots": rng.choice([None, True, False]),
        "frozen": rng.random() < 0.25,
        "base_api": rng.choice(["attr.s", "define"]),
        "sub_api": rng.choice(["attr.s", "define"]),
        "maker": rng.choice(["attrib", "field"]),
        "foreign_kind": rng.choice(["twin", "twin", "object", "int", "none"]),
        "nobase": rng.random() < 0.4,
        "meta": rng.choice([None, None, None, None, None, "T", "T", "raises"]),
        "alias": rng.choice([0, 0, 0, 1, 2, 3]),
        "annot": rng.random() < 0.2,
        "reuse": rng.random() < 0.2,
        "frozen_base": rng.random() < 0.1,
    }


DEFAULT_CFG = {"slots": None, "base_slots": None, "frozen": False, "base_api": "attr.s", "sub_api": "attr.s",
               "maker": "attrib", "foreign_kind": "twin", "nobase": False, "alias": 0, "annot": False, "reuse": False, "meta": None,
               "frozen_base": False}

# class-level argument sets under which ordering is generated, per api (used by the value-level blocks)
GEN_CLS = [
    ("attrS", "unset", "unset", "unset"), ("attrS", "t", "unset", "unset"), ("attrS", "unset", "t", "unset"),
    ("attrS", "unset", "unset", "t"), ("attrS", "non", "non", "non"), ("attrS", "unset", "t", "non"),
    ("define", "unset", "unset", "t"), ("define", "unset", "unset", "non"), ("define", "unset", "t", "t"),
    ("define", "unset", "t", "non"),
    ("makeClass", "unset", "unset", "unset"), ("makeClass", "t", "unset", "unset"), ("makeClass", "unset", "unset", "t"),
]


def _case(rng, fields, rhs="same", cls=None, block=None, **over):
    api, cmp_, eq, order = cls if cls is not None else rng.choice(GEN_CLS)
    c = {"api": api, "cmp": cmp_, "eq": eq, "order": order, "autoDetect": "unset", "own": [],
         "baseOrdered": False, "subOrdered": False, "fields": fields, "rhs": rhs, "cfg": _rand_cfg(rng),
         "block": block}
    c.update(over)
    c.setdefault("hist", None)
    _decorate(rng, c)
    if fields and rng.random() < 0.5:
        # field names in another order than the alphabet (the order tuple follows definition order, not names)
        perm = rng.sample(NAMES, len(fields))
        c["fields"] = [dict(f, name=perm[i]) for i, f in enumerate(c["fields"])]
    return c


HIST_KINDS = ["rekey", "rebind", "assoc", "evolve", "copy"]
PRES = [["base"], ["base"], ["sub", "base"], ["base", "sib"], ["sib"], ["sib", "base", "sub"], ["sub"], ["base", "sub"]]
TRUTHS = ["T", "T", "F", "F", "raises"]
REDEFS = [{"cmp": "unset", "eq": "unset", "order": "unset"}, {"cmp": "unset", "eq": "unset", "order": "key"},
          {"cmp": "unset", "eq": "unset", "order": "f"}, {"cmp": "unset", "eq": "key", "order": "unset"},
          {"cmp": "key", "eq": "unset", "order": "unset"}, {"cmp": "unset", "eq": "f", "order": "unset"}]


OPT_SINGLES = [{"kw_only": True}, {"init": False}, {"init": False, "default": "value"}, {"alias": True}, {"repr": False},
               {"hash": False}, {"hash": True}, {"metadata": True}, {"converter": True}, {"validator": True},
               {"default": "value"}, {"default": "factory"}, {"kw_only": True, "default": "factory", "alias": True}]


def _rand_opts(rng):
    """per-field options that must not influence which fields are compared, through which key, in which order"""
    o = dict(rng.choice(OPT_SINGLES))
    for k, v in (("kw_only", True), ("alias", True), ("repr", False), ("metadata", True), ("converter", True),
                 ("validator", True)):
        if rng.random() < 0.15:
            o[k] = v
    return o


HASH_MODES = [None, "id", "id", 1, 1, 2]


def _rand_hashes(rng):
    """how hash() behaves on each operand's value: unhashable, by identity, or a number shared with other values"""
    return {"x": rng.choice(HASH_MODES), "y": rng.choice(HASH_MODES)}


def _rand_truth(rng):
    """what bool() does on the raw value and on the key results of each operand's value"""
    return {side: {k: rng.choice(TRUTHS) for k in ("raw", "ek", "ok")} for side in ("x", "y")}


def _decorate(rng, c, p_truth=0.35, p_pre=0.3, p_redef=0.3, p_opts=0.3, p_hash=0.4, p_vk=0.3):
    """harness-only dimensions of a case: truthiness of values / key results, earlier comparisons in the class
    family, base-class definitions that C overrides"""
    fs = []
    for f in c["fields"]:
        f = dict(f)
        f["truth"] = _rand_truth(rng) if rng.random() < p_truth else None
        f["opts"] = _rand_opts(rng) if rng.random() < p_opts else None
        f["hashes"] = _rand_hashes(rng) if rng.random() < p_hash else None
        f["vk"] = rng.choice(VKIND_NAMES) if rng.random() < p_vk else None
        f["redef"] = None
        if not f["inBase"] and rng.random() < p_redef:
            r = rng.choice(REDEFS)
            if (r["cmp"], r["eq"], r["order"]) != (f["cmp"], f["eq"], f["order"]):
                f["redef"] = dict(r)
        fs.append(f)
    c["fields"] = fs
    c["pre"] = list(rng.choice(PRES)) if rng.random() < p_pre else []
    return c


def _rand_hist(rng, fields, kind=None, who=None, eq_bias=0.5):
    """an earlier life of the operands: other values (scripts) before, brought to the case's values by `kind`"""
    return {"kind": kind or rng.choice(HIST_KINDS), "who": who or rng.choice(["x", "y", "both"]),
            "before": [{"raw": _rand_pair(rng, eq_bias, same_p=0.05), "ek": _rand_pair(rng, eq_bias, same_p=0.05),
                        "ok": _rand_pair(rng, eq_bias, same_p=0.05)} for _ in fields]}


def _rand_rhs(rng):
    return rng.choice(["same", "same", "same", "same", "identical", "sub", "super", "foreign"])


def _gen_class_table(tier, rng):
    owns = OWN5 if tier == "quick" else OWN16
    for api in APIS:
        for cmp_, eq, order in itertools.product(ARG4, repeat=3):
            for ad in ARG3:
                for own in owns:
                    k = rng.choice([1, 1, 2])
                    fields = [_rand_field(rng, NAMES[i], eq_bias=0.4) for i in range(k)]
                    yield _case(rng, fields, rhs=_rand_rhs(rng), cls=(api, cmp_, eq, order), block="class-table",
                                autoDetect=ad, own=list(own), baseOrdered=rng.random() < 0.4,
                                subOrdered=rng.random() < 0.4)


def _gen_field_table(tier, rng):
    reps = 2 if tier == "quick" else 8
    for cmp_, eq, order in itertools.product(FARGS, repeat=3):
        for in_base in (False, True):
            for cls in (("attrS", "unset", "unset", "unset"), ("define", "unset", "unset", "t"),
                        ("makeClass", "unset", "unset", "unset")):
                for _ in range(reps):
                    f = _plain_field(rng, "a", eq_bias=0.25, cmp=cmp_, eq=eq, order=order, inBase=in_base)
                    g = _plain_field(rng, "b", eq_bias=0.3)
                    fields = [f, g] if rng.random() < 0.7 else [g, f]
                    yield _case(rng, fields, rhs=rng.choice(["same", "same", "same", "identical"]), cls=cls,
                                block="field-table")


POS = ["same", "eqT", "eqTruthy", "neF", "neFalsy", "raises"]


def _pos_pair(rng, pos, op_out):
    """a Pair realising one position status; op_out = the outcome of all four operators there"""
    eq = {"same": rng.choice(OUTS), "eqT": "T", "eqTruthy": "truthy", "neF": "F", "neFalsy": "falsy", "raises": "raises"}[pos]
    outs = list(OUTS)
    i = OUTS.index(op_out)
    fwd = _script(eq, outs[i], outs[(i + 1) % 5], outs[(i + 2) % 5], outs[(i + 3) % 5])
    return {"same": pos == "same", "s": fwd}


def _gen_positions(tier, rng):
    kmax = 2 if tier == "quick" else 3
    shapes = [
        lambda i: {},                                        # plain
        lambda i: {"order": "key"},                          # order key
        lambda i: {"eq": "key"},                             # mirrored eq key
        lambda i: {"cmp": "key"},
        lambda i: {"eq": "key", "order": "t"},               # eq key must not be used
        lambda i: {"eq": "key", "order": "key"},             # two different keys
        lambda i: {"inBase": i == 0},
    ]
    for k in range(0, kmax + 1):
        for poss in itertools.product(POS, repeat=k):
            for op_out in OUTS:
                for si, shape in enumerate(shapes):
                    if k == 0 and si > 0:
                        continue
                    if tier == "quick" and k == 2 and si not in (0, 1, 5) and rng.random() < 0.5:
                        continue
                    fields = []
                    for i, pos in enumerate(poss):
                        f = _plain_field(rng, NAMES[i], **shape(i))
                        view = "raw"
                        if f["order"] == "key" or f["cmp"] == "key":
                            view = "ok"
                        elif f["eq"] == "key" and f["order"] == "unset":
                            view = "ek"
                        f[view] = _pos_pair(rng, pos, op_out)
                        if view != "raw":
                            f["raw"]["same"] = False if pos != "same" else rng.random() < 0.5
                        fields.append(f)
                    yield _case(rng, fields, rhs="same", block="positions")


def _gen_concrete(tier, rng):
    kmax = 2 if tier == "quick" else 3
    patterns = [
        {},
        {"order": "key"},
        {"eq": "key"},
        {"order": "f"},
        {"eq": "f"},
        {"cmp": "key"},
        {"eq": "key", "order": "key"},
        {"inBase": True},
    ]
    keysets = [("id", "neg"), ("mod2", "id"), ("neg", "mod2"), ("const", "neg")]
    for k in range(1, kmax + 1):
        pats = list(itertools.product(range(len(patterns)), repeat=k))
        for xs in itertools.product(range(3), repeat=k):
            for ys in itertools.product(range(3), repeat=k):
                chosen = pats if (k == 1 or tier != "quick") and k < 3 else rng.sample(pats, 6 if k == 2 else 10)
                for pat in chosen:
                    ke, ko = rng.choice(keysets)
                    fields = [_nat_field(NAMES[i], xs[i], ys[i], rng, ke, ko, **patterns[p]) for i, p in enumerate(pat)]
                    rhs = "identical" if xs == ys and rng.random() < 0.15 else "same"
                    if rhs == "identical":
                        for f in fields:
                            f["raw"]["same"] = True
                    yield _case(rng, fields, rhs=rhs, block="nat")
    # subset partial order and NaN
    vals = SUBSETS + [NAN]
    for k in (1, 2):
        for xs in itertools.product(vals, repeat=k):
            for ys in itertools.product(vals, repeat=k):
                if k == 2 and tier == "quick" and rng.random() < 0.6:
                    continue
                pat = [rng.choice([{}, {}, {"order": "key"}, {"eq": "key"}, {"inBase": True}]) for _ in range(k)]
                fields = [_poset_field(NAMES[i], xs[i], ys[i], rng, **pat[i]) for i in range(k)]
                yield _case(rng, fields, rhs="same", block="poset")


def _gen_operands(tier, rng):
    reps = 1 if tier == "quick" else 6
    cls_sets = GEN_CLS + [("define", "unset", "unset", "unset"), ("attrS", "unset", "unset", "f"),
                          ("attrS", "unset", "f", "unset"), ("makeClass", "unset", "unset", "f")]
    for cls in cls_sets:
        for rhs in RHS:
            for base_ord in (False, True):
                for sub_ord in (False, True):
                    for own in ([], ["lt"], ["gt", "ge"]):
                        for ad in ("unset", "t"):
                            if tier == "quick" and rng.random() < 0.5:
                                continue
                            for _ in range(reps):
                                k = rng.choice([1, 2, 3])
                                fields = [_rand_field(rng, NAMES[i], eq_bias=0.45) for i in range(k)]
                                c = _case(rng, fields, rhs=rhs, cls=cls, block="operands", baseOrdered=base_ord,
                                          subOrdered=sub_ord, own=list(own), autoDetect=ad)
                                if rng.random() < 0.4:
                                    c["cfg"]["meta"] = rng.choice(["T", "T", "raises"])
                                    if rhs == "foreign":
                                        c["cfg"]["foreign_kind"] = "twin"
                                yield c


def _gen_random(tier, rng):
    n = 1000 if tier == "quick" else 600000
    for _ in range(n):
        malformed = rng.random() < 0.12
        k = rng.choice([1, 2, 3, 3, 4, 5])
        bias = rng.choice([0.3, 0.6, 0.8])
        fields = [_rand_field(rng, NAMES[i], valid=not (malformed and rng.random() < 0.5), eq_bias=bias) for i in range(k)]
        if rng.random() < 0.75:
            cls = rng.choice(GEN_CLS)
        else:
            cls = (rng.choice(APIS), rng.choice(ARG4), rng.choice(ARG4), rng.choice(ARG4))
            if not malformed and cls[0] == "define":
                cls = (cls[0], "unset", cls[2], cls[3])
        c = _case(rng, fields, rhs=_rand_rhs(rng), cls=cls, block="random",
                  autoDetect=rng.choice(["unset", "unset", "t", "f"]),
                  own=list(rng.choice(OWN16)) if rng.random() < 0.25 else [],
                  baseOrdered=rng.random() < 0.3, subOrdered=rng.random() < 0.4)
        if rng.random() < 0.3:
            c["hist"] = _rand_hist(rng, c["fields"], eq_bias=bias)
            if rng.random() < 0.5:
                c["cfg"].update(frozen=True, slots=False)
        yield c


def _gen_history(tier, rng):
    """histories: the instances have been compared/sorted before with other values; the frozen, dict-based,
    key-function corner (where a cache of the order tuple would be tempting) is visited systematically"""
    reps = 1 if tier == "quick" else 12
    shapes = [{}, {"order": "key"}, {"eq": "key"}, {"cmp": "key"}, {"eq": "key", "order": "key"}, {"inBase": True, "order": "key"}]
    frozen_modes = [{"frozen": True, "slots": False}, {"frozen": False, "frozen_base": True, "slots": False, "base_slots": False},
                    {"frozen": True, "slots": None}, {"frozen": True, "slots": True}, {"frozen": False, "slots": False}]
    for kind in HIST_KINDS:
        for who in ("x", "y", "both"):
            for si, shape in enumerate(shapes):
                for fm in frozen_modes:
                    for _ in range(reps):
                        k = rng.choice([1, 1, 2, 3])
                        bias = rng.choice([0.2, 0.5])
                        fields = [_plain_field(rng, NAMES[i], eq_bias=bias, **(shape if i == 0 or rng.random() < 0.5 else {}))
                                  for i in range(k)]
                        rhs = rng.choice(["same", "same", "same", "same", "identical", "sub", "super"])
                        c = _case(rng, fields, rhs=rhs, block="history", baseOrdered=rng.random() < 0.3,
                                  subOrdered=rng.random() < 0.4)
                        c["cfg"].update(fm)
                        if c["api"] == "define" and fm.get("frozen_base"):
                            c["cfg"]["base_api"] = rng.choice(["attr.s", "define"])
                        c["hist"] = _rand_hist(rng, c["fields"], kind, who, eq_bias=bias)
                        yield c


def _gen_family(tier, rng):
    """class families: the ancestor (with generated ordering of its own), a sibling or the subclass have been
    compared before C ever is; C adds order fields to the inherited ones and/or overrides the base's definition
    of a field (other key, order=False ...)"""
    reps = 1 if tier == "quick" else 10
    shapes = [{}, {"order": "key"}, {"eq": "key"}, {"order": "f"}]
    for cls in (("attrS", "unset", "unset", "t"), ("attrS", "unset", "unset", "unset"), ("define", "unset", "unset", "t"),
                ("makeClass", "unset", "unset", "t"), ("attrS", "t", "unset", "unset")):
        for pre in PRES:
            for base_ord in ((True, False) if tier == "quick" else (True, True, False)):
                for nb in ((0, 1) if tier == "quick" else (0, 1, 2)):
                    for sh in shapes:
                        for _ in range(reps):
                            bias = rng.choice([0.5, 0.8])
                            fields = [_plain_field(rng, NAMES[i], eq_bias=0.85, inBase=True, **(sh if rng.random() < 0.4 else {}))
                                      for i in range(nb)]
                            fields += [_plain_field(rng, NAMES[nb + i], eq_bias=bias, **(sh if i == 0 else {}))
                                       for i in range(rng.choice([1, 1, 2]))]
                            c = _case(rng, fields, rhs=rng.choice(["same", "same", "same", "identical", "sub", "super"]), cls=cls,
                                      block="family", baseOrdered=base_ord, subOrdered=rng.random() < 0.6)
                            _decorate(rng, c, p_truth=0.2, p_pre=0.0, p_redef=0.5)
                            c["pre"] = list(pre)
                            yield c


LESS = {"eq": "F", "lt": "T", "le": "T", "gt": "F", "ge": "F"}
MORE = {"eq": "F", "lt": "F", "le": "F", "gt": "T", "ge": "T"}


def _gen_opts(tier, rng):
    """field options that are none of ordering's business (kw_only, init, alias, repr, hash, metadata, converter,
    validator, default), one at a time and mixed, on the first / a later / an inherited field, with instances
    whose fields disagree in direction (one field says less, the next says greater)"""
    reps = 1 if tier == "quick" else 8
    shapes = [{}, {"order": "key"}, {"eq": "key"}]
    for opt in OPT_SINGLES + [None, None, None]:
        for place in ("first", "second", "inherited", "all"):
            for cls in (("attrS", "unset", "unset", "unset"), ("define", "unset", "unset", "t"), ("makeClass", "unset", "unset", "t")):
                for _ in range(reps):
                    k = rng.choice([2, 2, 3])
                    sh = rng.choice(shapes)
                    fields = [_plain_field(rng, NAMES[i], eq_bias=0.1, **(sh if rng.random() < 0.4 else {})) for i in range(k)]
                    up = rng.random() < 0.5
                    for i, f in enumerate(fields):
                        sc = LESS if (i % 2 == 0) == up else MORE
                        for view in ("raw", "ek", "ok"):
                            f[view] = {"same": False, "s": dict(sc)}
                    if place == "inherited":
                        fields[0]["inBase"] = True
                    c = _case(rng, fields, rhs=rng.choice(["same", "same", "same", "sub"]), cls=cls, block="opts",
                              baseOrdered=rng.random() < 0.3, subOrdered=rng.random() < 0.4)
                    _decorate(rng, c, p_truth=0.1, p_pre=0.15, p_redef=0.1, p_opts=0.0)
                    for i, f in enumerate(c["fields"]):
                        hit = place == "all" or (i == 1 if place == "second" else i == 0)
                        f["opts"] = (dict(opt) if opt is not None else _rand_opts(rng)) if hit else None
                    yield c


def _gen_memo(tier, rng):
    """hashable values and key functions: nothing may be remembered about a value between comparisons, nor shared
    between values that are equal or hash alike -- values hashable by identity whose key results change between
    comparisons, distinct values with one hash (as 1 / True / 1.0) whose keys differ, on one class, with and
    without an earlier life; the key of every keyed field is applied to both operands on every call"""
    reps = 1 if tier == "quick" else 8
    shapes = [{"order": "key"}, {"eq": "key"}, {"cmp": "key"}, {"eq": "key", "order": "key"}, {"inBase": True, "order": "key"}]
    hists = [None, ("rekey", "x"), ("rekey", "both"), ("rebind", "both"), ("rebind", "y"), ("evolve", "both"), ("copy", "x")]
    for sh in shapes:
        for hist in hists:
            for hx, hy in (("id", "id"), (1, 1), (1, 2), ("id", None), (1, "id")):
                for _ in range(reps):
                    k = rng.choice([1, 1, 2])
                    j = rng.randrange(k)
                    bias = rng.choice([0.3, 0.7])
                    fields = [_plain_field(rng, NAMES[i], eq_bias=bias, **(sh if i == j else {})) for i in range(k)]
                    c = _case(rng, fields, rhs=rng.choice(["same", "same", "same", "same", "identical"]), block="memo")
                    _decorate(rng, c, p_truth=0.1, p_pre=0.1, p_redef=0.1, p_opts=0.1, p_hash=0.0)
                    for f in c["fields"]:
                        f["hashes"] = {"x": hx, "y": hy}
                    if hist:
                        c["hist"] = _rand_hist(rng, c["fields"], hist[0], hist[1], eq_bias=bias)
                    yield c


def _gen_truth(tier, rng):
    """key functions whose RESULT is falsy (order=len on "", order=lambda v: v % 3 ...) or whose bool() raises,
    and falsy raw values: the keyed object is still the one compared"""
    reps = 1 if tier == "quick" else 8
    shapes = [{"order": "key"}, {"eq": "key"}, {"cmp": "key"}, {"eq": "key", "order": "key"}, {"eq": "key", "order": "t"},
              {"inBase": True, "order": "key"}, {}]
    for sh in shapes:
        for tx in itertools.product(["T", "F", "raises"], repeat=2):
            for ty in itertools.product(["T", "F", "raises"], repeat=2):
                for _ in range(reps):
                    if tier == "quick" and rng.random() < 0.4:
                        continue
                    k = rng.choice([1, 2, 2, 3])
                    j = rng.randrange(k)
                    fields = [_plain_field(rng, NAMES[i], eq_bias=0.5 if i == j else 0.8, **(sh if i == j else {})) for i in range(k)]
                    c = _case(rng, fields, rhs=rng.choice(["same", "same", "same", "identical"]), block="truth")
                    c["fields"][j]["truth"] = {"x": {"raw": rng.choice(TRUTHS), "ek": tx[0], "ok": tx[1]},
                                               "y": {"raw": rng.choice(TRUTHS), "ek": ty[0], "ok": ty[1]}}
                    yield c


def _gen_values(tier, rng):
    """what the field values ARE: instances of attrs classes (with comparison methods of their own, base/subclass
    mixed across the operands, slotted define classes), lists / tuples / dicts / sets (holding attrs instances) --
    they take part in the order tuple as the objects they are (never taken apart, copied or rebuilt)"""
    reps = 1 if tier == "quick" else 8
    shapes = [{}, {"order": "key"}, {"eq": "key"}, {"cmp": "key"}, {"inBase": True}, {"order": "f"}]
    for vk in VKIND_NAMES:
        for sh in shapes:
            for cls in (("attrS", "unset", "unset", "unset"), ("define", "unset", "unset", "t"), ("makeClass", "unset", "unset", "t")):
                for _ in range(reps):
                    k = rng.choice([1, 2, 2, 3])
                    j = rng.randrange(k)
                    fields = [_plain_field(rng, NAMES[i], eq_bias=0.3 if i == j else 0.8, **(sh if i == j else {})) for i in range(k)]
                    c = _case(rng, fields, rhs=rng.choice(["same", "same", "same", "identical", "sub"]), cls=cls, block="values")
                    _decorate(rng, c, p_truth=0.1, p_pre=0.1, p_redef=0.1, p_opts=0.1, p_hash=0.2, p_vk=0.3)
                    c["fields"][j]["vk"] = vk
                    if rng.random() < 0.25:
                        c["hist"] = _rand_hist(rng, c["fields"])
                    yield c


def gen_cases(tier, rng):
    yield from _gen_values(tier, rng)
    yield from _gen_class_table(tier, rng)
    yield from _gen_field_table(tier, rng)
    yield from _gen_positions(tier, rng)
    yield from _gen_opts(tier, rng)
    yield from _gen_memo(tier, rng)
    yield from _gen_operands(tier, rng)
    yield from _gen_history(tier, rng)
    yield from _gen_family(tier, rng)
    yield from _gen_truth(tier, rng)
    yield from _gen_concrete(tier, rng)
    yield from _gen_random(tier, rng)


# ------------------------------------------------------------------------------------------ shrinking / search

def _drop_field(case, i):
    fs = case["fields"]
    h = case.get("hist")
    if h:
        h = dict(h, before=h["before"][:i] + h["before"][i + 1:])
    return dict(case, fields=fs[:i] + fs[i + 1:], hist=h)


def shrink(case):
    fs = case["fields"]
    for i in range(len(fs)):
        yield _drop_field(case, i)
    if case.get("pre"):
        yield dict(case, pre=[])
        for i in range(len(case["pre"])):
            yield dict(case, pre=case["pre"][:i] + case["pre"][i + 1:])
    for i, f in enumerate(fs):
        for k in ("truth", "redef", "opts", "hashes", "vk"):
            if f.get(k):
                yield dict(case, fields=fs[:i] + [dict(f, **{k: None})] + fs[i + 1:])
    h = case.get("hist")
    if h:
        yield dict(case, hist=None)
        for who in ("x", "y"):
            if h["who"] != who:
                yield dict(case, hist=dict(h, who=who))
        if h["kind"] != "rebind":
            yield dict(case, hist=dict(h, kind="rebind"))
    for k, v in (("cmp", "unset"), ("eq", "unset"), ("order", "unset"), ("autoDetect", "unset"), ("own", []),
                 ("baseOrdered", False), ("subOrdered", False), ("rhs", "same"), ("api", "attrS")):
        if case[k] != v:
            yield dict(case, **{k: v})
    if len(case["own"]) > 1:
        for i in range(len(case["own"])):
            yield dict(case, own=case["own"][:i] + case["own"][i + 1:])
    cfg = case.get("cfg", {})
    for k, v in DEFAULT_CFG.items():
        if cfg.get(k) != v:
            yield dict(case, cfg=dict(cfg, **{k: v}))
    simple = {"same": False, "s": EQ_ALL}
    for i, f in enumerate(fs):
        for k, v in (("cmp", "unset"), ("eq", "unset"), ("order", "unset"), ("inBase", False), ("nat", None),
                     ("raw", simple), ("ek", simple), ("ok", simple)):
            if f[k] != v:
                g = dict(f, **{k: v})
                if k in ("raw", "ek", "ok"):
                    g["nat"] = None
                yield dict(case, fields=fs[:i] + [g] + fs[i + 1:])


def neighbours(case, rng):
    for rhs in RHS:
        yield dict(case, rhs=rhs, cfg=_rand_cfg(rng))
    for k, dom in (("cmp", ARG4), ("eq", ARG4), ("order", ARG4), ("autoDetect", ARG3), ("api", APIS)):
        for v in dom:
            if v != case[k]:
                yield dict(case, **{k: v})
    for own in OWN5:
        yield dict(case, own=list(own))
    for b in (False, True):
        yield dict(case, baseOrdered=b)
        yield dict(case, subOrdered=b)
    fs = case["fields"]
    for kind in HIST_KINDS:
        for who in ("x", "y", "both"):
            yield dict(case, hist=_rand_hist(rng, fs, kind, who), rhs="same")
    for pre in PRES:
        yield dict(case, pre=list(pre), rhs="same")
    for _ in range(6):
        yield dict(case, fields=[dict(f, truth=_rand_truth(rng)) for f in fs], rhs="same")
    for hx, hy in (("id", "id"), (1, 1), (1, 2)):
        for kind, who in (("rekey", "both"), ("rebind", "both"), (None, None)):
            yield dict(case, fields=[dict(f, hashes={"x": hx, "y": hy}) for f in fs], rhs="same",
                       hist=_rand_hist(rng, fs, kind, who) if kind else None)
    for opt in OPT_SINGLES:
        for i, f in enumerate(fs):
            yield dict(case, fields=fs[:i] + [dict(f, opts=dict(opt))] + fs[i + 1:], rhs="same")
    for vk in VKIND_NAMES:
        yield dict(case, fields=[dict(f, vk=vk) for f in fs], rhs="same")
    for i, f in enumerate(fs):
        for _ in range(4):
            g = dict(f, raw=_rand_pair(rng), ek=_rand_pair(rng), ok=_rand_pair(rng), nat=None)
            yield dict(case, fields=fs[:i] + [g] + fs[i + 1:], rhs="same")
        for k in ("cmp", "eq", "order"):
            for v in FARGS:
                if v != f[k]:
                    yield dict(case, fields=fs[:i] + [dict(f, **{k: v})] + fs[i + 1:])
    yield from shrink(case)


LEVEL_TEXT = (
    "Lean theorems about an executable model of _make_order / _determine_attrs_eq_order / _determine_attrib_eq_order / "
    "_determine_whether_to_implement and of the attr.s, define and make_class wiring (keyword defaults read from the source, T1): "
    "C09_is_tuple_compare (built class, ordering generated, same-class operand: each method and each operator in both directions "
    "returns the declarative tuple comparison -- operator applied at the first position neither identical nor ==, else equal "
    "lengths -- of the documented order tuple: participating fields, inherited first, each through its order key; arbitrary field "
    "lists, arbitrary scripted values incl. non-bool and raising comparisons; the comparisons performed are exactly those up to "
    "that position), C09_tuple_all_equal, C09_tuple_first_difference (for-all/exists characterisation), C09_nat_is_lex (over "
    "naturals it is Lean's own lexicographic order on List Nat), C09_flip (x<y = y>x, x<=y = y>=x ... for values whose reflected "
    "comparisons agree), C09_le_iff, C09_trichotomy (strict total orders), C09_consistent_any_total_order (any type with a strict "
    "total order compatible with ==, tuples of any length), C09_nonparticipating_irrelevant, C09_notimpl (sub-, superclass, foreign "
    "operand: NotImplemented, nothing compared, TypeError both ways), C09_resolution (+ _attrs_mirrors_eq, _define, _rejects, _field, "
    "_field_mirrors_eq, C09_defaults_documented: exhaustive tables, four-state flags), C09_model_meets_spec (every case). "
    "Observed, not proved: that /repo behaves like the model -- differential correspondence over class-level table (exhaustive), "
    "field-level table (exhaustive), tuple position statuses for <=2 (quick) / <=3 (thorough) fields (exhaustive), {0,1,2}^k all "
    "ordered pairs with key functions, subset partial order, NaN, operand kinds x method provenance, random fill with malformed "
    "stream, background variation (slots, frozen, aliases, annotated fields, decorator reuse), and histories (instances compared "
    "before with other values, then key results / fields changed behind them or via assoc/evolve/copy; nothing may be left on the "
    "instances or classes), class-family histories (ancestor/sibling/subclass compared first; overriding redefinitions), and "
    "falsy / bool()-raising key results, per-field options unrelated to ordering (kw_only, init, alias, repr, hash, metadata, "
    "converter, validator, default; own and inherited fields), values that are attrs instances / containers of attrs instances "
    "(taken as the objects they are, through their own comparison methods), scripted hashability of values (identity / colliding / none) "
    "and the key-function applications per call (C09_keys_every_comparison: every keyed order field's key, both operands, every "
    "call, no memory). CPython's tuple comparison and "
    "rich-comparison dispatch are modelled as small functions and observed, not proved; values' reflected comparisons are assumed "
    "to agree (y-side scripted values answer with the mirror script). Exception classes (auto_exc) and redefined fields are not varied.")
