"""C17 -- generated code is hermetic and its source is faithfully inspectable.

Three kinds of case (the Lean handler dispatches on `kind`):

* "herm": one class specification (Lean `Attrs.C17.Case`: class options, fields with name/alias and the
  options that decide which helper globals exist, poison mode) + harness-only `cfg` (api, ordering).  The class
  is built three times -- clean module, clean module with neutral field names, module that pre-binds the names
  the generated code objects mention to a poison object -- and the observation is the name-resolution table
  of the generated code objects in the poisoned build, the injected helper names, and whether the behaviour
  fingerprints coincide.
* "hist": N classes of colliding qualnames defined one after the other.
* "conc": N threads defining such classes through an instrumented `linecache.cache` that forces the
  interleaving of cache operations given by the schedule.
"""
from __future__ import annotations

import itertools
import keyword

import c17_build as B
import c17_cache as CC
import common

ID = "C17"
TABLES = ["c17FactoryAffix", "c17ValidatorAffix", "c17AttributeAffix", "c17ConverterAffix", "c17EqKeyAffix",
          "c17HashKeyAffix", "c17ReprAffix", "c17ReprCallAffix", "c17ReprFixed", "c17EqFixed", "c17HashFixed",
          "c17InitFixed", "c17EvalMergeOrder", "c17InitMergeOrder", "c17EvalExtraBindings", "c17GetattrFixed",
          "c17GetattrMergeOrder"]
PARALLEL = True
BUDGET_S = {"quick": 34, "thorough": 400}
EXHAUSTIVE = {"quick": False, "thorough": False}

RULE = (
    "herm: class specification (frozen -- by argument or by a frozen attrs base --/slots/cache_hash/exception class over the "
    "roots Exception, BaseException, KeyboardInterrupt, SystemExit, GeneratorExit, ValueError, directly or through a plain "
    "intermediate class (harness-only: the model only knows isExc)/pre-init with and without arguments/post-init/"
    "class on_setattr/which of repr, eq, hash, __init__ vs __attrs_init__ are generated) x 1-6 fields drawn from name sets "
    "built around the helper naming scheme (x with validator_x/factory_x/converter_x/attribute_x/key_x/repr_x/x_repr/_x_key, names equal "
    "to fixed helper names and to builtins, names that made the old _n_key / n_repr helpers coincide with an __attr_..._m name), each field "
    "with default/factory(takes_self)/converter(plain, takes_self, takes_field, both)/validator/eq key/hash/repr callable/"
    "kw_only/init=False/on_setattr/explicit alias x sharing of the user objects (harness-only: one Factory object / explicit "
    "Converter instance / validator / key / repr / hook callable per kind, signature and field-index residue mod 1-3, used "
    "by several differently named fields of the class and -- before the class is defined -- by 0-2 earlier classes under "
    "rotated, reversed or fresh field names, instantiated or not; the class is compared with a twin built from fresh "
    "objects) x the class's own name (harness-only: C, every fixed helper / builtin / internal name of the T1 tables, or one "
    "of the names this very class's generated code loads -- dict and slotted; the neutral twin is called C) x api (attr.s, "
    "define, make_class) x poison mode (none, every referenced "
    "name, every referenced name attrs injects itself); a catalogue first (every name set x every helper kind x poison "
    "mode, every class flag x api, the listed hazards), then seeded random fill (quick 1250, thorough 150000 cases, one in "
    "six of kind hist/conc). "
    "every herm class may carry a functools.cached_property and an own or inherited __getattr__ (slotted classes then get "
    "the generated __getattr__ script: its loads, source entry and missing-attribute lookups are observed like the other "
    "methods'). hist: 1-6 definitions -- a third of them twins (same qualname and body) of an earlier one, a quarter refused "
    "AFTER code generation by an inherited __attrs_init_subclass__, a base __init_subclass__ or a metaclass and 4 of the 15 bodies slotted with a cached property (second script: the nested __getattr__, with or without an own "
    "__getattr__, so twins' getattr scripts differ while their methods scripts coincide or not) -- over qualnames C, C-1, C-2, C-1-1, D x 11 bodies (two with identical source, one whose source "
    "embeds the qualname) x pre-seeded foreign entries on colliding filenames; conc: 2-4 threads x bodies x schedules "
    "(exhaustive over 2 threads x <=4 operations, random above). harness-only for hist/conc (the model is independent of both; "
    "the generated scripts are unchanged): a third of the non-refused definitions inherit from a field-less attrs class (dict "
    "or slotted), so the class being built already sees inherited __attrs_attrs__ etc.; in 30% of the cases the synthetic "
    "module is NOT registered in sys.modules while its classes are defined and inspected. non-trivial = herm: at least one field-derived helper name "
    "is loaded; hist/conc: at least two definitions contend for one filename. distinct = distinct JSON case"
)
ASSUMPTIONS = [
    "LOAD_GLOBAL/LOAD_NAME resolution (globals, then builtins) is CPython's; the model says 'not bound => builtin' and the harness observes it",
    "inspect.getsource, linecache.getlines/checkcache are CPython's consumers of the fake entries: observed, not proved",
    "dict.setdefault on linecache.cache is atomic in CPython (one C call under the GIL); the model's atomic step is that call",
    "a cache entry (len, None, lines, filename) is abstracted to its source text; linecache.clearcache() by the application is outside the model",
    "module-level dunder names that generated code only uses as attribute names (__dict__, __class__, ...) are not poisoned: "
    "CPython 3.12's specialised module attribute load returns a module global __dict__ for `module.__dict__`, which breaks "
    "class creation itself before any generated code runs",
    "callbacks of different fields are distinct objects that tag their results, so a misdirected call changes the fingerprint",
    "sharing of user objects between fields and with earlier classes is harness-only variation: a Lean Case has no object "
    "identities and no history, the model says sharedOk = true; pooled objects tag results with (kind, signature, group), so "
    "a call that reaches an object of another group -- or a helper name that is not bound -- differs from the fresh twin",
    "hist/conc: a definition's base (object / field-less attrs class, dict or slotted) and whether the synthetic module is "
    "registered in sys.modules are harness-only variation: a Lean Def has neither, the linecache loop of the model (and of "
    "_linecache_and_compile) does not look at the class; the observation must still equal the model's files/entries/sourceOk",
]
LEVEL_TEXT = (
    "Lean theorems about an executable model of the globals assembly, helper naming scheme and linecache loop of "
    "src/attr/_make.py. Part A: C17_helpers_win / C17_helpers_module_independent (any class, ANY module dict: a name attrs "
    "injects resolves to attrs's object; C17_pinned_merge_order_loses is the decided counterexample for the old merge order), "
    "C17_names_disjoint (for ALL strings: every naming function injective; the six schemes factory/validator/attribute/"
    "converter/key/repr pairwise disjoint; no scheme yields a fixed helper name; eq/hash and repr agree on their names), "
    "C17_no_helper_clash, C17_no_extra_bindings (no computed-name binding in _eval_snippets, so the class's own name is no "
    "input), C17_getattr_script_hermetic (the cached-property __getattr__ script of slotted classes never sees "
    "the module namespace; C17_getattr_module_first_loses is the decided counterexample), C17_table_is_intended (for every class, field naming and module namespace every global load of "
    "every generated method finds the object its own script bound -- unconditional), C17_module_irrelevant, "
    "C17_model_meets_spec (hypothesis: not K17c), witness C17_K17c_witness. Part B: C17_unique_entry_concurrent (invariant "
    "over ALL interleavings of atomic setdefault steps, any number of threads, any pre-existing cache), C17_source_is_code, "
    "C17_later_definitions_keep_entries (further definitions, refused ones included, never disturb an existing class's "
    "entry), C17_loop_terminates (candidate filenames are pairwise different, pigeonhole), C17_unique_entry (sequential histories "
    "of any length: every definition gets a code object whose filename maps to its own script), "
    "C17_nonatomic_counterexample (decided schedule for look-then-store), C17_cache_model_meets_spec (both scripts of a "
    "definition: the methods script and the cached-property __getattr__ script are histories over the same transition "
    "system; the getattr filenames are predicted for sequential histories, only judged by the spec in concurrent runs; for "
    "every generated function reachable from a class, nested code objects and closures included, co_filename must be an "
    "entry holding the text it was compiled from -- observed). Naming affixes, "
    "fixed helper names and merge orders are read from the current source (T1), so these theorems are re-checked against "
    "what the code says now; decided counterexamples for the repaired old scheme (K17a, K17b) are in Proofs/C17OldScheme. "
    "The model is tied to /repo by a differential correspondence: name-resolution table of the real "
    "code objects (dis: LOAD_GLOBAL/LOAD_NAME, resolved by identity) in synthetic modules that pre-bind the referenced names "
    "to a poison object, injected-name sets, behaviour fingerprints (construction in four call shapes, repr, eq/ne, hash "
    "pattern, ordering, setattr, copy, pickle) clean vs poisoned vs neutral field names, inspect.getsource/linecache "
    "recompiled against the running code objects (line tables included), classes built from user objects shared between "
    "fields and with earlier classes vs twins built from fresh objects, sequential histories and forced thread "
    "interleavings through an instrumented linecache.cache. LOAD_GLOBAL's builtins fallback, inspect.getsource and the "
    "linecache consumers are CPython's: observed, not proved. Known finding: K17c (an __init__ parameter named "
    "like a global or local helper the body uses)."
)

# ------------------------------------------------------------------------------------------ part A cases
CLS0 = {"frozen": False, "slots": False, "cacheHash": False, "isExc": False, "preInit": False, "preInitArgs": False,
        "postInit": False, "clsOnSetattr": "none", "genRepr": True, "genEq": True, "genHash": False, "genInit": True}
FIELD0 = {"init": True, "kwOnly": False, "dflt": "none", "conv": "none", "validator": False, "eq": True,
          "eqKey": False, "hash": "unset", "repr": "std", "onSetattr": "unset"}

# name sets: every set is used with callbacks on its members so that the helper globals actually exist
NAME_SETS = [
    ["x", "y", "z"],
    ["x", "validator_x", "factory_x", "converter_x", "attribute_x"],
    ["x", "x_repr", "_x_key", "x_key", "_x"],
    ["x", "key_x", "repr_x", "_attr_key_x", "_attr_repr_x"],
    ["x", "_x", "x_", "x_x"],
    ["attr_dict", "NOTHING", "_config", "_compat", "x"],
    ["_cached_setattr_get", "_setattr", "_inst_dict", "_obj_setattr", "y"],
    ["hash", "id", "object", "getattr", "type"],
    ["repr", "NotImplemented", "AttributeError", "BaseException", "x"],
    ["_attr_factory_x", "_attr_validator_x", "_attr_converter_x", "_attr_attribute_x", "x"],
    ["attr_factory_x", "x_key", "x_repr", "key", "repr_"],
    ["_key", "_repr", "a_b", "_p", "x"],
    ["other", "result", "value", "item", "cls"],
]
# pairs whose key / repr helper name coincided with an __attr_ helper name under the old `_n_key` / `n_repr` scheme
# (K17b, repaired): regular cases now
COLLIDE_KEY = [("_attr_factory_foo", "foo_key", "factory"), ("_attr_validator_foo", "foo_key", "validator"),
               ("_attr_converter_foo", "foo_key", "converter"), ("_attr_attribute_foo", "foo_key", "validator")]
COLLIDE_REPR = [("__attr_factory_foo", "foo_repr", "factory"), ("__attr_validator_foo", "foo_repr", "validator"),
                ("__attr_converter_foo", "foo_repr", "converter")]
ALIAS_POOL = ["_setattr", "_inst_dict", "_config", "NOTHING", "attr_dict", "_cached_setattr_get", "BaseException",
              "p", "q_", "_r", "hash", "validator_x", "x_repr", "_x_key", "other", "__attr_factory_x", "id", "object", "result"]
APIS = ["attr.s", "attr.s", "define", "make_class"]
# harness-only class shapes that decide WHICH helper names the scripts load / which injection guards run
EXC_ROOTS = ["Exception", "BaseException", "KeyboardInterrupt", "SystemExit", "GeneratorExit", "ValueError",
             "mid:KeyboardInterrupt", "mid:Exception", "mid:BaseException"]


def derived_alias(name):
    return name.lstrip("_")


def mk_field(name, **kw):
    f = dict(FIELD0, name=name, alias=derived_alias(name))
    f.update(kw)
    return f


def _valid_name(n):
    return n.isidentifier() and not keyword.iskeyword(n) and derived_alias(n) != "" and n != "self"


def fix_order(fields):
    """attrs rejects a mandatory positional field after a defaulted one: move defaulted positionals back"""
    pos_mand = [f for f in fields if f["init"] and not f["kwOnly"] and f["dflt"] == "none"]
    rest = [f for f in fields if not (f["init"] and not f["kwOnly"] and f["dflt"] == "none")]
    return pos_mand + rest


def normalise(case):
    """make a randomly drawn case one that Python and attrs accept (mirrors Spec.wf)"""
    c = case["cls"]
    cfg = case["cfg"]
    fs = case["fields"]
    if c["isExc"]:
        c["cacheHash"] = False
        c["slots"] = False if cfg["api"] == "make_class" else c["slots"]
        cfg.setdefault("excRoot", "Exception")
    else:
        cfg.pop("excRoot", None)
    if not c["frozen"]:
        cfg.pop("frozenVia", None)
    # a generated __getattr__ exists only on SLOTTED classes whose body has a cached_property; make_class has no body
    if cfg["api"] == "make_class":
        case["cachedProp"] = False
    if cfg["api"] == "make_class":
        case["ownGetattr"] = False
    if not (c["genHash"] and c["genInit"]):
        c["cacheHash"] = False
    if not c["preInit"]:
        c["preInitArgs"] = False
    if cfg["api"] == "define":
        c["clsOnSetattr"] = {"none": "dflt", "dflt": "dflt", "hook": "hook", "noop": "noop"}[c["clsOnSetattr"]]
        if c["frozen"]:
            c["clsOnSetattr"] = "none" if c["clsOnSetattr"] in ("dflt", "hook") else c["clsOnSetattr"]
    elif c["clsOnSetattr"] == "dflt":
        c["clsOnSetattr"] = "hook"      # only define() passes the very _DEFAULT_ON_SETATTR object on
    if c["frozen"]:
        if c["clsOnSetattr"] in ("hook", "dflt"):
            c["clsOnSetattr"] = "none"
        for f in fs:
            f["onSetattr"] = "unset"
    if not c["genEq"]:
        cfg["order"] = False
    seen, out = set(), []
    for f in fs:
        if not f["eq"]:
            f["eqKey"] = False
        if f["name"] in seen or not _valid_name(f["name"]):
            continue
        if f["name"].startswith("__") and (cfg["api"] != "make_class" or c["slots"]):
            continue
        seen.add(f["name"])
        out.append(f)
    aliases, out2 = {"self"}, []
    for f in out:
        if f["init"]:
            if f["alias"] in aliases or not _valid_name(f["alias"]):
                if f.get("explicitAlias"):
                    f["alias"], f["explicitAlias"] = derived_alias(f["name"]), False
                if f["alias"] in aliases:
                    continue
            aliases.add(f["alias"])
        out2.append(f)
    case["fields"] = fix_order(out2)
    return case


def rand_field(rng, name, rich=True):
    f = mk_field(name)
    f["dflt"] = rng.choice(["none", "none", "value", "factory", "factorySelf"])
    f["conv"] = rng.choice(["none", "none", "plain", "self", "field", "both"])
    f["validator"] = rng.random() < 0.45
    f["init"] = rng.random() < 0.85
    f["kwOnly"] = rng.random() < 0.2
    f["eq"] = rng.random() < 0.85
    f["eqKey"] = f["eq"] and rng.random() < 0.4
    f["hash"] = rng.choice(["unset", "unset", "t", "f"])
    f["repr"] = rng.choice(["std", "std", "custom", "custom", "off"])
    f["onSetattr"] = rng.choice(["unset", "unset", "unset", "hook", "noop"])
    if rich and rng.random() < 0.06:
        f["alias"], f["explicitAlias"] = rng.choice(ALIAS_POOL), True
    return f


def rand_cls(rng):
    c = dict(CLS0)
    c["frozen"] = rng.random() < 0.3
    c["slots"] = rng.random() < 0.35
    c["genHash"] = rng.random() < 0.55
    c["cacheHash"] = c["genHash"] and rng.random() < 0.4
    c["isExc"] = rng.random() < 0.22
    c["preInit"] = rng.random() < 0.25
    c["preInitArgs"] = c["preInit"] and rng.random() < 0.5
    c["postInit"] = rng.random() < 0.25
    c["clsOnSetattr"] = rng.choice(["none", "none", "hook", "noop", "dflt"])
    c["genRepr"] = rng.random() < 0.85
    c["genEq"] = rng.random() < 0.85
    c["genInit"] = rng.random() < 0.88
    return c


def rand_poison(rng):
    return rng.choice(["all"] * 6 + ["helpersOnly"] * 3 + ["none"] * 2)


def rand_share(rng, p=0.4):
    """harness-only: are the user objects of the class shared between its fields (one object per kind, signature
    and field-index residue) and were they used before by earlier classes under other field names?"""
    if rng.random() >= p:
        return None
    prior = rng.choice([["rot"], ["fresh"], ["rev"], ["rot", "fresh"], ["fresh", "rot"], ["rev", "rot"], []])
    return {"groups": rng.choice([1, 2, 2, 3]), "prior": prior, "use_prior": rng.random() < 0.7}


def rand_clsname(rng):
    """harness-only: what the class is called -- like a fixed helper / builtin / internal name of the generated
    scripts (T1 tables), like one of the names its own generated code loads, or plainly"""
    r = rng.random()
    if r < 0.45:
        return "C"
    if r < 0.75:
        return rng.choice(CLASS_NAMES)
    return "@load:%d" % rng.randrange(40)


def herm_case(rng, names, cls=None, poison=None, api=None, fields=None, share="rand", cfg_extra=None):
    case = {"kind": "herm", "cachedProp": rng.random() < 0.55, "ownGetattr": rng.random() < 0.25,
            "cls": cls or rand_cls(rng),
            "fields": fields if fields is not None else [rand_field(rng, n) for n in names],
            "poison": poison or rand_poison(rng),
            "cfg": {"api": api or rng.choice(APIS), "order": rng.random() < 0.4,
                    "share": rand_share(rng) if share == "rand" else share,
                    "excRoot": rng.choice(EXC_ROOTS), "frozenVia": rng.choice(["arg", "arg", "base"]),
                    "baseGetattr": rng.random() < 0.3, "clsName": rand_clsname(rng)}}
    if cfg_extra:
        for k in ("cachedProp", "ownGetattr"):
            if k in cfg_extra:
                case[k] = cfg_extra.pop(k)
        case["cfg"].update(cfg_extra)
    return normalise(case)


def catalogue(rng):
    """every name set with every helper kind on its members, every class shape once, the listed hazards"""
    for names in NAME_SETS:
        for variant in range(3):
            fs = []
            for i, n in enumerate(names):
                f = mk_field(n)
                k = (i + variant) % 5
                f["validator"] = k in (0, 3) or variant == 2
                f["dflt"] = ["none", "factory", "value", "factorySelf", "none"][k]
                f["conv"] = ["plain", "none", "field", "both", "self"][k] if variant != 1 else "none"
                f["eqKey"] = k in (1, 4) or variant == 1
                f["repr"] = "custom" if k in (2, 4) or variant == 1 else "std"
                if k == 2 and variant == 0:
                    f["init"] = False
                fs.append(f)
            for poison in ("helpersOnly", "all"):
                cls = dict(CLS0, genHash=True, frozen=variant == 1, cacheHash=variant == 1, slots=variant == 2)
                yield herm_case(rng, names, cls=cls, poison=poison, api="attr.s", fields=[dict(f) for f in fs],
                                share={"groups": 1 + (variant + (poison == "all")) % 3,
                                       "prior": [["rot"], ["fresh", "rot"], ["rev"]][variant], "use_prior": poison == "all"})
    for key in ("frozen", "slots", "cacheHash", "isExc", "preInit", "postInit"):
        cls = dict(CLS0, genHash=True)
        cls[key] = True
        if key == "preInit":
            cls["preInitArgs"] = True
        fs = [mk_field("x", validator=True, conv="both", eqKey=True, repr="custom"),
              mk_field("y", dflt="factorySelf", conv="plain"), mk_field("z", dflt="value", init=False, repr="custom")]
        for api in ("attr.s", "define", "make_class"):
            yield herm_case(rng, None, cls=dict(cls), poison="helpersOnly", api=api, fields=[dict(f) for f in fs],
                            share={"groups": 2, "prior": ["rot"], "use_prior": True})
    for root in EXC_ROOTS:
        for api in ("attr.s", "define", "make_class"):
            for frozen in (False, True):
                fs = [mk_field("x", validator=True), mk_field("y", dflt="value", conv="plain"),
                      mk_field("z", dflt="factorySelf", kwOnly=True)]
                yield herm_case(rng, None, cls=dict(CLS0, isExc=True, frozen=frozen, slots=api == "define",
                                                    genInit=not (frozen and api == "attr.s")),
                                poison="all", api=api, fields=fs, share=None,
                                cfg_extra={"excRoot": root, "frozenVia": "base" if frozen and api != "make_class" else "arg"})
    # the class named like every name the scripts load or bind, dict and slotted, on a class that uses every helper
    for cn in CLASS_NAMES + ["@load:%d" % k for k in range(0, 24)]:
        for slots in (False, True):
            for shape in ({"frozen": True, "genHash": True, "cacheHash": True}, {"isExc": True, "genHash": True}):
                if shape.get("isExc") and not (cn in ("BaseException", "_config", "NOTHING") or cn.startswith("@")):
                    continue
                fs = [mk_field("x", validator=True, conv="both", eqKey=True, repr="custom"),
                      mk_field("y", dflt="factorySelf", hash="f"), mk_field("z", dflt="value", init=False, eq=False)]
                yield herm_case(rng, None, cls=dict(CLS0, slots=slots, **shape), poison="all",
                                api=("attr.s", "define", "make_class")[(len(cn) + slots) % 3], fields=fs, share=None,
                                cfg_extra={"clsName": cn, "cachedProp": slots, "excRoot": "BaseException", "frozenVia": "arg"})
    for api in ("attr.s", "define"):
        for own in (False, True):
            for basega in (False, True):
                for shape in ({}, {"frozen": True, "genHash": True, "cacheHash": True}, {"isExc": True}):
                    for poison in ("all", "helpersOnly"):
                        fs = [mk_field("x", validator=True), mk_field("y", dflt="factory", repr="custom")]
                        yield herm_case(rng, None, cls=dict(CLS0, slots=True, **shape), poison=poison, api=api, fields=fs,
                                        share=None, cfg_extra={"cachedProp": True, "ownGetattr": own, "baseGetattr": basega,
                                                               "excRoot": "Exception", "frozenVia": "arg"})
    for via in ("arg", "base"):
        for api in ("attr.s", "define", "make_class"):
            for slots in (False, True):
                fs = [mk_field("x", conv="both", eqKey=True), mk_field("y", dflt="factory", repr="custom"),
                      mk_field("z", dflt="value", init=False, validator=True)]
                yield herm_case(rng, None, cls=dict(CLS0, frozen=True, slots=slots, genHash=True, cacheHash=True),
                                poison="all", api=api, fields=fs, share=None, cfg_extra={"frozenVia": via})
    for osa, api in (("hook", "attr.s"), ("noop", "attr.s"), ("dflt", "define"), ("noop", "define"), ("hook", "make_class")):
        fs = [mk_field("x", validator=True, onSetattr="hook"), mk_field("y", conv="plain"), mk_field("z", onSetattr="noop")]
        yield herm_case(rng, None, cls=dict(CLS0, clsOnSetattr=osa), poison="helpersOnly", api=api, fields=fs)
        yield herm_case(rng, None, cls=dict(CLS0, clsOnSetattr=osa), poison="helpersOnly", api=api,
                        fields=[mk_field("x"), mk_field("y", dflt="value")])
    for a, b, what in COLLIDE_KEY:
        fb = mk_field(b, validator=what == "validator", conv="plain" if what == "converter" else "none",
                      dflt="factory" if what == "factory" else "none")
        yield herm_case(rng, None, cls=dict(CLS0, genHash=True), poison="helpersOnly", api="attr.s",
                        fields=[mk_field(a, eqKey=True), fb])
    for a, b, what in COLLIDE_REPR:
        fb = mk_field(b, validator=what == "validator", conv="plain" if what == "converter" else "none",
                      dflt="factory" if what == "factory" else "none")
        yield herm_case(rng, None, cls=dict(CLS0), poison="helpersOnly", api="make_class",
                        fields=[mk_field(a, repr="custom"), fb])
    yield herm_case(rng, None, cls=dict(CLS0), poison="helpersOnly", api="attr.s",
                    fields=[mk_field("NOTHING"), mk_field("y", dflt="factory")])
    yield herm_case(rng, None, cls=dict(CLS0), poison="helpersOnly", api="attr.s",
                    fields=[mk_field("attr_dict"), mk_field("y", dflt="value", init=False)])
    yield herm_case(rng, None, cls=dict(CLS0, isExc=True), poison="helpersOnly", api="attr.s",
                    fields=[mk_field("BaseException"), mk_field("y")])
    yield herm_case(rng, None, cls=dict(CLS0, frozen=True), poison="helpersOnly", api="attr.s",
                    fields=[mk_field("x", alias="_setattr", explicitAlias=True), mk_field("y")])


def gen_herm_random(rng):
    names_pool = sorted({n for s in NAME_SETS for n in s})
    while True:
        r = rng.random()
        if r < 0.6:
            base = rng.choice(NAME_SETS)
            names = rng.sample(base, rng.randint(1, len(base)))
            if rng.random() < 0.3:
                names.append(rng.choice(names_pool))
        elif r < 0.94:
            names = rng.sample(names_pool, rng.randint(1, 6))
        elif r < 0.975:
            a, b, what = rng.choice(COLLIDE_KEY)
            fa = rand_field(rng, a, rich=False)
            fb = rand_field(rng, b, rich=False)
            if rng.random() < 0.7:
                fa["eq"], fa["eqKey"] = True, True
                fb.update(validator=what == "validator" or fb["validator"],
                          conv="plain" if what == "converter" else fb["conv"],
                          dflt="factory" if what == "factory" else fb["dflt"])
            yield herm_case(rng, None, fields=[fa, fb] + [rand_field(rng, "x")])
            continue
        else:
            a, b, what = rng.choice(COLLIDE_REPR)
            fa = rand_field(rng, a, rich=False)
            fb = rand_field(rng, b, rich=False)
            cls = rand_cls(rng)
            cls["slots"] = False
            yield herm_case(rng, None, cls=cls, api="make_class", fields=[fa, fb])
            continue
        yield herm_case(rng, names)


# ------------------------------------------------------------------------------------------ part B cases
_MOD = itertools.count()


def cache_case(kind, defs, pre, sched, cfg):
    def full(d):
        d = dict(d, script=CC.script_id(d["body"], d["qual"]))
        if CC.gscript_id(d["body"]) is not None:
            d["gscript"] = CC.gscript_id(d["body"])
        return d

    return {"kind": kind, "modul": "c17h", "defs": [full(d) for d in defs],
            "pre": pre, "sched": sched, "cfg": cfg}


FAIL_HOW = ["subclass_hook", "init_subclass", "meta"]


def rand_defs(rng, n, contend=True):
    """definitions contending for few filenames; a good part are twins (same qualname AND body) of an earlier
    definition, and some are refused after their methods were generated"""
    quals = ["C"] * 4 + ["C-1", "C-1", "C-2", "C-1-1", "D"] if contend else CC.QUALS
    out = []
    for _ in range(n):
        if out and rng.random() < 0.35:
            d = dict(rng.choice(out))
            d.pop("fails", None)
            d.pop("failHow", None)
        else:
            d = {"qual": rng.choice(quals), "body": rng.randrange(len(CC.BODIES))}
        if rng.random() < 0.25:
            d["fails"], d["failHow"] = True, rng.choice(FAIL_HOW)
        # harness-only: the class's (non-refusing) base is object or a field-less attrs class (dict or slotted) -- same
        # scripts, but the class being built already inherits __attrs_attrs__ and the other attrs markers
        d.pop("base", None)
        if not d.get("fails") and rng.random() < 0.35:
            d["base"] = rng.choice(["attrs", "attrs", "attrsSlots"])
        out.append(d)
    return out


def rand_pre(rng):
    pre = []
    for _ in range(rng.choice([0, 0, 1, 2])):
        p = [rng.choice(["C", "C", "C-1"]), [rng.choice([0, 1, 2]), 900 + len(pre)]]
        if all(CC.candidate(CC.unique_filename("m", q[0]), q[1][0]) != CC.candidate(CC.unique_filename("m", p[0]), p[1][0]) for q in pre):
            pre.append(p)
    return pre


def gen_cache_fixed():
    cfgs = [{"api": "class", "slots": False}, {"api": "make_class", "slots": True}]
    # histories: every body twice under one name; identical-source bodies; the C / C-1 filename clash
    for cfg in cfgs:
        yield cache_case("hist", [{"qual": "C", "body": b} for b in range(len(CC.BODIES))], [], [], cfg)
        yield cache_case("hist", [{"qual": "C", "body": 0}, {"qual": "C", "body": 1}, {"qual": "C", "body": 0},
                                  {"qual": "C", "body": 2}, {"qual": "C", "body": 3}], [], [], cfg)
        yield cache_case("hist", [{"qual": "C", "body": 0}, {"qual": "C", "body": 1}, {"qual": "C-1", "body": 1},
                                  {"qual": "C-1", "body": 4}, {"qual": "C", "body": 5}, {"qual": "C-1-1", "body": 6}], [], [], cfg)
        yield cache_case("hist", [{"qual": "C", "body": 8}, {"qual": "C", "body": 8}, {"qual": "C-1", "body": 8},
                                  {"qual": "C", "body": 0}], [["C", [0, 900]], ["C", [2, 901]]], [], cfg)
    # same-qualname twins of slotted classes with cached properties whose __getattr__ scripts differ (own __getattr__ or
    # not), same or different methods script, refused twins in between: every class's nested __getattr__ must point
    # at its own entry
    for cfg in cfgs:
        yield cache_case("hist", [{"qual": "C", "body": 11}, {"qual": "C", "body": 12}, {"qual": "C", "body": 13},
                                  {"qual": "C", "body": 14}, {"qual": "C", "body": 11}], [], [], cfg)
        yield cache_case("hist", [{"qual": "C", "body": 12}, {"qual": "C", "body": 0}, {"qual": "C", "body": 11},
                                  {"qual": "C", "body": 12, "fails": True, "failHow": "init_subclass"},
                                  {"qual": "C-1", "body": 14}, {"qual": "C-1", "body": 13}], [], [], cfg)
        yield cache_case("hist", [{"qual": "C-1", "body": 11}, {"qual": "C-1", "body": 12},
                                  {"qual": "C", "body": 14}, {"qual": "C", "body": 13}], [["C", [0, 900]]], [], cfg)
        yield cache_case("conc", [{"qual": "C", "body": 11}, {"qual": "C", "body": 12}, {"qual": "C", "body": 13}], [],
                         [2, 1, 0, 0, 1], cfg)
    # refused twins: a same-qualname, same-body definition is refused after code generation (each mechanism), before,
    # between and after successful definitions; every earlier class must keep its entries
    for cfg in cfgs + [{"api": "class", "slots": True}]:
        for how in FAIL_HOW:
            R = {"fails": True, "failHow": how}
            yield cache_case("hist", [{"qual": "C", "body": 0}, dict(R, qual="C", body=0), {"qual": "C", "body": 1},
                                      dict(R, qual="C", body=1), dict(R, qual="C", body=0), {"qual": "C", "body": 0}], [], [], cfg)
            yield cache_case("hist", [dict(R, qual="C", body=2), {"qual": "C", "body": 3}, dict(R, qual="C", body=8),
                                      {"qual": "C-1", "body": 8}, dict(R, qual="C-1", body=8)], [["C", [1, 900]]], [], cfg)
            yield cache_case("conc", [{"qual": "C", "body": 0}, dict(R, qual="C", body=0), dict(R, qual="C", body=1)], [],
                             [1, 0, 2, 1, 0], cfg)
    # same-qualname histories in which some definitions inherit from a (field-less) attrs class, and histories in a
    # module that is not registered in sys.modules: every class still claims and keeps its own entry
    A = {"base": "attrs"}
    for cfg in cfgs + [{"api": "class", "slots": True}]:
        for reg in (True, False):
            cfg2 = dict(cfg, registered=reg)
            yield cache_case("hist", [{"qual": "C", "body": 0}, dict(A, qual="C", body=1), {"qual": "C", "body": 2},
                                      dict(A, qual="C", body=0), dict(A, qual="C", body=3, base="attrsSlots"),
                                      {"qual": "C", "body": 1}], [], [], cfg2)
            yield cache_case("hist", [dict(A, qual="C", body=8), {"qual": "C-1", "body": 4}, dict(A, qual="C", body=5),
                                      dict(A, qual="C-1", body=12), {"qual": "C", "body": 11}, dict(A, qual="C", body=14)],
                             [["C", [1, 900]]], [], cfg2)
            yield cache_case("conc", [{"qual": "C", "body": 0}, dict(A, qual="C", body=1), dict(A, qual="C", body=2)], [],
                             [1, 0, 2, 1, 0], cfg2)
    # two threads, every pair of bodies from a small set, every schedule of up to 4 operations
    for b0, b1 in itertools.product([0, 1, 2, 3], repeat=2):
        for k in range(0, 5):
            for sched in itertools.product([0, 1], repeat=k):
                yield cache_case("conc", [{"qual": "C", "body": b0}, {"qual": "C", "body": b1}], [], list(sched),
                                 {"api": "class", "slots": False})


def gen_cache_random(rng):
    while True:
        cfg = {"api": rng.choice(["class", "make_class"]), "slots": rng.random() < 0.3,
               "registered": rng.random() < 0.7}
        if rng.random() < 0.5:
            yield cache_case("hist", rand_defs(rng, rng.randint(1, 6)), rand_pre(rng), [], cfg)
        else:
            n = rng.randint(2, 4)
            sched = [rng.randrange(n) for _ in range(rng.randint(0, 8))]
            yield cache_case("conc", rand_defs(rng, n), rand_pre(rng), sched, cfg)


def gen_cases(tier, rng):
    yield from catalogue(rng)
    fixed = list(gen_cache_fixed())
    if tier == "quick":
        special = lambda c: (any(d.get("fails") or d.get("gscript") is not None or d.get("base") for d in c["defs"])  # noqa: E731
                             or not c["cfg"].get("registered", True))
        keep = [c for c in fixed if special(c)]
        rest = [c for c in fixed if not special(c)]
        rng.shuffle(rest)
        fixed = keep + rest[:100]
    yield from fixed
    a, b = gen_herm_random(rng), gen_cache_random(rng)
    # the runner looks at the clock only between batches of 4000 cases: the streams are bounded by count
    for n in range(1250 if tier == "quick" else 150000):
        yield next(b) if n % 6 == 5 else next(a)


# ------------------------------------------------------------------------------------------ observation
def _poisonable(name, load_names):
    if name.startswith("__") and name.endswith("__") and name not in load_names:
        return False
    return name not in B.KEEP and name != "C"


def t1_names():
    """every fixed helper / builtin / internal name the generated scripts load or bind, from the T1 tables of the
    current source (plus the conditional ones the model spells out)"""
    import re
    import tables_from_source
    vals, _ = tables_from_source.extract()
    names = []
    for k in ("c17ReprFixed", "c17EqFixed", "c17HashFixed", "c17InitFixed", "c17GetattrFixed"):
        names += re.findall(r'"([^"]+)"', vals.get(k, ""))
    names += ["_config", "BaseException", "_cached_setattr_get", "super", "hasattr", "NotImplemented", "AttributeError",
              "_setattr", "_inst_dict", "_cls", "wrapper"]
    return sorted({n for n in names if n.isidentifier() and not keyword.iskeyword(n)})


try:
    CLASS_NAMES = t1_names()
except Exception:  # noqa: BLE001  -- the T1 failure is reported by the runner; keep a static list for the generator
    CLASS_NAMES = ["NOTHING", "attr_dict", "_config", "_compat", "hash", "object", "id", "getattr", "NotImplemented",
                   "AttributeError", "BaseException", "__import__", "_cached_setattr_get", "super", "hasattr"]


def resolve_clsname(case):
    """the class's name: literal, or "@load:k" = the k-th (mod n) global name the generated code of this very
    specification loads (field-derived helper names included), found by building it once under the name C"""
    cn = case.get("cfg", {}).get("clsName") or "C"
    if not cn.startswith("@load:"):
        return cn
    probe = B.Build(case, clsname="C")
    try:
        names = sorted({n for _, n in probe.loads()}) if probe.error is None else []
    finally:
        probe.close()
    names = [n for n in names if n.isidentifier() and not keyword.iskeyword(n) and n != "__h__"]
    return names[int(cn[6:]) % len(names)] if names else "C"


def observe_herm(case):
    fields = case["fields"]
    builds = []
    try:
        clsname = resolve_clsname(case)
        case = dict(case, cfg=dict(case.get("cfg", {}), clsName=clsname))
        clean = B.Build(case)
        builds.append(clean)
        if clean.error:
            return {"defErr": clean.error, "table": [], "injected": [], "poisonOk": False, "neutralOk": False,
                    "sourceOk": False, "sharedOk": False}
        actual = [(a.name, a.alias) for a in clean.afields]
        if actual != [(f["name"], f["alias"]) for f in fields]:
            raise AssertionError(f"generator and attrs disagree about names/aliases: {actual}")
        loads = clean.loads()
        load_names = {n for _, n in loads}
        g = set(clean.globals_for("init")) | set(clean.globals_for("getattr"))
        mode = case["poison"]
        if mode == "none":
            poison = []
        else:
            poison = [n for n in clean.referenced_names() if _poisonable(n, load_names)]
            if mode == "helpersOnly":
                poison = [n for n in poison if not (n in load_names and n not in g)]
        fp_clean = clean.fingerprint()
        injected = clean.injected()
        source_ok = CC.source_ok(clean.cls)
        # neutral naming: fields f0, f1, ... and the class called C
        neutral = B.Build(case, names=["f%d" % i for i in range(len(fields))], aliases=[None] * len(fields), clsname="C")
        builds.append(neutral)
        neutral_ok = neutral.error is None and neutral.fingerprint() == fp_clean
        if poison:
            p = B.Build(case, poison=poison)
            builds.append(p)
            if p.error:
                return {"defErr": "poisoned:" + p.error, "table": [], "injected": injected, "poisonOk": False,
                        "neutralOk": neutral_ok, "sourceOk": source_ok, "sharedOk": False}
            table = p.table()
            poison_ok = p.fingerprint() == fp_clean
        else:
            table = clean.table()
            poison_ok = True
        return {"defErr": "", "table": table, "injected": injected, "poisonOk": poison_ok, "neutralOk": neutral_ok,
                "sourceOk": source_ok, "sharedOk": shared_ok(case)}
    finally:
        for b in builds:
            b.close()


def prior_names(fields, how):
    """field names under which the shared objects were used in an earlier class"""
    names = [f["name"] for f in fields]
    n = len(names)
    if how == "rot" and n > 1:
        return names[1:] + names[:1]
    if how == "rev" and n > 1 and names[::-1] != names:
        return names[::-1]
    return ["q%d_" % i for i in range(n)]


def shared_ok(case):
    """the class built from user objects that are shared between its fields and were used before, under other
    field names, by an earlier class behaves (fingerprint, helper resolution by object group) exactly like its
    twin built from fresh objects"""
    share = case.get("cfg", {}).get("share")
    if not share:
        return True
    fields = case["fields"]
    builds = []
    try:
        pool = B.Pool(True, share["groups"])
        for how in share["prior"]:
            prior = B.Build(case, names=prior_names(fields, how), aliases=[None] * len(fields), pool=pool)
            builds.append(prior)
            if prior.error is None and share.get("use_prior", True):
                try:
                    prior.fingerprint()
                except Exception:  # noqa: BLE001
                    pass
        shared = B.Build(case, pool=pool)
        builds.append(shared)
        twin = B.Build(case, pool=B.Pool(False, share["groups"]))
        builds.append(twin)
        if shared.error or twin.error:
            return shared.error == twin.error
        return shared.group_table() == twin.group_table() and shared.fingerprint() == twin.fingerprint()
    finally:
        for b in builds:
            b.close()


_SEQ = itertools.count()


def observe(case):
    kind = case["kind"]
    if kind == "herm":
        return observe_herm(case)
    import os
    real = dict(case, modul="%s_%d_%d" % (case["modul"], os.getpid(), next(_SEQ)))
    obs = CC.observe_hist(real) if kind == "hist" else CC.observe_conc(real)
    # the module name is part of every filename: report them under the case's own module name
    ren = lambda s: s.replace(real["modul"], case["modul"]) if isinstance(s, str) else s  # noqa: E731
    obs["files"] = [ren(f) for f in obs["files"]]
    obs["entries"] = [[ren(k), v] for k, v in obs["entries"]]
    obs["gfiles"] = [ren(f) for f in obs["gfiles"]]
    obs["gentries"] = [[ren(k), v] for k, v in obs["gentries"]]
    return obs


# ------------------------------------------------------------------------------------------ bookkeeping
def nontrivial(case, model):
    if case["kind"] == "herm":
        return any(e["obj"]["kind"] in ("factory", "validator", "attribute", "converter", "key", "reprFn")
                   for e in (model or {}).get("table", []))
    files = (model or {}).get("files", [])
    return len(files) >= 2 and len({f.split("-")[0].rstrip(">") for f in files}) < len(files)


def dist(case, obs):
    if case["kind"] == "herm":
        c = case["cls"]
        fs = case["fields"]
        return {
            "kind": "herm", "api": case["cfg"]["api"], "poison": case["poison"], "n_fields": len(fs),
            "cls_flags": "+".join(k for k in ("frozen", "slots", "cacheHash", "isExc", "preInit", "postInit") if c[k]) or "-",
            "generated": "".join(ch for ch, k in (("r", "genRepr"), ("e", "genEq"), ("h", "genHash"), ("i", "genInit")) if c[k]),
            "helpers": "+".join(sorted({k for f in fs for k, on in (
                ("fac", f["dflt"] in ("factory", "factorySelf")), ("conv", f["conv"] != "none"), ("val", f["validator"]),
                ("key", f["eqKey"]), ("repr", f["repr"] == "custom")) if on})) or "-",
            "explicit_alias": any(f.get("explicitAlias") for f in fs),
            "getattr_script": ("cp" + ("+own" if case.get("ownGetattr") else "") + ("+base" if case["cfg"].get("baseGetattr") else ""))
                              if case.get("cachedProp") else "-",
            "cls_name": (lambda n: "C" if n == "C" else "@load" if n.startswith("@") else "special")(case["cfg"].get("clsName") or "C"),
            "exc_root": case["cfg"].get("excRoot", "-"), "frozen_via": case["cfg"].get("frozenVia", "-"),
            "share": ("g%d:%s" % (case["cfg"]["share"]["groups"], "+".join(case["cfg"]["share"]["prior"]) or "within")
                      if case["cfg"].get("share") else "-"),
            "sharedOk": obs.get("sharedOk") if isinstance(obs, dict) else "?",
            "poisonOk": obs.get("poisonOk") if isinstance(obs, dict) else "?",
            "neutralOk": obs.get("neutralOk") if isinstance(obs, dict) else "?",
            "table_size": min(len(obs.get("table", [])), 30) // 5 * 5 if isinstance(obs, dict) else "?",
        }
    return {"kind": case["kind"], "n_defs": len(case["defs"]), "n_pre": len(case["pre"]),
            "refused": sum(1 for d in case["defs"] if d.get("fails")),
            "attrs_base": sum(1 for d in case["defs"] if d.get("base")),
            "module_registered": case["cfg"].get("registered", True),
            "getattr_scripts": sum(1 for d in case["defs"] if d.get("gscript") is not None),
            "distinct_gfiles": len(set(obs.get("gfiles", []))) if isinstance(obs, dict) else "?",
            "refused_twin": sum(1 for i, d in enumerate(case["defs"]) if d.get("fails") and any(
                e["qual"] == d["qual"] and e["script"] == d["script"] and not e.get("fails") for e in case["defs"][:i])),
            "sched_len": len(case["sched"]), "realised": obs.get("realised") if isinstance(obs, dict) else "?",
            "distinct_files": len(set(obs.get("files", []))) if isinstance(obs, dict) else "?"}


def shrink(case):
    if case["kind"] == "herm":
        fs = case["fields"]
        for i in range(len(fs)):
            yield normalise(_copy(dict(case, fields=fs[:i] + fs[i + 1:])))
        for k, v in CLS0.items():
            if case["cls"][k] != v:
                yield normalise(_copy(dict(case, cls=dict(case["cls"], **{k: v}))))
        if case["cfg"]["api"] != "attr.s":
            yield normalise(_copy(dict(case, cfg=dict(case["cfg"], api="attr.s"))))
        if case["cfg"].get("excRoot", "Exception") != "Exception":
            yield _copy(dict(case, cfg=dict(case["cfg"], excRoot=case["cfg"]["excRoot"].split(":")[-1]
                                            if ":" in case["cfg"]["excRoot"] else "Exception")))
        if case["cfg"].get("frozenVia") == "base":
            yield _copy(dict(case, cfg=dict(case["cfg"], frozenVia="arg")))
        for k in ("cachedProp", "ownGetattr"):
            if case.get(k):
                yield _copy(dict(case, **{k: False}))
        if (case["cfg"].get("clsName") or "C").startswith("@"):
            yield _copy(dict(case, cfg=dict(case["cfg"], clsName=resolve_clsname(case))))
        if case["cfg"].get("baseGetattr"):
            yield _copy(dict(case, cfg=dict(case["cfg"], baseGetattr=False)))
        for i, f in enumerate(fs):
            for k, v in FIELD0.items():
                if f[k] != v:
                    yield normalise(_copy(dict(case, fields=fs[:i] + [dict(f, **{k: v})] + fs[i + 1:])))
        if case["poison"] == "all":
            yield _copy(dict(case, poison="helpersOnly"))
        sh = case["cfg"].get("share")
        if sh:
            if len(sh["prior"]) > 1:
                for how in sh["prior"]:
                    yield _copy(dict(case, cfg=dict(case["cfg"], share=dict(sh, prior=[how]))))
            if sh["groups"] > 1:
                yield _copy(dict(case, cfg=dict(case["cfg"], share=dict(sh, groups=sh["groups"] - 1))))
            if sh.get("use_prior"):
                yield _copy(dict(case, cfg=dict(case["cfg"], share=dict(sh, use_prior=False))))
    else:
        ds = case["defs"]
        for i in range(len(ds)):
            sched = [t - (t > i) for t in case["sched"] if t != i]
            if len(ds) > 1:
                yield dict(case, defs=ds[:i] + ds[i + 1:], sched=sched)
        for i in range(len(case["sched"])):
            yield dict(case, sched=case["sched"][:i] + case["sched"][i + 1:])
        for i in range(len(case["pre"])):
            yield dict(case, pre=case["pre"][:i] + case["pre"][i + 1:])
        for i, d in enumerate(ds):
            if d.get("base"):
                yield dict(case, defs=ds[:i] + [{k: v for k, v in d.items() if k != "base"}] + ds[i + 1:])
        if not case["cfg"].get("registered", True):
            yield dict(case, cfg=dict(case["cfg"], registered=True))


def _copy(case):
    import json
    return json.loads(json.dumps(case))


def neighbours(case, rng):
    if case["kind"] == "herm":
        for poison in ("all", "helpersOnly", "none"):
            if poison != case["poison"]:
                yield _copy(dict(case, poison=poison))
        for api in ("attr.s", "define", "make_class"):
            if api != case["cfg"]["api"]:
                yield normalise(_copy(dict(case, cfg=dict(case["cfg"], api=api))))
        for k in ("frozen", "slots", "genHash", "genEq", "genRepr", "isExc"):
            yield normalise(_copy(dict(case, cls=dict(case["cls"], **{k: not case["cls"][k]}))))
        for prior in (["rot"], ["fresh"], ["rev"]):
            yield _copy(dict(case, cfg=dict(case["cfg"], share={"groups": 2, "prior": prior, "use_prior": True})))
        if case["cls"]["isExc"]:
            for root in EXC_ROOTS:
                yield _copy(dict(case, cfg=dict(case["cfg"], excRoot=root)))
        yield from shrink(case)
    else:
        n = len(case["defs"])
        for _ in range(20):
            yield dict(case, kind="conc" if n > 1 else case["kind"],
                       sched=[rng.randrange(n) for _ in range(rng.randint(1, 8))] if n > 1 else [])
        yield from shrink(case)
