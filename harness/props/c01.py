"""C01 -- generated __init__ stores converter(argument | default | fresh factory value)."""
from __future__ import annotations

import copy

import attr

import initbuild as ib
import ir_from_source

ID = "C01"
RULE = ("random single-inheritance chains (depth<=3, attrs classes via attr.s/define/frozen/these/make_class and plain "
        "classes in between, exception bases) over the per-field space {default kind x init x kw_only x converter kind x "
        "validators x alias/private name x on_setattr} x class space {slots x frozen x cache_hash x kw_only x class "
        "on_setattr x pre/post}; per class several call shapes (positional prefix x keyword subset x malformed). "
        "Every call is observed with the identities of the converter/factory invocations it made (in order, arguments blanked); "
        "a call that stored a callback-produced value is made twice and those values must be distinct objects. "
        "Harness-only variation the model is independent of (initbuild): the exception root of exception chains (Exception, "
        "BaseException, KeyboardInterrupt, SystemExit, GeneratorExit, ValueError); a DEFINITION HISTORY per chain -- a decoy "
        "chain of the same layout first, 0-2 other subclasses ('siblings') of each class of the chain created before the chain "
        "continues (twins of the next class with class-level kw_only / slots / collection mode toggled, or fresh classes of "
        "another front-end, with identity/copying field_transformers, some re-using the chain's attr.ib() objects and "
        "decorating them further), decorator OBJECTS (attr.s(..)/define(..)/frozen(..)) that were first applied to 0-2 "
        "throw-away classes of other declaration styles and are shared by all classes of a build with the same options; "
        "validators written as callable / list / and_() object / one and_() object shared by several fields and classes / "
        "`@x.validator`, takes-self factories also as `@x.default`; argument VALUES that are mostly opaque tokens, None, '' "
        "and, for 12% of the values, objects with unusual special methods (equal to everything, equal to nothing, raising "
        "comparison, element-wise comparison with ambiguous truth value, falsy, unhashable). "
        "Also harness-only: a second direct base (field-less plain mixin, dict or __slots__=(), before or after the chain "
        "parent) on ~15% of the attrs classes; for ~20% of the chains the chain defined first is not a decoy but an EQUAL "
        "TWIN (same module, qualnames, layout; defaults of a str subclass and callback objects that compare equal to the "
        "real chain's but print a TWIN tag). MODELLED: 20% of the converters are chains (`converter=[..]` / converters.pipe) "
        "of 2-3 members mixing plain callables and Converter(takes_self, takes_field) instances, every member its own "
        "traced callback (Attr.pipe). "
        "Declared defaults are plain strings or instances of user subclasses of str / int / bytes (they canonicalise to the "
        "default token only while of that exact type), and a field showing its default must hold the DECLARED object (identity; "
        "a breach is the pseudo-event `default-not-identical`); non-self factories are written `factory=f` or `default=Factory(f)`; "
        "15% of the fields use hostile-but-valid callable OBJECTS (falsy, __len__ 0, raising __bool__, raising __eq__, equal to "
        "everything) as factory / converter / validator where the unchanged attrs accepts them; half of the converting fields "
        "write their traced converter callables (chain members too) the `lambda v, n=n: ...` way (conv_bind: no closure, ONE code "
        "object shared by every such converter of the process, differing only in keyword defaults / __annotations__), 40% of "
        "the per-field hook callables are falsy / empty-container callable objects (hook_odd) -- both harness-only variation "
        "the model is independent of; post-init hooks may re-store "
        "fields / call BaseException.__init__; the hooked-base <- plain <- SLOTTED-subclass shape is generated whenever the "
        "subclass's own class-level hook is alive (only the genuinely 'slotted confused' shape, K6 of C06, stays out -- also "
        "out of the shrinker). "
        "Non-trivial = the class has >=1 field that is not (mandatory, positional, no converter); distinct = distinct (class spec, call). "
        "Thorough tier only (T3): additionally one `script` case per generated class -- the real source text of its "
        "__init__/__attrs_init__ parsed into the IR of Model/InitIR.lean and compared syntactically with the model generator's script")
ASSUMPTIONS = [
    "CPython argument binding is modelled by `Init.bind` and diff-tested here",
    "expected field order for a chain is computed by the harness from the specification (nearest definition wins); C07 checks collection itself",
    "which names are slot-backed along the MRO is read from the real class layout (C08 checks slot creation)",
    "the definition history (decoy / sibling / warm-up classes, shared decorator and validator objects), the exception root and "
    "the special methods of argument objects are variation the specification does not mention: the expected observation is "
    "computed from the chain under test alone, so any influence of the history on it is reported; sibling / warm-up classes "
    "whose own definition attrs rejects are skipped (they only serve as history)",
    "T3: harness/ir_from_source.py (ast -> IR) is trusted to translate faithfully; it checks that the text it reads compiles "
    "to the code object that runs, and turns anything it does not recognise into an `unknown` statement (a visible disagreement)",
]
EXHAUSTIVE = {"quick": False, "thorough": False}
BUDGET_S = {"quick": 45, "thorough": 480}
LEVEL_TEXT = ("[converter chains: `pipe()` is modelled as the left-to-right run of its members (`runConvs`, `pipeVal`, `pipeEvents`; "
              "`C01_pipe_member_once`, `C02_pipe_left_to_right`, `C02_pipe_events`), the one call the generated script makes is "
              "checked by T3] "
              "Lean theorems about the executable model of _make_init_script/_attrs_to_init_script/_determine_setters/"
              "_is_slot_attr and CPython argument binding (see Properties/C01.lean); tied to /repo by differential "
              "correspondence over random class chains x call shapes comparing signature, annotations, every field's "
              "symbolic value, the exception kind and -- per call -- WHICH converter / factory callbacks ran, in order (event "
              "identities; `C01_calls`, `C01_converter_once`: each converter exactly once, each factory exactly once iff "
              "no value was supplied), plus object identity: every case with a callback-produced value is constructed "
              "twice and such values must be distinct objects on the two instances (observed only, not modelled: a "
              "breach shows up as a pseudo-event in the trace which no model output contains). Argument binding and attribute lookup are modelled, not proved. "
              "T3 (thorough tier): for every sampled class the parsed source of the generated initializer is checked to be "
              "exactly `genInit` of the class, and `C01_script_correct` proves that executing `genInit r` is `body r` for "
              "every class and environment -- so on those classes the theorems hold for all call shapes of the text that runs, "
              "not only the sampled ones. The observed script is also executed in Lean on every subset of its optional "
              "parameters (<=64 calls, each callback failing in turn) against C01.spec/C02.spec.")


POST_MODES = 0.5  # share of post-init hooks that re-store fields / call BaseException.__init__ themselves
PIPES = 0.2      # share of fields whose converter is a chain (list / pipe) of 2-3 members
ODD = 0.12       # share of argument values that are objects with unusual __eq__/__ne__/__bool__/__hash__


def make_case(hspec, call):
    run, is_define, cls_on = ib.run_in(hspec)
    return {"run": run, "call": call, "isDefine": is_define, "clsOnSet": cls_on, "hspec": hspec}


def make_script_case(hspec):
    """T3: the class alone; the observation is the parsed source of its generated initializer"""
    run, is_define, cls_on = ib.run_in(hspec)
    return {"kind": "script", "run": run, "isDefine": is_define, "clsOnSet": cls_on, "hspec": hspec}


def is_script(case):
    return case.get("kind") == "script"


def gen_cases(tier, rng):
    n_classes = 5000 if tier == "quick" else 80000
    for _ in range(n_classes):
        h = ib.gen_hspec(rng, pipes=PIPES, post_modes=POST_MODES, dflt_objs=True)
        try:
            ib.build(h)
        except Exception as e:  # noqa: BLE001 -- the generator only emits valid definitions; count and skip
            yield {"__gen_error__": f"{type(e).__name__}: {e}", "hspec": h}
            continue
        for _ in range(4):
            yield make_case(h, ib.gen_call(rng, h, odd=ODD))
        if tier == "thorough":
            yield make_script_case(h)


def observe_script(case):
    h = case["hspec"]
    C = ib.build(h)[-1]
    init_name = "__attrs_init__" if h["classes"][-1].get("init") is False else "__init__"
    return {"script": ir_from_source.parse_init(C, init_name)}


def defines(case):
    """re-try the class definitions of a case the generator could not build; error text or None"""
    ib._CACHE.clear()
    try:
        ib.build(case["hspec"])
        return None
    except Exception as e:  # noqa: BLE001
        return f"{type(e).__name__}: {e}"


def observe(case):
    if "__gen_error__" in case:
        raise RuntimeError("class spec did not define: " + case["__gen_error__"])
    if is_script(case):
        return observe_script(case)
    h, call = case["hspec"], case["call"]
    bad = definition_failure(h)
    if bad is not None:
        return bad
    inst, obs = ib.construct(h, call, None, True)
    calls = calls_of(obs["trace"])
    # once through the converter IN THIS CALL, a FRESH factory result: construct a second instance the same way;
    # a stored value that is the product of a callback (ib.Fresh) must be a different object on the two instances,
    # and the second call must invoke the same callbacks.  A breach is recorded as a pseudo-event no model emits.
    names = [n for n, _ in obs["values"]]
    first = _raw_values(inst, names)
    # "else its declared default": a field that shows its default must hold the DECLARED object itself (identity, hence
    # exact type), not an equal value rebuilt from it
    if obs["exc"] is None:
        try:
            decl = {a.name: a for a in attr.fields(type(inst))}
        except Exception:  # noqa: BLE001
            decl = {}
        for n, v in zip(names, first):
            a = decl.get(n)
            if (a is not None and a.converter is None and a.default is not attr.NOTHING
                    and not isinstance(a.default, attr.Factory) and v is not None and v is not a.default
                    and ib._canon(v) == ib._canon(a.default)):
                calls.append({"id": {"kind": "default-not-identical", "field": n, "idx": 0}, "args": []})
    if obs["exc"] is None and any(isinstance(v, ib.Fresh) for v in first):
        inst2, obs2 = ib.construct(h, call, None, True)
        second = _raw_values(inst2, names)
        for n, v1, v2 in zip(names, first, second):
            if isinstance(v1, ib.Fresh) and v1 is v2:
                calls.append({"id": {"kind": "shared-between-instances", "field": n, "idx": 0}, "args": []})
        if calls_of(obs2["trace"]) != calls_of(obs["trace"]) or obs2["values"] != obs["values"]:
            calls.append({"id": {"kind": "second-call-differs", "field": "", "idx": 0}, "args": []})
    obs["trace"], obs["excArgs"], obs["cache"] = calls, None, None      # C02 / C04 observe the rest
    return obs


def definition_failure(h):
    """a stored (corpus / replay) specification that defined when it was recorded must still define: if its classes
    cannot be built the observation is the failure itself (never a model output, so the case is a violation)"""
    try:
        ib.build(h)
        return None
    except Exception as e:  # noqa: BLE001
        return {"sig": [], "annotations": [], "exc": "other", "values": [], "excArgs": None, "cache": None,
                "trace": [{"id": {"kind": "definition-error:" + type(e).__name__, "field": "", "idx": 0}, "args": []}]}


def calls_of(trace):
    """`C01.callsOf`: the converter / factory invocations of a trace (also a decoy class's, tagged), arguments blanked"""
    return [{"id": dict(e["id"]), "args": []} for e in trace if e["id"]["kind"].rsplit(".", 1)[-1] in ("conv", "factory")]


def _raw_values(inst, names):
    out = []
    for n in names:
        try:
            out.append(getattr(inst, n))
        except BaseException:  # noqa: BLE001
            out.append(None)
    return out


def nontrivial(case, model):
    return any(not (a["dflt"] == "none" and a["init"] and not a["kwOnly"] and a["conv"] is None) for a in case["run"]["attrs"])


def _stmt_kind(st):
    return st if isinstance(st, str) else next(iter(st), "?")


def dist(case, obs):
    leaf = case["hspec"]["classes"][-1]
    r = case["run"]
    if is_script(case):
        body = obs.get("script", {}).get("body", []) if isinstance(obs, dict) else []
        n_opt = sum(1 for p in obs.get("script", {}).get("params", []) if p.get("dflt") != "required") if isinstance(obs, dict) else -1
        return {"kind": "script", "n_stmts": len(body), "unknown": sum(1 for st in body if _stmt_kind(st) == "unknown"),
                "n_optional_params": n_opt, "script_api": leaf.get("api"), "script_n_fields": len(r["attrs"])}
    return {
        "kind": "call",
        "depth": len(case["hspec"]["classes"]),
        "api": leaf.get("api"),
        "n_fields": len(r["attrs"]),
        "frozen": r["cfg"]["frozen"], "slots": r["cfg"]["slots"], "cache_hash": r["cfg"]["cacheHash"],
        "is_exc": r["cfg"]["isExc"], "pre": r["cfg"]["pre"],
        "exc": obs.get("exc") if isinstance(obs, dict) else "?",
        "n_kw": len(case["call"]["kw"]), "n_pos": len(case["call"]["pos"]),
        **history_dist(case),
    }


def history_dist(case):
    """the harness-only dimensions (definition history, exception root, odd argument objects)"""
    h = case["hspec"]
    cl = h["classes"]
    vals = list(case.get("call", {}).get("pos", [])) + [v for _, v in case.get("call", {}).get("kw", [])]
    odd = sorted({m.group(1) for m in (ib._ODD_RE.match(v) for v in vals) if m})
    fs = [f for cs in cl for f in cs.get("fields", [])]
    return {
        "exc_root": cl[0].get("exc_root") if cl[0].get("exc_base") else "-",
        "siblings": "+".join(str(len(cs.get("siblings", []))) for cs in cl),
        "sibling_kw_only": sum(1 for cs in cl for s_ in cs.get("siblings", []) if s_.get("kw_only")),
        "deco": "+".join(("-" if not cs.get("deco") else ("S" if cs["deco"].get("shared") else "o") + str(len(cs["deco"].get("warm", []))))
                         for cs in cl),
        "transformer": sum(1 for cs in cl if cs.get("field_transformer")),
        "odd_values": ",".join(odd) or "-",
        "v_shared": sum(1 for f in fs if f.get("validators") and f.get("v_shared")),
        "v_deco": sum(1 for f in fs if f.get("validators") and f.get("v_deco")),
        "dflt_decorator": sum(1 for f in fs if f.get("default") == "decorator"),
        "side_base": "+".join((cs.get("side_base") or {}).get("pos", "-")[0] for cs in cl),
        "eq_twin": bool(cl[0].get("eq_twin")),
        "cb_twin": bool(cl[0].get("cb_twin")),
        "helper_sub": sum(1 for f in fs if f.get("helper_sub")),
        "conv_shared": sum(1 for f in fs if f.get("conv_shared") and f.get("converter") in ("c01", "c11")),
        "dflt_kinds": ",".join(sorted({f.get("dflt_kind", "str") for f in fs if f.get("default") == "value"})) or "-",
        "cb_odd": ",".join(sorted({f["cb_odd"] for f in fs if f.get("cb_odd")})) or "-",
        "conv_bind_defaults": sum(1 for f in fs if f.get("conv_bind") and f.get("converter")),
        "hook_odd": ",".join(sorted({f["hook_odd"] for f in fs if f.get("hook_odd") and f.get("on_setattr") in ("hook", "hooks2")})) or "-",
        "factory_Factory": sum(1 for f in fs if f.get("default") == "factory" and f.get("factory_style") == "Factory"),
        "post_mode": "+".join(str(cs.get("post_mode") or ("p" if cs.get("post") else "-")) for cs in cl),
        "plain_mid_slotted_leaf": bool(len(cl) >= 3 and any(c["kind"] == "plain" for c in cl[1:-1]) and ib.leaf_slots(cl[-1])),
        "pipes": ",".join(sorted("".join("p" if k == "plain" else "C" for k in f["pipe"]) for f in expected_pipes(case))) or "-",
    }


def expected_pipes(case):
    try:
        return [f for f in ib.expected_fields(case["hspec"]) if f.get("converter") == "pipe"]
    except Exception:  # noqa: BLE001
        return []


def _plain_token(v, i):
    return f"t{i + 1}" if ib._ODD_RE.match(v) else v


def shrink_history(case, remake):
    """drop the definition history / odd values first: a failing input that does not need them is simpler"""
    h = case["hspec"]
    call = case["call"]
    for ci, cs in enumerate(h["classes"]):
        for key in ("siblings", "deco", "field_transformer", "side_base", "eq_twin", "cb_twin", "post_mode"):
            if cs.get(key):
                h2 = copy.deepcopy(h)
                h2["classes"][ci].pop(key)
                yield from remake(h2, call)
        sibs = cs.get("siblings") or []
        if len(sibs) > 1:
            for si in range(len(sibs)):
                h2 = copy.deepcopy(h)
                del h2["classes"][ci]["siblings"][si]
                yield from remake(h2, call)
        for si, sb in enumerate(sibs):
            for key, v in (("fields", []), ("kw_only", False), ("field_transformer", None), ("deco", None), ("api", "attr.s")):
                if sb.get(key) and sb.get(key) != v:
                    h2 = copy.deepcopy(h)
                    h2["classes"][ci]["siblings"][si][key] = v
                    yield from remake(h2, call)
        if cs.get("deco") and cs["deco"].get("warm"):
            for wi in range(len(cs["deco"]["warm"])):
                h2 = copy.deepcopy(h)
                del h2["classes"][ci]["deco"]["warm"][wi]
                yield from remake(h2, call)
        if cs.get("deco") and cs["deco"].get("shared"):
            h2 = copy.deepcopy(h)
            h2["classes"][ci]["deco"]["shared"] = False
            yield from remake(h2, call)
        for fi, f in enumerate(cs.get("fields", [])):
            for key in ("v_shared", "v_deco", "v_and", "cb_odd", "factory_style", "dflt_kind", "conv_shared", "conv_prime", "helper_sub", "conv_bind", "hook_odd"):
                if f.get(key) and f.get(key) not in ("str", "sugar"):
                    h2 = copy.deepcopy(h)
                    h2["classes"][ci]["fields"][fi].pop(key)
                    yield from remake(h2, call)
            if f.get("default") == "decorator":
                h2 = copy.deepcopy(h)
                h2["classes"][ci]["fields"][fi]["default"] = "factory_self"
                yield from remake(h2, call)
            if f.get("converter") == "pipe":
                # a single member, then a shorter chain, then the other spelling
                for k in dict.fromkeys(f["pipe"]):
                    h2 = copy.deepcopy(h)
                    h2["classes"][ci]["fields"][fi]["converter"] = k
                    h2["classes"][ci]["fields"][fi].pop("pipe")
                    yield from remake(h2, call)
                if len(f["pipe"]) > 2:
                    for mi in range(len(f["pipe"])):
                        h2 = copy.deepcopy(h)
                        del h2["classes"][ci]["fields"][fi]["pipe"][mi]
                        yield from remake(h2, call)
                if f.get("pipe_style") == "pipe":
                    h2 = copy.deepcopy(h)
                    h2["classes"][ci]["fields"][fi]["pipe_style"] = "list"
                    yield from remake(h2, call)
    if h["classes"][0].get("exc_root") not in (None, "Exception"):
        h2 = copy.deepcopy(h)
        h2["classes"][0]["exc_root"] = "Exception"
        yield from remake(h2, call)
    vals = list(call["pos"]) + [v for _, v in call["kw"]]
    if any(ib._ODD_RE.match(v) for v in vals):
        for i in range(len(vals)):
            if ib._ODD_RE.match(vals[i]):
                pos = [(_plain_token(v, j) if j == i else v) for j, v in enumerate(call["pos"])]
                kw = [[k, (_plain_token(v, len(call["pos"]) + j) if len(call["pos"]) + j == i else v)] for j, (k, v) in enumerate(call["kw"])]
                yield from remake(h, {"pos": pos, "kw": kw})


def shrink(case):
    if is_script(case):
        for c in shrink(dict(make_case(case["hspec"], {"pos": [], "kw": []}))):
            if c["hspec"] != case["hspec"]:
                try:
                    yield make_script_case(c["hspec"])
                except Exception:  # noqa: BLE001
                    continue
        return
    h = case["hspec"]
    yield from shrink_history(case, _remake)
    # drop a field / a class / reset options, then rebuild the case
    for ci, cs in enumerate(h["classes"]):
        for fi in range(len(cs.get("fields", []))):
            h2 = copy.deepcopy(h)
            del h2["classes"][ci]["fields"][fi]
            yield from _remake(h2, case["call"])
    if len(h["classes"]) > 1:
        for ci in range(len(h["classes"]) - 1):
            h2 = copy.deepcopy(h)
            eb, er, tw = h2["classes"][0].get("exc_base"), h2["classes"][0].get("exc_root"), h2["classes"][0].get("eq_twin")
            tw2 = h2["classes"][0].get("cb_twin")
            del h2["classes"][ci]
            h2["classes"][0]["exc_base"] = eb
            if er:
                h2["classes"][0]["exc_root"] = er
            if tw:
                h2["classes"][0]["eq_twin"] = True
            if tw2:
                h2["classes"][0]["cb_twin"] = True
            yield from _remake(h2, case["call"])
    for ci, cs in enumerate(h["classes"]):
        for k, v in (("slots", None), ("kw_only", False), ("cache_hash", False), ("pre", "none"), ("post", False),
                     ("cls_on_setattr", "unset"), ("api", "attr.s")):
            if cs.get(k) != v and cs["kind"] == "attrs":
                h2 = copy.deepcopy(h)
                h2["classes"][ci][k] = v
                if k == "cache_hash":
                    h2["classes"][ci].pop("unsafe_hash", None)
                yield from _remake(h2, case["call"])
        for fi, f in enumerate(cs.get("fields", [])):
            for k, v in (("converter", None), ("validators", 0), ("alias", None), ("on_setattr", "unset"), ("kw_only", False), ("type", None)):
                if f.get(k) != v:
                    h2 = copy.deepcopy(h)
                    h2["classes"][ci]["fields"][fi][k] = v
                    yield from _remake(h2, case["call"])
    c = case["call"]
    for i in range(len(c["kw"])):
        yield dict(case, call={"pos": c["pos"], "kw": c["kw"][:i] + c["kw"][i + 1:]})
    if c["pos"]:
        yield dict(case, call={"pos": c["pos"][:-1], "kw": c["kw"]})


def _remake(h2, call):
    if ib.confusing_plain(h2["classes"]):
        return        # the "slotted confused" shape (K6 of C06) is outside the construction properties: never shrink into it
    try:
        ib.build(h2)
        yield make_case(h2, call)
    except Exception:  # noqa: BLE001
        return


def neighbours(case, rng):
    if is_script(case):
        # the script differs from the model's: look for a call of that class on which the behaviour differs
        for _ in range(24):
            yield make_case(case["hspec"], ib.gen_call(rng, case["hspec"], malformed=0.05))
        return
    for _ in range(12):
        yield make_case(case["hspec"], ib.gen_call(rng, case["hspec"], odd=ODD))
    yield from shrink(case)
