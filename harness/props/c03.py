"""C03 -- generated equality is exact-class, field-wise ==.

Case = the Lean `Attrs.C03.Case` (fields with their eq/cmp arguments and the scripted outcome of every
comparison, kind of right operand) plus a harness-only `cfg` (api, slots, frozen, class-level eq/order
arguments, how fields are split over an attrs base, kind of subclass / foreign operand) which the
model ignores -- that the verdict is the same for every `cfg` is part of what is checked.
"""
from __future__ import annotations

import itertools

import attr
import attrs

ID = "C03"
RULE = ("cases = (per-field cmp/eq argument x scripted outcome of raw and keyed comparison x same-object flag) x "
        "right-operand kind x class configuration (api, slots, frozen, class-level eq/order/cmp, inherited split, "
        "subclass/foreign kind); exhaustive over the model dimensions for <=1 field (quick) / <=2 fields (thorough), "
        "random above; non-trivial = at least one eq-participating field; distinct = distinct JSON case")
ASSUMPTIONS = [
    "CPython's ==/!= dispatch (left method, reflected method, identity fallback) is modelled as a 3-line function and diff-tested here",
    "scripted comparison objects stand for arbitrary values: each == outcome is an input of the case",
]
EXHAUSTIVE = {"quick": False, "thorough": False}
BUDGET_S = {"quick": 40, "thorough": 420}

OUTCOMES = ["T", "F", "truthy", "falsy"]
EQARGS = [("unset", "unset"), ("unset", "t"), ("unset", "f"), ("unset", "key"), ("t", "unset"), ("f", "unset"), ("key", "unset")]
RHS = ["same", "identical", "sub", "super", "foreign"]
NAMES = ["a", "b", "c", "d"]


class Truthy:
    def __bool__(self):
        return True


class Falsy:
    def __bool__(self):
        return False


TRUTHY, FALSY = Truthy(), Falsy()
MK = {"T": True, "F": False, "truthy": TRUTHY, "falsy": FALSY}
LOG: list = []


class K:
    """keyed value"""
    __hash__ = None

    def __init__(self, name, keyed):
        self.name, self.keyed = name, keyed

    def __eq__(self, other):
        LOG.append(self.name + ":key")
        return MK[self.keyed]


class S:
    """scripted raw value"""
    __hash__ = None

    def __init__(self, name, raw, keyed):
        self.name, self.raw = name, raw
        self.k = K(name, keyed)

    def __eq__(self, other):
        LOG.append(self.name)
        return MK[self.raw]


def key_fn(v):
    return v.k


def canon(v):
    if v is True:
        return "T"
    if v is False:
        return "F"
    if v is NotImplemented:
        return "NI"
    try:
        return "truthy" if bool(v) else "falsy"
    except Exception:  # noqa: BLE001
        return "exc"


def call(f):
    try:
        return canon(f())
    except Exception:  # noqa: BLE001
        return "exc"


class DecoyK:
    __hash__ = None

    def __eq__(self, other):
        LOG.append("DECOY:key")
        return False


def decoy_key(v):
    """key function of the decoy classes: must never be called when the real classes compare"""
    LOG.append("DECOY")
    return DecoyK()


_ARG = {"t": True, "f": False, "key": key_fn}
_ARG_DECOY = {"t": True, "f": False, "key": decoy_key}
_CLASS_CACHE: dict = {}


def _field_kwargs(f, api, arg=None):
    arg = arg or _ARG
    kw = {}
    if f["cmp"] != "unset":
        kw["cmp"] = arg[f["cmp"]]
    if f["eq"] != "unset":
        kw["eq"] = arg[f["eq"]]
    return kw


def build(case):
    cfg = case.get("cfg", {})
    key = (tuple((f["name"], f["cmp"], f["eq"]) for f in case["fields"]), tuple(sorted(cfg.items())))
    got = _CLASS_CACHE.get(key)
    if got is not None:
        return got
    if len(_CLASS_CACHE) > 3000:
        _CLASS_CACHE.clear()
        import linecache
        for k in [k for k in linecache.cache if k.startswith("<attrs generated")]:
            del linecache.cache[k]
    api = cfg.get("api", "attr.s")
    split = min(cfg.get("split", 0), len(case["fields"]))
    # `field()` of the next-gen API has no cmp=; fall back to attr.ib inside define, which is allowed
    def mk(f):
        return attr.ib(**_field_kwargs(f, api))

    cls_kw = {}
    if cfg.get("slots") is not None:
        cls_kw["slots"] = cfg["slots"]
    if cfg.get("frozen"):
        cls_kw["frozen"] = True
    ce = cfg.get("cls_eq", "unset")
    if ce == "t":
        cls_kw["eq"] = True
    elif ce == "cmp_t" and api == "attr.s":
        cls_kw["cmp"] = True
    co = cfg.get("cls_order", "unset")
    if co != "unset" and "cmp" not in cls_kw:
        cls_kw["order"] = co == "t"
    deco = {"attr.s": attr.s, "define": attrs.define, "frozen": attrs.frozen, "mutable": attrs.mutable}[api]
    if api == "frozen":
        cls_kw.pop("frozen", None)

    base_fields = case["fields"][:split]
    own_fields = case["fields"][split:]
    # decoy classes of the same layout (names, keyed/unkeyed pattern, options, qualnames) with a different key
    # function are defined first: whatever attrs memoises per layout must not leak into the real classes
    def mkd(f):
        return attr.ib(**_field_kwargs(f, api, _ARG_DECOY))
    try:
        DBase = deco(**cls_kw)(type("Base", (object,), {f["name"]: mkd(f) for f in base_fields}))
        deco(**cls_kw)(type("C", (DBase,), {f["name"]: mkd(f) for f in own_fields}))
        deco(**cls_kw)(type("C", (object,), {f["name"]: mkd(f) for f in case["fields"]}))
    except Exception:  # noqa: BLE001
        pass
    Base = deco(**cls_kw)(type("Base", (object,), {f["name"]: mk(f) for f in base_fields}))
    C = deco(**cls_kw)(type("C", (Base,), {f["name"]: mk(f) for f in own_fields}))
    if cfg.get("sub_kind", "plain") == "plain":
        D = type("D", (C,), {})
    else:
        D = deco(**cls_kw)(type("D", (C,), {}))
    F = deco(**cls_kw)(type("C", (object,), {f["name"]: mk(f) for f in case["fields"]}))  # unrelated twin
    res = (Base, C, D, F, [f["name"] for f in base_fields])
    _CLASS_CACHE[key] = res
    return res


def observe(case):
    Base, C, D, F, base_names = build(case)
    fs = case["fields"]
    xv = {f["name"]: S(f["name"], f["raw"], f["keyed"]) for f in fs}
    yv = {f["name"]: (xv[f["name"]] if f["sameObj"] else S(f["name"], f["raw"], f["keyed"])) for f in fs}
    x = C(**xv)
    rhs = case["rhs"]
    cfg = case.get("cfg", {})
    if rhs == "same":
        y = C(**yv)
    elif rhs == "identical":
        y = x
    elif rhs == "sub":
        y = D(**yv)
    elif rhs == "super":
        y = Base(**{n: yv[n] for n in base_names})
    else:
        y = F(**yv) if cfg.get("foreign_kind", "twin") == "twin" else object()
    del LOG[:]
    eq_direct = call(lambda: C.__eq__(x, y))
    trace = list(LOG)
    obs = {
        "eqDirect": eq_direct,
        "neDirect": call(lambda: C.__ne__(x, y)),
        "eqOp": call(lambda: x == y),
        "neOp": call(lambda: x != y),
        "trace": trace,
    }
    del LOG[:]
    return obs


def _participates(f):
    return not (f["eq"] == "f" or f["cmp"] == "f")


def nontrivial(case, model):
    return any(_participates(f) for f in case["fields"])


def dist(case, obs):
    cfg = case.get("cfg", {})
    return {
        "n_fields": len(case["fields"]),
        "rhs": case["rhs"],
        "api": cfg.get("api"),
        "slots": cfg.get("slots"),
        "eqDirect": obs.get("eqDirect") if isinstance(obs, dict) else "?",
        "keys": sum(1 for f in case["fields"] if "key" in (f["cmp"], f["eq"])),
    }


def _rand_cfg(rng):
    api = rng.choice(["attr.s", "attr.s", "define", "frozen", "mutable"])
    return {
        "api": api,
        "slots": rng.choice([None, True, False]),
        "frozen": rng.random() < 0.3,
        "cls_eq": rng.choice(["unset", "t", "cmp_t"]),
        "cls_order": rng.choice(["unset", "f", "t"]),
        "split": rng.choice([0, 0, 1, 2]),
        "sub_kind": rng.choice(["plain", "attrs"]),
        "foreign_kind": rng.choice(["twin", "object"]),
    }


def _field_space(reduced):
    for (cmp_, eq) in EQARGS:
        has_key = "key" in (cmp_, eq)
        raws = OUTCOMES if not (reduced and has_key) else ["T", "F"]
        keyeds = OUTCOMES if has_key else ["F"] if reduced else OUTCOMES
        for raw in raws:
            for keyed in keyeds:
                for same in (False, True):
                    yield {"cmp": cmp_, "eq": eq, "raw": raw, "keyed": keyed, "sameObj": same}


def gen_cases(tier, rng):
    # exhaustive block
    kmax = 1 if tier == "quick" else 2
    yield {"fields": [], "rhs": "same", "cfg": _rand_cfg(rng)}
    for rhs in RHS:
        yield {"fields": [], "rhs": rhs, "cfg": _rand_cfg(rng)}
    for k in range(1, kmax + 1):
        space = list(_field_space(reduced=(k > 1)))
        for combo in itertools.product(space, repeat=k):
            for rhs in RHS:
                fields = [dict(f, name=NAMES[i]) for i, f in enumerate(combo)]
                yield {"fields": fields, "rhs": rhs, "cfg": _rand_cfg(rng)}
    # random block
    n = 7000 if tier == "quick" else 400000
    full = list(_field_space(reduced=False))
    for _ in range(n):
        k = rng.choice([2, 3, 3, 4])
        fields = []
        for i in range(k):
            f = dict(rng.choice(full), name=NAMES[i])
            # bias towards truthy outcomes so that long chains are exercised
            if rng.random() < 0.6:
                f["raw"] = rng.choice(["T", "truthy"])
                f["keyed"] = rng.choice(["T", "truthy"])
            fields.append(f)
        yield {"fields": fields, "rhs": rng.choice(RHS + ["same", "same"]), "cfg": _rand_cfg(rng)}


def shrink(case):
    fs = case["fields"]
    for i in range(len(fs)):
        yield dict(case, fields=fs[:i] + fs[i + 1:])
    base = {"api": "attr.s", "slots": None, "frozen": False, "cls_eq": "unset", "cls_order": "unset",
            "split": 0, "sub_kind": "plain", "foreign_kind": "twin"}
    cfg = case.get("cfg", {})
    for k, v in base.items():
        if cfg.get(k) != v:
            yield dict(case, cfg=dict(cfg, **{k: v}))
    for i, f in enumerate(fs):
        for k, v in (("cmp", "unset"), ("eq", "unset"), ("sameObj", False), ("raw", "T"), ("keyed", "T")):
            if f[k] != v:
                g = dict(f, **{k: v})
                if g["cmp"] != "unset" and g["eq"] != "unset":
                    continue
                yield dict(case, fields=fs[:i] + [g] + fs[i + 1:])


def neighbours(case, rng):
    for rhs in RHS:
        for _ in range(3):
            yield dict(case, rhs=rhs, cfg=_rand_cfg(rng))
    yield from shrink(case)

LEVEL_TEXT = ("Lean theorems over arbitrary field lists (C03_eq_iff, C03_ne_negation, C03_other_class_notimpl, "
              "C03_nonparticipating_irrelevant, C03_short_circuit, C03_uses_eq_not_identity, C03_model_meets_spec) about an "
              "executable model of _make_eq_script/__ne__/_determine_attrib_eq_order; the model is tied to /repo by a "
              "differential correspondence over scripted comparison outcomes x operand kinds x class configurations "
              "(api, slots, frozen, class-level eq/order/cmp, inheritance split). CPython's ==/!= dispatch is modelled and observed, not proved.")
