"""C03 -- generated equality is exact-class, field-wise ==.

Per-field harness-only keys added in round 8: `keyKind` / `okeyKind` (which kind of callable the eq / order key is) and
`ftype` / `tspell` (the field's declared type and how it is spelled).

Case = the Lean `Attrs.C03.Case`:
  * fields with their eq/cmp/order/hash arguments and the scripted outcome of every comparison (raw, through
    the eq key and -- separately -- through the order key, which `==` must never use),
  * kind of right operand,
  * class facts: class-level eq argument, effective auto_detect, what the body of C, every ancestor, the
    subclass and the foreign operand's class define under `__eq__` / `__ne__`,
  * the history of the operands before they are compared (hash() taken and cached, fields re-assigned),
  * what the metaclass of all classes involved answers for `==`/`!=` between class objects,
  * a fault per field for the FIRST of two rounds (its == raises / its eq key function raises): every case is
    observed twice on the same pair in the same operand order -- with the faults active, then with all gone --
    and what the comparisons left behind (thread-local state of the attr modules, the operands) is observed,
plus a harness-only `cfg` that says how those facts are realised (api, slots, frozen, class-level
eq/order/cmp spelling, inherited split, builtin / mixin / exception root, attrs base with generated or
hand-written methods, kind of subclass / foreign operand, hash= / unsafe_hash= / cache_hash=, payloads of
builtin bases, decoy classes) and per-field harness-only keys (`neRaw`, `neKeyed`: what `!=` between the two
values answers -- independent of `==`; `excKind`: which exception a fault raises, incl. a BaseException-only one;
`unhashable`: the values and their key results have `__hash__ = None`; `reprEq`: the two values' reprs are equal
-- independent of `==`; any repr() of a value shows in the trace).  `_finish` derives the facts from `cfg`; the model reads only facts.
"""
from __future__ import annotations

import enum
import functools
import itertools
import json
import operator
import sys
import threading
import types

import attr
import attrs

import c03_ir

ID = "C03"
TABLES = ["fn_determine_attrib_eq_order"]
RULE = ("kind of callable of every eq / order key as a dimension (plain function, functools.partial, instance with __call__, "
        "operator.methodcaller, a class, a bound method -- one object per field name and kind, told apart by identity in T3) and "
        "declared type of every field as a dimension (none / bool / int / float / str / Enum / IntEnum / Flag / NoneType / object / "
        "tuple / frozenset / a string annotation; spelled type= or as a class-body annotation; the values held are the scripted "
        "objects whatever is declared); 40% of the cases define all their classes in a registered synthetic module whose globals bind `NotImplemented` and "
        "every `__attr_key_<name>` helper name to junk (attrs merges the class's module globals into the namespace of its "
        "generated methods); every such class is also a T3 script case (binding of NotImplemented / of each helper). field spelling and __init__ participation as a dimension (45% of the classes): private names, explicit aliases, "
        "init=False fields with no / a constant / a factory default whose values are put in place after construction "
        "(object.__setattr__, also on frozen classes), aliases colliding with an init=False field's alias (`_tag` next to "
        "`tag`, alias='y' next to a field y) preferably between two keyed fields; every such class is also a T3 script case. T3: one `script` case per generated class in the thorough tier (every 12th class in the quick tier) -- the real "
        "source text of that class's generated __eq__ (literal lines + strict parse into the IR of Model/C03IR.lean + what its "
        "helper globals are bound to) and of the shared __ne__ helper, compared syntactically with the model generator's "
        "text/script and executed in Lean on a canonical operand family (all per-field outcome vectors over {T,F}, all four "
        "outcomes for <=2 fields, one non-bool variant per field, the other ways of comparing a field answering the contrary; "
        "same / identical / sub / super / foreign operands). Ordinary cases: two rounds per case on the same operands (faults active / faults gone) + residue check; cases = (per-field cmp/eq/order argument (order: unset/True/False/key function of its own) x hash argument x "
        "scripted outcome of raw, eq-keyed and order-keyed == (and, independently, of !=) x same-object flag x "
        "equal/different hash codes x hashable/unhashable values and key results x equal/different reprs x first-round "
        "fault (== raises / eq key function raises; 5 exception types incl. BaseException-only)) x right-operand kind x metaclass (plain type, or one whose __eq__/__ne__/both "
        "answer scripted outcomes -- e.g. equate all classes of the case, or make a class unequal to itself) x class facts (class-level "
        "eq/cmp, auto_detect, hand-written __eq__/__ne__ in the class body, ancestors: attrs base with generated or "
        "hand-written methods over object / list / dict / str / float / int / tuple / exception / plain mixin with "
        "__eq__, __ne__ or both; subclass and foreign operand with or without methods of their own) x hashing "
        "history (cache_hash, hash(x) / hash(y) taken before, fields re-assigned after hashing) x class configuration "
        "(api incl. make_class, slots, frozen, order, inherited split, hash=/unsafe_hash=); exhaustive over the "
        "per-field model dimensions for <=1 field (quick) / <=2 fields (thorough) under random class facts and "
        "histories; random block: 80% classes of 1-4 fields, ~18% of every width 5..40, ~1.5% much wider (48/64/100/150 "
        "fields; size thresholds of the generator), wide classes mostly-equal with self-unequal (NaN-like) values shared by "
        "identity between the operands in one or two fields and more x-with-itself comparisons, every wide class also as a "
        "T3 script case in both tiers; then "
        "histories, random above; only classes for which attrs generates equality are emitted; non-trivial = at "
        "least one eq-participating field; distinct = distinct JSON case")
TRUSTED = [
    "harness/c03_ir.py: the strict parser from the generated __eq__ source (read through inspect/linecache and checked to "
    "compile to the code object that runs) and from the source of attr._make.__ne__ to the IR; Python's `ast`",
    "Model/C03IR.lean execEq/execNe as the meaning of that IR over scripted comparison outcomes (and-chain, class guard, "
    "key helpers by binding); the IR has no form for anything else -- other text is `unknown` and reported as a broken tie",
]
ASSUMPTIONS = [
    "the kind of callable a key function is and the declared type of a field (keyKind, okeyKind, ftype, tspell) are varied "
    "by the harness only: model and spec never read them, i.e. the expected results are those of a plain-function key on an "
    "untyped field; fn_determine_attrib_eq_order (T1b) additionally ties the source text of that function to its model",
    "T3 identifies helper bindings by object identity with the harness's per-field key functions (one eq key and one order "
    "key function object per field name); the helper-name prefix is read from the source of _make_eq_script with ast",
    "CPython's attribute lookup of __eq__/__ne__ along the MRO, object.__ne__ (derives from the resolved __eq__) and the "
    "==/!= dispatch (subclass-first, left, reflected, identity) are modelled as small functions and diff-tested here",
    "scripted comparison objects stand for arbitrary values: each == outcome is an input of the case; their __ne__ is "
    "scripted independently and their __hash__ is scripted too (equal or different codes whatever == says)",
    "class facts in the case are derived from cfg by the harness (_finish) and realised by build(); hand-written and "
    "builtin methods are represented by the outcome they give for the operands of the case (payloads chosen accordingly)",
    "the hashing history and the hash-related arguments are varied by the harness; model and spec never read them "
    "(theorem C03_history_irrelevant), i.e. the expected results are those of fresh operands",
    "the metaclass and the per-field order= argument are part of the Lean case but model and spec never read them "
    "(theorems C03_class_identity_not_equality, C03_order_key_irrelevant); a metaclass __eq__/__ne__ call or an order-key "
    "comparison during C.__eq__/C.__ne__ shows up in the trace, which the spec rejects",
    "faults are scripted on the harness's own value objects and switched off between the two rounds; the model's first "
    "round evaluates the and-chain with faults (chainF), its second round without; exceptions are canonicalised to `exc` "
    "whatever their type (the type is harness-only variation)",
    "residue = new non-empty entries / changed values in threading.local objects found in the attr and attrs modules "
    "(this thread), and changed instance dict / slot contents of the two operands; the model says: never anything",
    "classes for which attrs does not generate equality (eq=False, auto_detect with own methods, auto_exc exceptions) "
    "are outside the property and not generated",
]
EXHAUSTIVE = {"quick": False, "thorough": False}
BUDGET_S = {"quick": 35, "thorough": 400}

OUTCOMES = ["T", "F", "truthy", "falsy"]
ARGS4 = ["unset", "t", "f", "key"]
# (cmp, eq, order) combinations `attrib()` accepts: cmp excludes the others; order=True/key needs eq != False
EQARGS = [("unset", e, o) for e in ARGS4 for o in ARGS4 if not (e == "f" and o in ("t", "key"))] + \
         [(c, "unset", "unset") for c in ("t", "f", "key")]
RHS = ["same", "identical", "sub", "super", "foreign"]
NAMES = ["a", "b", "c", "d"]
WIDE = [48, 64, 100, 150]
BUILTIN_ROOTS = {"list": list, "dict": dict, "str": str, "float": float, "int": int, "tuple": tuple}
PAYLOADS = {"list": ([1], [2]), "dict": ({1: 1}, {2: 2}), "str": ("p", "q"), "float": (1.5, 2.5), "int": (1, 2),
            "tuple": ((1,), (2,))}
NEW_WITH_PAYLOAD = ("str", "float", "int", "tuple")


class Truthy:
    def __bool__(self):
        return True


class Falsy:
    def __bool__(self):
        return False


TRUTHY, FALSY = Truthy(), Falsy()
MK = {"T": True, "F": False, "truthy": TRUTHY, "falsy": FALSY}
LOG: list = []


class UserErr(Exception):
    pass


class BaseOnly(BaseException):
    """not an Exception: passes through every `except Exception`"""


EXC_KINDS = {"user": UserErr, "base": BaseOnly, "attr": AttributeError, "type": TypeError, "recursion": RecursionError}


class K:
    """keyed value: == and != answer independently scripted outcomes; hash code and repr scripted too;
    `fault` (an exception class) makes the next == / != raise"""
    fault = None

    def __init__(self, name, keyed, ne, h, rp="r"):
        self.name, self.keyed, self.ne, self.h, self.rp = name, keyed, ne, h, rp

    def __eq__(self, other):
        LOG.append(self.name + ":key")
        if self.fault is not None:
            raise self.fault()
        return MK[self.keyed]

    def __ne__(self, other):
        LOG.append(self.name + ":key!=")
        if self.fault is not None:
            raise self.fault()
        return MK[self.ne]

    def __hash__(self):
        return self.h

    def __repr__(self):
        LOG.append(self.name + ":key:repr")
        return self.rp


class KO(K):
    """what the ORDER key function returns: must never take part in == / !="""

    def __eq__(self, other):
        LOG.append(self.name + ":okey")
        if self.fault is not None:
            raise self.fault()
        return MK[self.keyed]

    def __ne__(self, other):
        LOG.append(self.name + ":okey!=")
        if self.fault is not None:
            raise self.fault()
        return MK[self.ne]

    __hash__ = K.__hash__

    def __repr__(self):
        LOG.append(self.name + ":okey:repr")
        return self.rp


class S:
    """scripted raw value"""
    fault = None
    kfault = None       # makes the eq key function raise
    KCLS, KOCLS = K, KO

    def __init__(self, name, raw, keyed, ne_raw="T", ne_keyed="T", h=0, order_keyed="T", rp="r"):
        self.name, self.raw, self.ne, self.h, self.rp = name, raw, ne_raw, h, rp
        self.k = self.KCLS(name, keyed, ne_keyed, h + 7, rp)
        self.ok = self.KOCLS(name, order_keyed, ne_keyed, h + 11, rp)

    def _key(self):
        """what operator.methodcaller('_key') -- a key function that is a callable instance -- returns"""
        if self.kfault is not None:
            raise self.kfault()
        return self.k

    def _okey(self):
        return self.ok

    def __eq__(self, other):
        LOG.append(self.name)
        if self.fault is not None:
            raise self.fault()
        return MK[self.raw]

    def __ne__(self, other):
        LOG.append(self.name + "!=")
        if self.fault is not None:
            raise self.fault()
        return MK[self.ne]

    def __hash__(self):
        return self.h

    def __repr__(self):
        LOG.append(self.name + ":repr")
        return self.rp


class KU(K):
    """an unhashable key result (a list, a dict, an ==-only class)"""
    __hash__ = None


class KOU(KO):
    __hash__ = None


class SU(S):
    """an unhashable value whose key results are unhashable too"""
    __hash__ = None
    KCLS, KOCLS = KU, KOU


def _mk_key(field):
    def key_fn(v):
        if v.kfault is not None:
            raise v.kfault()
        return v.k
    key_fn.role, key_fn.field = "eq", field
    return key_fn


def _mk_okey(field):
    def okey_fn(v):
        """the order key: a function of its own"""
        return v.ok
    okey_fn.role, okey_fn.field = "order", field
    return okey_fn


# one eq key callable and one order key callable PER FIELD NAME AND KIND OF CALLABLE (distinct objects doing the same),
# so that the binding of every helper global of a generated method can be told apart (T3).  Kinds: a plain function, a
# functools.partial, an instance of a class with __call__, an operator.methodcaller (callable instances that are
# neither routines nor classes), a class (called like cmp_using() results), a bound method
KEY_KINDS = ["fn", "partial", "obj", "caller", "cls", "bound"]
_HELPER_REG: dict = {}      # id(callable) -> (role, field, callable)


def _key_impl(v):
    if v.kfault is not None:
        raise v.kfault()
    return v.k


def _okey_impl(v):
    return v.ok


class _CallObj:
    """a key function that is an object with __call__"""

    def __init__(self, impl):
        self.impl = impl

    def __call__(self, v):
        return self.impl(v)

    def method(self, v):
        return self.impl(v)


def _mk_callable(kind, impl, meth):
    if kind == "partial":
        return functools.partial(impl)
    if kind == "obj":
        return _CallObj(impl)
    if kind == "caller":
        return operator.methodcaller(meth)
    if kind == "cls":
        # a class used as key function: calling it answers the key result (like a cmp_using() class wraps the value)
        return type("KeyCls", (object,), {"__new__": staticmethod(lambda cls, v, _impl=impl: _impl(v))})
    if kind == "bound":
        return _CallObj(impl).method
    raise KeyError(kind)


class _PerName(dict):
    """name -> its own callable object, made on first use (classes may have any number of fields)"""

    def __init__(self, mk, role):
        super().__init__()
        self._mk, self._role = mk, role

    def __missing__(self, name):
        fn = self[name] = self._mk(name)
        _HELPER_REG[id(fn)] = (self._role, name, fn)
        return fn


KEY_FNS = _PerName(_mk_key, "eq")
OKEY_FNS = _PerName(_mk_okey, "order")
KEY_TABLES = {"fn": KEY_FNS}
OKEY_TABLES = {"fn": OKEY_FNS}
for _k in KEY_KINDS[1:]:
    KEY_TABLES[_k] = _PerName(lambda name, _k=_k: _mk_callable(_k, _key_impl, "_key"), "eq")
    OKEY_TABLES[_k] = _PerName(lambda name, _k=_k: _mk_callable(_k, _okey_impl, "_okey"), "order")


def field_name(i):
    """a, b, c, d, f004, f005, ..."""
    return NAMES[i] if i < len(NAMES) else f"f{i:03d}"


def classify_helper(obj):
    """what a helper global of a generated method is bound to, in the IR's terms"""
    got = _HELPER_REG.get(id(obj))
    if got is not None and got[2] is obj:
        return {"eqKey" if got[0] == "eq" else "orderKey": {"field": got[1]}}
    return "other"


def canon(v):
    if v is True:
        return "T"
    if v is False:
        return "F"
    if v is NotImplemented:
        return "NI"
    try:
        return "truthy" if bool(v) else "falsy"
    except Exception:  # noqa: BLE001
        return "exc"


def call(f):
    try:
        return canon(f())
    except BaseException:  # noqa: BLE001 -- scripted faults include BaseException-only ones
        return "exc"


class DecoyK:
    __hash__ = None

    def __eq__(self, other):
        LOG.append("DECOY:key")
        return False


def decoy_key(v):
    """key function of the decoy classes: must never be called when the real classes compare"""
    LOG.append("DECOY")
    return DecoyK()


_ARG = {"t": True, "f": False, "key": KEY_FNS}       # "key": per field name
_ARG_DECOY = {"t": True, "f": False, "key": decoy_key}
_OARG = {"t": True, "f": False, "key": OKEY_FNS}
_CLASS_CACHE: dict = {}
_BUILDS = [0]


def _field_kwargs(f, arg=None):
    arg = arg or _ARG

    def pick(table, a, tables=None, kind="fn"):
        v = table[a]
        if isinstance(v, dict):      # _PerName makes the callable on first use; which kind of callable: harness-only
            return (tables[kind] if tables and v is tables["fn"] else v)[f["name"]]
        return v
    kw = {}
    if f["cmp"] != "unset":
        kw["cmp"] = pick(arg, f["cmp"], KEY_TABLES, f.get("keyKind", "fn"))
    if f["eq"] != "unset":
        kw["eq"] = pick(arg, f["eq"], KEY_TABLES, f.get("keyKind", "fn"))
    if f.get("order", "unset") != "unset":
        kw["order"] = pick(_OARG, f["order"], OKEY_TABLES, f.get("okeyKind", "fn"))
    if f.get("ftype", "none") != "none" and f.get("tspell", "type=") == "type=":
        kw["type"] = FIELD_TYPES[f["ftype"]]
    h = f.get("hash", "unset")
    if h != "unset":
        kw["hash"] = h == "t"
    if f.get("init", True) is False:
        kw["init"] = False
        d = f.get("dflt", "none")
        if d == "const":
            kw["default"] = CONST_DEFAULT
        elif d == "factory":
            kw["factory"] = _fresh_default
    if f.get("alias"):
        kw["alias"] = f["alias"]
    return kw


class _Level(enum.IntEnum):
    LOW = 1
    HIGH = 2


class _Color(enum.Enum):
    RED = "red"


class _Flagged(enum.Flag):
    A = 1


# declared field types (attrs never enforces them: the values are the scripted objects whatever is declared)
FIELD_TYPES = {"bool": bool, "int": int, "float": float, "str": str, "enum": _Color, "intenum": _Level, "flag": _Flagged,
               "nonetype": type(None), "object": object, "optional_bool": "bool | None", "tuple": tuple, "frozenset": frozenset}


def _annotations(fields):
    """class-body `__annotations__` for the fields whose type is spelled as an annotation"""
    anns = {f["name"]: FIELD_TYPES[f["ftype"]] for f in fields
            if f.get("ftype", "none") != "none" and f.get("tspell", "type=") == "ann"}
    return {"__annotations__": anns} if anns else {}


class _Default:
    """what an init=False field holds until its value is put in place after construction; never compared"""
    __hash__ = None

    def __eq__(self, other):
        LOG.append("DEFAULT")
        return True

    def __ne__(self, other):
        LOG.append("DEFAULT!=")
        return False


CONST_DEFAULT = _Default()


def _fresh_default():
    return _Default()


def eff_alias(f):
    """the __init__ argument name attrs derives: explicit alias, else the name without leading underscores"""
    return f.get("alias") or f["name"].lstrip("_")


def _scripted_methods(layer, who):
    """class-body entries for a hand-written `__eq__` / `__ne__` answering fixed outcomes"""
    ns = {}
    if layer and layer.get("eq"):
        o = layer["eq"]

        def __eq__(self, other, _o=o, _who=who):
            LOG.append(_who + ":eq")
            return MK[_o]
        ns["__eq__"] = __eq__
    if layer and layer.get("ne"):
        o2 = layer["ne"]

        def __ne__(self, other, _o=o2, _who=who):
            LOG.append(_who + ":ne")
            return MK[_o]
        ns["__ne__"] = __ne__
    return ns


# ---- a registered synthetic module whose globals bind the names a generated __eq__ uses to junk: attrs merges the
# globals of the class's module into the namespace its generated methods are evaluated in

class _JunkNI:
    """what the hostile module calls `NotImplemented`"""

    def __bool__(self):
        LOG.append("JUNK:NotImplemented")
        return False


class _JunkK:
    __hash__ = None

    def __eq__(self, other):
        LOG.append("JUNK:key")
        return False

    def __ne__(self, other):
        LOG.append("JUNK:key!=")
        return True


def junk_key(v):
    LOG.append("JUNK:keyfn")
    return _JunkK()


HOSTILE = types.ModuleType("c03_hostile_module")
HOSTILE.__dict__["NotImplemented"] = _JunkNI()
exec("import attr\n\ndef make_class(*a, **k):\n    return attr.make_class(*a, **k)\n", HOSTILE.__dict__)
sys.modules[HOSTILE.__name__] = HOSTILE


def _metaclass(layer):
    """a metaclass whose == / != between class objects answer scripted outcomes (plain `type` if none)"""
    if not layer or not (layer.get("eq") or layer.get("ne")):
        return type
    ns = {"__hash__": type.__hash__}
    if layer.get("eq"):
        o = layer["eq"]

        def __eq__(cls, other, _o=o):
            LOG.append("META:eq")
            return MK[_o]
        ns["__eq__"] = __eq__
    if layer.get("ne"):
        o2 = layer["ne"]

        def __ne__(cls, other, _o=o2):
            LOG.append("META:ne")
            return MK[_o]
        ns["__ne__"] = __ne__
    return type("Meta", (type,), ns)


# ------------------------------------------------------------------------------------------ class facts

def _slot(o):
    return {"user": {"o": o}} if o else "absent"


def _layer(d):
    d = d or {}
    return {"eq": _slot(d.get("eq")), "ne": _slot(d.get("ne"))}


GEN = {"eq": "generated", "ne": "generated"}
NONE = {"eq": "absent", "ne": "absent"}


def eff_auto_detect(cfg):
    ad = cfg.get("auto_detect")
    if ad is None:
        return cfg.get("api", "attr.s") in ("define", "frozen", "mutable")
    return ad


def eff_frozen(cfg):
    return bool(cfg.get("frozen")) or cfg.get("api") == "frozen"


def _own_present(cfg):
    o = cfg.get("own") or {}
    return bool(o.get("eq") or o.get("ne"))


def generates(cfg):
    ce = cfg.get("cls_eq", "unset")
    if ce in ("t", "cmp_t") or cfg.get("api") == "make_class":     # make_class resolves eq=None to True itself
        return True
    return not (eff_auto_detect(cfg) and _own_present(cfg))


def hash_generated(cfg):
    """mirror of the hash decision in attrs() for the classes generated here (eq is generated)"""
    if cfg.get("hash_mode", "none") != "none":
        return True
    if eff_auto_detect(cfg) and (cfg.get("own") or {}).get("eq"):
        return False        # CPython put `__hash__ = None` next to the hand-written __eq__
    return eff_frozen(cfg)


def valid(case):
    cfg = case["cfg"]
    if not generates(cfg):
        return False
    if cfg.get("cls_eq") == "cmp_t" and cfg.get("api") != "attr.s":
        return False
    if cfg.get("cls_eq") == "cmp_t" and cfg.get("cls_order", "unset") != "unset":
        return False
    if cfg.get("base_mode", "gen") == "none" and cfg.get("split", 0):
        return False
    if cfg.get("base_mode") == "user" and not ((cfg.get("base_own") or {}).get("eq") or (cfg.get("base_own") or {}).get("ne")):
        return False
    if cfg.get("root") == "mixin" and not ((cfg.get("mixin") or {}).get("eq") or (cfg.get("mixin") or {}).get("ne")):
        return False
    if cfg.get("root") in ("int", "tuple") and cfg.get("slots") is not False:
        return False
    m = cfg.get("meta")
    if m is not None and not (m.get("eq") or m.get("ne")):
        return False
    if m and cfg.get("api") == "make_class" and cfg.get("base_mode", "gen") == "none" and cfg.get("root") != "mixin":
        return False        # make_class derives the metaclass from the bases
    if cfg.get("cache_hash") and not hash_generated(cfg):
        return False
    h = case["hist"]
    if (h["hashedX"] or h["hashedY"]) and not hash_generated(cfg):
        return False
    if (h["reassignedX"] or h["reassignedY"]) and eff_frozen(cfg):
        return False
    if h["reassignedY"] and case["rhs"] not in ("same", "sub"):
        return False
    if h["hashedY"] and case["rhs"] != "same":
        return False
    names = [f["name"] for f in case["fields"]]
    if len(set(names)) != len(names):
        return False
    init_aliases = [eff_alias(f) for f in case["fields"] if f.get("init", True) is not False]
    if len(set(init_aliases)) != len(init_aliases) or any(not a.isidentifier() for a in init_aliases):
        return False
    if any(f.get("dflt", "none") != "none" and f.get("init", True) is not False for f in case["fields"]):
        return False
    if any(n not in names for n in h["reassignedX"] + h["reassignedY"]):
        return False
    for f in case["fields"]:
        if (f["cmp"], f["eq"], f.get("order", "unset")) not in EQARGS:
            return False
        if f["sameObj"] and (f["hashDiffers"] or f.get("reprEq", True) is False):
            return False
        if f.get("fault", "none") not in ("none", "eqRaises", "keyRaises"):
            return False
    return True


def _finish(case):
    """derive the class facts the Lean model reads from cfg"""
    cfg = case["cfg"]
    anc = []
    bm = cfg.get("base_mode", "gen")
    if bm == "gen":
        anc.append(GEN)
    elif bm == "user":
        anc.append(_layer(cfg.get("base_own")))
    root = cfg.get("root", "object")
    if root == "mixin":
        anc.append(_layer(cfg.get("mixin")))
    elif root in BUILTIN_ROOTS:
        pe = bool(cfg.get("payload_eq"))
        anc.append({"eq": _slot("T" if pe else "F"), "ne": _slot("F" if pe else "T")})
    sk = cfg.get("sub_kind", "plain")
    sub = GEN if sk == "attrs" else _layer(cfg.get("sub_own")) if sk == "plain_user" else NONE
    fk = cfg.get("foreign_kind", "twin")
    foreign = GEN if fk == "twin" else _layer(cfg.get("foreign_own")) if fk == "user" else NONE
    out = dict(case)
    out.update({
        "clsEq": "t" if cfg.get("cls_eq", "unset") in ("t", "cmp_t") or cfg.get("api") == "make_class" else "unset",
        "autoDetect": eff_auto_detect(cfg),
        "own": _layer(cfg.get("own")),
        "ancestors": anc,
        "subLayer": sub,
        "foreignLayer": foreign,
        "metaLayer": _layer(cfg.get("meta")),
        "hist": dict(case["hist"], cacheHash=bool(cfg.get("cache_hash"))),
    })
    return out


# ------------------------------------------------------------------------------------------ building

def _cls_kwargs(cfg):
    api = cfg.get("api", "attr.s")
    kw = {}
    if cfg.get("slots") is not None:
        kw["slots"] = cfg["slots"]
    if cfg.get("frozen") and api != "frozen":
        kw["frozen"] = True
    ce = cfg.get("cls_eq", "unset")
    if ce == "t":
        kw["eq"] = True
    elif ce == "cmp_t":
        kw["cmp"] = True
    co = cfg.get("cls_order", "unset")
    if co != "unset" and "cmp" not in kw:
        kw["order"] = co == "t"
    if cfg.get("auto_detect") is not None:
        kw["auto_detect"] = cfg["auto_detect"]
    hm = cfg.get("hash_mode", "none")
    if hm == "unsafe_hash":
        kw["unsafe_hash"] = True
    elif hm == "hash":
        kw["hash"] = True
    if cfg.get("cache_hash"):
        kw["cache_hash"] = True
    if cfg.get("root") == "exc" and api in ("define", "frozen", "mutable"):
        kw["auto_exc"] = False
    return kw


def _deco(api):
    return {"attr.s": attr.s, "make_class": attr.s, "define": attrs.define, "frozen": attrs.frozen,
            "mutable": attrs.mutable}[api]


def build(case):
    cfg = case.get("cfg", {})
    key = (tuple((f["name"], f["cmp"], f["eq"], f.get("order", "unset"), f.get("hash", "unset"), f.get("alias"),
                  f.get("init", True), f.get("dflt", "none"), f.get("keyKind", "fn"), f.get("okeyKind", "fn"),
                  f.get("ftype", "none"), f.get("tspell", "type=")) for f in case["fields"]),
           case["rhs"],
           json.dumps(cfg, sort_keys=True))
    got = _CLASS_CACHE.get(key)
    if got is not None:
        return got
    _BUILDS[0] += 1
    if _BUILDS[0] % 150 == 0:
        # together: a cached class must keep the linecache entry its generated source is read from (T3)
        _CLASS_CACHE.clear()
        import linecache
        for k in [k for k in linecache.cache if k.startswith("<attrs generated")]:
            del linecache.cache[k]
    api = cfg.get("api", "attr.s")
    split = min(cfg.get("split", 0), len(case["fields"]))
    deco = _deco(api)
    cls_kw = _cls_kwargs(cfg)
    base_fields = case["fields"][:split]
    own_fields = case["fields"][split:]
    M0 = _metaclass(cfg.get("meta"))      # every class of the case is an instance of it
    hostile = cfg.get("module") == "hostile"
    if hostile:
        # ... and lives in the registered module that binds NotImplemented and every key-helper name to junk
        prefix = c03_ir.key_prefix()[0]
        for f in case["fields"]:
            for n in {f["name"], eff_alias(f), f["name"].lstrip("_")}:
                HOSTILE.__dict__[prefix + n] = junk_key

    def M(name, bases, body):
        body = dict(body)
        if hostile:
            body["__module__"] = HOSTILE.__name__
        return M0(name, bases, body)

    def mk(f, force_type=False):
        # `field()` of the next-gen API has no cmp=; attr.ib inside define is allowed
        return attr.ib(**_field_kwargs(dict(f, tspell="type=") if force_type else f))

    def fbody(fields):
        """class body: the attr.ib()s, plus annotations for the fields whose declared type is spelled that way"""
        return dict({f["name"]: mk(f) for f in fields}, **_annotations(fields))

    # decoy classes of the same layout (names, keyed/unkeyed pattern, options, qualnames) with a different key
    # function are defined first: whatever attrs memoises per layout must not leak into the real classes
    if cfg.get("decoy"):
        def mkd(f):
            return attr.ib(**_field_kwargs(f, _ARG_DECOY))
        try:
            DBase = deco(**cls_kw)(type("Base", (object,), {f["name"]: mkd(f) for f in base_fields}))
            deco(**cls_kw)(type("C", (DBase,), {f["name"]: mkd(f) for f in own_fields}))
            deco(**cls_kw)(type("C", (object,), {f["name"]: mkd(f) for f in case["fields"]}))
        except Exception:  # noqa: BLE001
            pass

    # ---- the non-attrs root of the hierarchy
    root = cfg.get("root", "object")
    if root == "mixin":
        Root = M("Mixin", (object,), _scripted_methods(cfg.get("mixin"), "MIXIN"))
    elif root == "exc":
        Root = Exception
    elif root in BUILTIN_ROOTS:
        Root = BUILTIN_ROOTS[root]
    else:
        Root = object
    # ---- the attrs base
    bm = cfg.get("base_mode", "gen")
    common = {k: v for k, v in cls_kw.items() if k in ("slots", "frozen", "auto_exc")}
    bdeco = attr.s if api == "make_class" else deco
    if bm == "gen":
        Base = bdeco(**cls_kw)(M("Base", (Root,), fbody(base_fields)))
    elif bm == "user":
        body = fbody(base_fields)
        body.update(_scripted_methods(cfg.get("base_own"), "BASE"))
        keep = {"auto_detect": True} if cfg.get("base_keep") == "auto_detect" else {"eq": False}
        Base = bdeco(**common, **keep)(M("Base", (Root,), body))
    else:
        Base = Root
    # ---- C
    if api == "make_class":
        C = (HOSTILE.make_class if hostile else attr.make_class)("C", {f["name"]: mk(f, True) for f in own_fields}, bases=(Base,),
                            class_body=_scripted_methods(cfg.get("own"), "OWN") or None, **cls_kw)
    else:
        body = fbody(own_fields)
        body.update(_scripted_methods(cfg.get("own"), "OWN"))
        C = deco(**cls_kw)(M("C", (Base,), body))
    # ---- subclass
    sk = cfg.get("sub_kind", "plain")
    D = F = None
    if case["rhs"] == "sub":
        if sk == "plain":
            D = M("D", (C,), {})
        elif sk == "plain_user":
            D = M("D", (C,), _scripted_methods(cfg.get("sub_own"), "SUB"))
        elif sk == "attrs":
            D = bdeco(**cls_kw)(M("D", (C,), {}))
        else:   # attrs subclass that does not generate equality: inherits C's
            D = bdeco(**common, eq=False)(M("D", (C,), {}))
    # ---- foreign
    if case["rhs"] == "foreign":
        fk = cfg.get("foreign_kind", "twin")
        if fk == "twin":       # unrelated twin with the same name and fields
            F = bdeco(**cls_kw)(M("C", (object,), fbody(case["fields"])))
        elif fk == "user":
            F = M("Foreign", (object,), _scripted_methods(cfg.get("foreign_own"), "FOREIGN"))
        else:
            F = object
    res = (Root, Base, C, D, F, [f["name"] for f in base_fields])
    _CLASS_CACHE[key] = res
    return res


def _make(cls, root, payload, vals, specs=None):
    """an instance whose field `name` holds vals[name]: __init__ arguments go in by alias; init=False fields get
    their default from __init__ and the value is put in place afterwards (object.__setattr__: the documented way
    for derived fields of frozen classes)"""
    specs = specs or {}
    kwargs, later = {}, {}
    for n, v in vals.items():
        f = specs.get(n)
        if f is not None and f.get("init", True) is False:
            later[n] = v
        else:
            kwargs[eff_alias(f) if f is not None else n] = v
    if root in BUILTIN_ROOTS:
        inst = cls.__new__(cls, payload) if root in NEW_WITH_PAYLOAD else cls.__new__(cls)
        if root == "list":
            list.extend(inst, payload)
        elif root == "dict":
            dict.update(inst, payload)
        inst.__init__(**kwargs)
    else:
        inst = cls(**kwargs)
    for n, v in later.items():
        object.__setattr__(inst, n, v)
    return inst


def observe(case):
    if is_script(case):
        return observe_script(case)
    cfg = case.get("cfg", {})
    Root, Base, C, D, F, base_names = build(case)
    fs = case["fields"]
    hist = case.get("hist") or {}
    root = cfg.get("root", "object")
    px, py = PAYLOADS.get(root, (None, None))
    if cfg.get("payload_eq"):
        py = px
    xv, yv = {}, {}
    for i, f in enumerate(fs):
        n = f["name"]
        cls = SU if f.get("unhashable") else S
        xv[n] = cls(n, f["raw"], f["keyed"], f.get("neRaw", "T"), f.get("neKeyed", "T"), 1000 + 16 * i,
                    f.get("orderKeyed", "T"), "r")
        if f["sameObj"]:
            yv[n] = xv[n]
        else:
            yv[n] = cls(n, f["raw"], f["keyed"], f.get("neRaw", "T"), f.get("neKeyed", "T"),
                        (2000 if f.get("hashDiffers") else 1000) + 16 * i, f.get("orderKeyed", "T"),
                        "r" if f.get("reprEq", True) else "r'")
    # values held before a re-assignment: never to be compared, hash codes of their own
    x0, y0 = dict(xv), dict(yv)
    for i, n in enumerate(hist.get("reassignedX", [])):
        x0[n] = S(n + ":stale", "F", "F", "T", "T", 3000 + 16 * i)
    for i, n in enumerate(hist.get("reassignedY", [])):
        y0[n] = S(n + ":stale", "F", "F", "T", "T", 4000 + 16 * i)
    specs = {f["name"]: f for f in fs}
    x = _make(C, root, px, x0, specs)
    rhs = case["rhs"]
    if rhs == "same":
        y = _make(C, root, py, y0, specs)
    elif rhs == "identical":
        y = x
    elif rhs == "sub":
        y = _make(D, root, py, y0, specs)
    elif rhs == "super":
        if Base is Root:      # no attrs base: an instance of the root itself
            y = Root(py) if root in BUILTIN_ROOTS else Root()
        else:
            y = _make(Base, root, py, {n: yv[n] for n in base_names}, specs)
    else:
        y = _make(F, "object", None, yv, specs) if cfg.get("foreign_kind", "twin") == "twin" else F()
    # ---- history
    if hist.get("hashedX"):
        try:
            hash(x)
        except Exception:  # noqa: BLE001 -- hashing is not this property's business
            pass
    if hist.get("hashedY") and rhs == "same":
        try:
            hash(y)
        except Exception:  # noqa: BLE001
            pass
    try:
        for n in hist.get("reassignedX", []):
            setattr(x, n, xv[n])
        if rhs in ("same", "sub"):
            for n in hist.get("reassignedY", []):
                setattr(y, n, yv[n])
    except Exception:  # noqa: BLE001 -- stale values stay: they are compared and show up in the trace
        pass
    # ---- faults of the first round (installed after the history: hashing must not trip over them)
    for f in fs:
        kind = f.get("fault", "none")
        if kind == "none":
            continue
        exc = EXC_KINDS[f.get("excKind", "user")]
        for v in (xv[f["name"]], yv[f["name"]]):
            if kind == "eqRaises":
                v.fault = v.k.fault = v.ok.fault = exc
            else:
                v.kfault = exc

    def one_round():
        del LOG[:]
        eq_direct = call(lambda: C.__eq__(x, y))
        trace = list(LOG)
        del LOG[:]
        ne_direct = call(lambda: C.__ne__(x, y))
        ne_trace = list(LOG)
        r = {"eqDirect": eq_direct, "neDirect": ne_direct, "eqOp": call(lambda: x == y),
             "neOp": call(lambda: x != y), "trace": trace, "neTrace": ne_trace}
        del LOG[:]
        return r

    residue = []
    before = (_tl_snapshot(), _inst_state(x), _inst_state(y))
    first = one_round()
    residue += ["first:" + r for r in _residue(before, (_tl_snapshot(), _inst_state(x), _inst_state(y)))]
    # ---- every fault gone: the SAME pair, same operand order, compared again
    for v in list(xv.values()) + list(yv.values()):
        v.fault = v.kfault = v.k.fault = v.ok.fault = None
    before = (_tl_snapshot(), _inst_state(x), _inst_state(y))
    again = one_round()
    residue += ["again:" + r for r in _residue(before, (_tl_snapshot(), _inst_state(x), _inst_state(y)))]
    return {"first": first, "again": again, "residue": sorted(set(residue))}


# ---- what a comparison may leave behind: thread-local state of the attr modules, the operands themselves

_TL = {"objs": None, "age": 0}


def _thread_locals():
    _TL["age"] += 1
    if _TL["objs"] is None or _TL["age"] % 400 == 0:
        found = []
        for mname, mod in list(sys.modules.items()):
            if mod is not None and (mname in ("attr", "attrs") or mname.startswith(("attr.", "attrs."))):
                for k, v in list(vars(mod).items()):
                    if isinstance(v, threading.local):
                        found.append((f"{mname}.{k}", v))
        _TL["objs"] = found
    return _TL["objs"]


def _tl_snapshot():
    snap = {}
    for name, loc in _thread_locals():
        for a, val in list(vars(loc).items()):
            if isinstance(val, (set, frozenset, list, tuple, dict)):
                snap[f"{name}.{a}"] = ("container", len(val))
            else:
                snap[f"{name}.{a}"] = ("value", id(val), val)     # keep it alive so the id stays meaningful
    return snap


def _inst_state(o):
    st = []
    d = getattr(o, "__dict__", None)
    if isinstance(d, dict):
        st += [(k, id(v)) for k, v in d.items()]
    for klass in type(o).__mro__:
        sl = klass.__dict__.get("__slots__", ())
        for n in ((sl,) if isinstance(sl, str) else sl):
            if n in ("__weakref__", "__dict__"):
                continue
            try:
                st.append((n, id(object.__getattribute__(o, n))))
            except AttributeError:
                st.append((n, None))
    return sorted(st, key=lambda t: t[0])


def _residue(before, after):
    out = []
    tl0, tl1 = before[0], after[0]
    for k, v in tl1.items():
        old = tl0.get(k)
        if v[0] == "container":
            if v[1] > (old[1] if old and old[0] == "container" else 0):
                out.append("thread-local " + k)
        elif old is None or old[:2] != v[:2]:
            out.append("thread-local " + k)
    if before[1] != after[1]:
        out.append("left operand changed")
    if before[2] != after[2]:
        out.append("right operand changed")
    return out


# ------------------------------------------------------------------------------------------ T3: script cases

def is_script(case):
    return case.get("kind") == "script"


def make_script_case(case):
    """T3: the class of `case` alone; the observation is the parsed source of its generated `__eq__` (+ `__ne__`)"""
    return {"kind": "script", "fields": case["fields"], "keyPrefix": c03_ir.key_prefix()[0],
            "rhs": case["rhs"], "cfg": case["cfg"], "hist": dict(BASE_HIST)}


def observe_script(case):
    C = build(case)[2]
    return c03_ir.observe(C, classify_helper)


def _participates(f):
    return not (f["eq"] == "f" or f["cmp"] == "f")


def nontrivial(case, model):
    return any(_participates(f) for f in case["fields"])


def dist(case, obs):
    if is_script(case):
        body = (obs.get("eq") or {}).get("body", []) if isinstance(obs, dict) else []
        return {"kind": "script", "script_lines": len(obs.get("text", [])) if isinstance(obs, dict) else -1,
                "script_unknown": sum(1 for st in body if isinstance(st, dict) and "unknown" in st),
                "script_api": case.get("cfg", {}).get("api"), "script_n_fields": len(case["fields"]),
                "script_helpers": len((obs.get("eq") or {}).get("helpers", [])) if isinstance(obs, dict) else -1}
    cfg = case.get("cfg", {})
    h = case.get("hist") or {}
    own = cfg.get("own") or {}
    return {
        "kind": "operands",
        "n_fields": len(case["fields"]),
        "rhs": case["rhs"],
        "api": cfg.get("api"),
        "slots": cfg.get("slots"),
        "eqDirect": (obs.get("again") or {}).get("eqDirect") if isinstance(obs, dict) else "?",
        "first_eqDirect": (obs.get("first") or {}).get("eqDirect") if isinstance(obs, dict) else "?",
        "faults": "+".join(sorted(f"{f['fault']}/{f.get('excKind')}" for f in case["fields"] if f.get("fault", "none") != "none")) or "-",
        "unhashable_values": sum(1 for f in case["fields"] if f.get("unhashable")),
        "keys": sum(1 for f in case["fields"] if "key" in (f["cmp"], f["eq"])),
        "key_kinds": "+".join(sorted({f.get("keyKind", "fn") for f in case["fields"] if "key" in (f["cmp"], f["eq"])})) or "-",
        "okey_kinds": "+".join(sorted({f.get("okeyKind", "fn") for f in case["fields"] if f.get("order") == "key"})) or "-",
        "declared_type_of_first_field": (f"{case['fields'][0].get('ftype', 'none')}/{case['fields'][0].get('tspell', 'type=')}"
                                         if case["fields"] else "-"),
        "typed_fields": sum(1 for f in case["fields"] if f.get("ftype", "none") != "none"),
        "root": cfg.get("root"),
        "base_mode": cfg.get("base_mode"),
        "own_methods": "+".join(k for k in ("eq", "ne") if own.get(k)) or "-",
        "hashing": f"{cfg.get('hash_mode')}/{'cache' if cfg.get('cache_hash') else 'nocache'}",
        "history": f"hx={int(bool(h.get('hashedX')))} hy={int(bool(h.get('hashedY')))} "
                   f"re={int(bool(h.get('reassignedX') or h.get('reassignedY')))}",
        "sub_kind": cfg.get("sub_kind") if case["rhs"] == "sub" else "-",
        "foreign_kind": cfg.get("foreign_kind") if case["rhs"] == "foreign" else "-",
        "hash_arg": "".join(sorted({f.get("hash", "unset")[0] for f in case["fields"]})),
        "order_arg": "".join(sorted({f.get("order", "unset")[0] for f in case["fields"]})),
        "metaclass": "+".join(k for k in ("eq", "ne") if (cfg.get("meta") or {}).get(k)) or "type",
    }


# ------------------------------------------------------------------------------------------ generation

def _rand_layer(rng, nonempty=True):
    while True:
        d = {"eq": rng.choice([None, None] + OUTCOMES), "ne": rng.choice([None, None] + OUTCOMES)}
        if not nonempty or d["eq"] or d["ne"]:
            return d


def _rand_cfg(rng):
    api = rng.choice(["attr.s", "attr.s", "attr.s", "define", "define", "frozen", "mutable", "make_class"])
    cfg = {
        "api": api,
        "slots": rng.choice([None, True, False]),
        "frozen": rng.random() < 0.25,
        "cls_eq": rng.choice(["unset", "unset", "t", "cmp_t"]),
        "cls_order": rng.choice(["unset", "unset", "f", "t"]),
        "auto_detect": rng.choice([None, None, None, True, False]),
        "own": None,
        "split": rng.choice([0, 0, 1, 2]),
        "root": "object",
        "mixin": None,
        "base_mode": rng.choice(["gen", "gen", "gen", "none", "user"]),
        "base_own": None,
        "base_keep": rng.choice(["eq_false", "auto_detect"]),
        "payload_eq": rng.random() < 0.5,
        "sub_kind": rng.choice(["plain", "plain", "attrs", "attrs_noeq", "plain_user"]),
        "sub_own": None,
        "foreign_kind": rng.choice(["twin", "object", "user"]),
        "foreign_own": None,
        "hash_mode": "none",
        "cache_hash": False,
        "decoy": rng.random() < 0.2,
        "meta": None,
        "module": "hostile" if rng.random() < 0.4 else "plain",
    }
    if rng.random() < 0.3:
        cfg["meta"] = _rand_layer(rng)
    if api != "attr.s" and cfg["cls_eq"] == "cmp_t":
        cfg["cls_eq"] = "t"
    if cfg["cls_eq"] == "cmp_t":
        cfg["cls_order"] = "unset"
    # --- where other __eq__/__ne__ come from
    r = rng.random()
    if r < 0.30:
        cfg["root"] = rng.choice(list(BUILTIN_ROOTS))
    elif r < 0.50:
        cfg["root"] = "mixin"
        cfg["mixin"] = _rand_layer(rng)
    elif r < 0.55:
        cfg["root"] = "exc"
    if cfg["root"] in ("int", "tuple"):
        cfg["slots"] = False
    if cfg["base_mode"] == "user":
        cfg["base_own"] = _rand_layer(rng)
    if cfg["base_mode"] == "none":
        cfg["split"] = 0
    if cfg["sub_kind"] == "plain_user":
        cfg["sub_own"] = _rand_layer(rng)
    if cfg["foreign_kind"] == "user":
        cfg["foreign_own"] = _rand_layer(rng)
    if rng.random() < 0.25:
        cfg["own"] = _rand_layer(rng)
        if not generates(cfg):      # keep it a class for which equality IS generated
            if rng.random() < 0.5:
                cfg["cls_eq"] = "t"
            else:
                cfg["auto_detect"] = False
    # --- hashing
    r = rng.random()
    if r < 0.45:
        cfg["hash_mode"] = rng.choice(["unsafe_hash", "unsafe_hash", "hash"])
    if hash_generated(cfg) and rng.random() < 0.6:
        cfg["cache_hash"] = True
    return cfg


def _rand_hist(rng, cfg, fields, rhs):
    h = {"hashedX": False, "hashedY": False, "reassignedX": [], "reassignedY": []}
    if hash_generated(cfg):
        p = 0.75 if cfg.get("cache_hash") else 0.3
        h["hashedX"] = rng.random() < p
        h["hashedY"] = rhs == "same" and rng.random() < p
    if not eff_frozen(cfg) and fields and rng.random() < 0.35:
        names = [f["name"] for f in fields]
        side = rng.choice(["x", "y", "xy"])
        if "x" in side:
            h["reassignedX"] = sorted(rng.sample(names, rng.randint(1, len(names))))
        if "y" in side and rhs in ("same", "sub"):
            h["reassignedY"] = sorted(rng.sample(names, rng.randint(1, len(names))))
    return h


def _dress(rng, f):
    """harness-side per-field extras: hash argument, hash codes, what != answers"""
    f = dict(f)
    f["hash"] = rng.choice(["unset", "unset", "t", "f"])
    f["hashDiffers"] = (not f["sameObj"]) and rng.random() < 0.4
    f["orderKeyed"] = rng.choice(OUTCOMES)
    f["fault"] = "none"
    if rng.random() < 0.12:
        f["fault"] = rng.choice(["eqRaises", "eqRaises", "keyRaises"])
        f["excKind"] = rng.choice(list(EXC_KINDS))
    f["unhashable"] = rng.random() < 0.3
    f["reprEq"] = f["sameObj"] or rng.random() < 0.5
    f["neRaw"] = rng.choice(OUTCOMES)
    f["neKeyed"] = rng.choice(OUTCOMES)
    # which kind of callable a key function is (function / partial / object with __call__ / methodcaller / class /
    # bound method) and the field's declared type (type= or annotation): harness-only, the model reads neither
    f["keyKind"] = rng.choice(KEY_KINDS) if rng.random() < 0.6 else "fn"
    f["okeyKind"] = rng.choice(KEY_KINDS) if rng.random() < 0.5 else "fn"
    f["ftype"] = rng.choice(sorted(FIELD_TYPES)) if rng.random() < 0.5 else "none"
    f["tspell"] = rng.choice(["type=", "ann"])
    return f


def _spell(rng, fields):
    """names, aliases and __init__ participation as a dimension: private names, explicit aliases, init=False fields
    with no / a constant / a factory default (their values are put in place after construction), and aliases that
    collide with another (init=False) field's alias -- preferably between two keyed fields"""
    fs = [dict(f, init=True, dflt="none", alias=None) for f in fields]
    n = len(fs)
    if n == 0 or rng.random() < 0.55:
        return fs
    for f in fs:
        r = rng.random()
        if r < 0.15:
            f["name"] = "_" + f["name"]                      # private: alias = the public spelling
        elif r < 0.22:
            f["alias"] = "arg_" + f["name"]
        if rng.random() < 0.2:
            f.update(init=False, dflt=rng.choice(["none", "const", "const", "factory"]))
    if n >= 2 and rng.random() < 0.5:
        i, j = rng.sample(range(n), 2)
        a, b = fs[i], fs[j]
        b.update(init=False, dflt=rng.choice(["none", "const", "factory"]), alias=None)
        b["name"] = b["name"].lstrip("_")
        if rng.random() < 0.5:
            a.update(name="_" + b["name"], alias=None, init=True, dflt="none")     # `_tag` next to `tag`
        else:
            a.update(alias=b["name"], init=True, dflt="none")                      # explicit alias = other field's name
        if rng.random() < 0.7:
            for f in (a, b):
                if f["cmp"] == "unset" and f["eq"] != "f":
                    f["eq"] = "key"
                elif f["cmp"] != "unset":
                    f["cmp"] = "key"
    return fs


def _case(rng, fields, rhs):
    for _ in range(50):
        cfg = _rand_cfg(rng)
        fs = [_dress(rng, f) for f in _spell(rng, fields)]
        c = {"fields": fs, "rhs": rhs, "cfg": cfg, "hist": _rand_hist(rng, cfg, fs, rhs)}
        if valid(c):
            return _finish(c)
    raise RuntimeError("C03 generator: no valid configuration found")


def _field_space(reduced):
    for (cmp_, eq, order) in EQARGS:
        if reduced and order in ("t", "f"):
            continue
        has_key = "key" in (cmp_, eq)
        raws = OUTCOMES if not (reduced and has_key) else ["T", "F"]
        keyeds = OUTCOMES if has_key else ["F"] if reduced else OUTCOMES
        for raw in raws:
            for keyed in keyeds:
                for same in (False, True):
                    yield {"cmp": cmp_, "eq": eq, "order": order, "raw": raw, "keyed": keyed, "sameObj": same}


def _special_spelling(case):
    return case.get("cfg", {}).get("module") == "hostile" or any(f["name"].startswith("_") or f.get("alias") or f.get("init", True) is False for f in case["fields"])


def gen_cases(tier, rng):
    """ordinary cases, plus T3 script cases: one per generated class in the thorough tier, every 12th in the quick tier"""
    every = 1 if tier == "thorough" else 12
    for i, c in enumerate(_gen_operand_cases(tier, rng)):
        yield c
        # wide classes always get their script case: a size threshold in the generator shows in the text at once
        if i % every == 0 or len(c["fields"]) > len(NAMES) or _special_spelling(c):
            yield make_script_case(c)


def _gen_operand_cases(tier, rng):
    # exhaustive block over the per-field model dimensions
    kmax = 1 if tier == "quick" else 2
    yield _case(rng, [], "same")
    for rhs in RHS:
        yield _case(rng, [], rhs)
    for k in range(1, kmax + 1):
        space = list(_field_space(reduced=(k > 1)))
        for combo in itertools.product(space, repeat=k):
            for rhs in RHS:
                yield _case(rng, [dict(f, name=NAMES[i]) for i, f in enumerate(combo)], rhs)
    # random block (the time budget ends it in the quick tier)
    n = 60000 if tier == "quick" else 300000
    full = list(_field_space(reduced=False))
    for _ in range(n):
        r = rng.random()
        if r < 0.80:
            k = rng.choice([1, 2, 2, 3, 3, 4])
        elif r < 0.985:
            k = rng.randint(5, 40)          # size thresholds: every width up to 40 ...
        else:
            k = rng.choice(WIDE)            # ... and a few much wider classes
        wide = k > len(NAMES)
        fields = []
        for i in range(k):
            f = dict(rng.choice(full), name=field_name(i))
            # bias towards truthy outcomes so that long chains (and equal instances) are exercised: the wider
            # the class, the stronger
            if rng.random() < (0.97 if wide else 0.6):
                f["raw"] = rng.choice(["T", "truthy"])
                f["keyed"] = rng.choice(["T", "truthy"])
            fields.append(f)
        if wide and rng.random() < 0.6:
            # a self-unequal (NaN-like) value shared BY IDENTITY between the operands, in one or two fields
            for f in rng.sample(fields, rng.choice([1, 1, 2])):
                f.update(sameObj=True, raw=rng.choice(["F", "falsy"]), keyed=rng.choice(["F", "falsy"]))
        rhs = rng.choice(RHS + ["same", "same"] + (["identical", "same"] if wide else []))
        yield _case(rng, fields, rhs)


BASE_CFG = {"api": "attr.s", "slots": None, "frozen": False, "cls_eq": "unset", "cls_order": "unset",
            "auto_detect": None, "own": None, "split": 0, "root": "object", "mixin": None, "base_mode": "none",
            "base_own": None, "base_keep": "eq_false", "payload_eq": False, "sub_kind": "plain", "sub_own": None,
            "foreign_kind": "object", "foreign_own": None, "hash_mode": "none", "cache_hash": False, "decoy": False, "meta": None, "module": "plain"}
BASE_HIST = {"hashedX": False, "hashedY": False, "reassignedX": [], "reassignedY": []}


def _strip(case):
    return {"fields": case["fields"], "rhs": case["rhs"], "cfg": dict(case.get("cfg", {})),
            "hist": {k: case.get("hist", {}).get(k, v) for k, v in BASE_HIST.items()}}


def _emit(c):
    if valid(c):
        yield _finish(c)


def shrink(case):
    if is_script(case):
        for c in shrink(_finish(_strip(case))):
            if (c["fields"], c["cfg"]) != (case["fields"], case["cfg"]):
                yield make_script_case(c)
        return
    base = _strip(case)
    fs, cfg, hist = base["fields"], base["cfg"], base["hist"]
    for i in range(len(fs)):
        gone = fs[i]["name"]
        h2 = dict(hist, reassignedX=[n for n in hist["reassignedX"] if n != gone],
                  reassignedY=[n for n in hist["reassignedY"] if n != gone])
        yield from _emit(dict(base, fields=fs[:i] + fs[i + 1:], hist=h2))
    for k, v in BASE_CFG.items():
        if cfg.get(k) != v:
            yield from _emit(dict(base, cfg=dict(cfg, **{k: v})))
    if cfg.get("base_mode") in ("gen", "user") and cfg.get("split"):
        yield from _emit(dict(base, cfg=dict(cfg, base_mode="none", split=0)))
    for k, v in BASE_HIST.items():
        if hist[k] != v:
            yield from _emit(dict(base, hist=dict(hist, **{k: v})))
    for k in ("reassignedX", "reassignedY"):
        if len(hist[k]) > 1:
            for n in hist[k]:
                yield from _emit(dict(base, hist=dict(hist, **{k: [m for m in hist[k] if m != n]})))
    for i, f in enumerate(fs):
        for k, v in (("alias", None), ("dflt", "none"), ("init", True), ("keyKind", "fn"), ("okeyKind", "fn"),
                     ("ftype", "none"), ("tspell", "type="), ("fault", "none"), ("excKind", "user"), ("unhashable", False), ("reprEq", True),
                     ("cmp", "unset"), ("eq", "unset"), ("order", "unset"), ("orderKeyed", "T"), ("sameObj", False), ("raw", "T"), ("keyed", "T"),
                     ("hash", "unset"), ("hashDiffers", False), ("neRaw", "T"), ("neKeyed", "T")):
            if f.get(k) != v:
                yield from _emit(dict(base, fields=fs[:i] + [dict(f, **{k: v})] + fs[i + 1:]))


_CLASS_KEYS = ("keyKind", "okeyKind", "ftype", "tspell")      # per-field harness-only keys that shape the class


def neighbours(case, rng):
    if is_script(case):
        # the text differs from the model's: look for operands of that very class on which the behaviour differs
        base = _strip(case)
        for _ in range(40):
            fs = []
            for f in base["fields"]:
                g = _dress(rng, dict(f, raw=rng.choice(OUTCOMES), keyed=rng.choice(OUTCOMES), sameObj=rng.random() < 0.3))
                g["hash"], g["unhashable"] = f.get("hash", "unset"), False
                for k in _CLASS_KEYS:
                    g[k] = f.get(k, g[k])
                fs.append(g)
            rhs = rng.choice(RHS + ["same", "same", "same"])
            yield from _emit(dict(base, fields=fs, rhs=rhs, hist=dict(BASE_HIST)))
        # all fields equal but one self-unequal value, shared by identity / x compared with itself; one falsy field
        n = len(base["fields"])
        plain = [dict(_dress(rng, dict(f, raw="T", keyed="T", sameObj=False)), hash=f.get("hash", "unset"),
                      unhashable=False, fault="none", **{k: f[k] for k in _CLASS_KEYS if k in f}) for f in base["fields"]]
        for i in sorted({0, n // 2, n - 1} | set(rng.sample(range(n), min(n, 3)))) if n else []:
            for same_obj, rhs, out in ((True, "same", "F"), (True, "identical", "F"), (False, "same", "falsy"),
                                       (False, "identical", "truthy")):
                fs = [dict(f) for f in plain]
                fs[i].update(sameObj=same_obj, raw=out, keyed=out, hashDiffers=False, reprEq=True)
                yield from _emit(dict(base, fields=fs, rhs=rhs, hist=dict(BASE_HIST)))
        return
    base = _strip(case)
    for rhs in RHS:
        for _ in range(3):
            cfg = _rand_cfg(rng)
            c = dict(base, rhs=rhs, cfg=cfg, hist=_rand_hist(rng, cfg, base["fields"], rhs))
            yield from _emit(c)
        yield from _emit(dict(base, rhs=rhs, hist=dict(BASE_HIST)))
    yield from shrink(case)


LEVEL_TEXT = ("T3 (thorough tier: every sampled class; quick tier: a sample): the literal text of the generated __eq__ is checked to be "
              "exactly `genText` of the field list, its parse exactly `genEq` with every key helper bound to that field's eq key "
              "and NotImplemented to the singleton, the __ne__ in the class dict to be the shared helper and that helper's source "
              "exactly `genNe`; `C03_script_correct` proves that executing `genEq fields` is the model's generated __eq__ for every "
              "field list, operand environment and operand class, and `C03_script_transfer` that agreement makes every round of that "
              "text the model's round -- so on those classes the theorems hold for all operands of the text that runs, not only the "
              "sampled ones. The observed scripts are also executed in Lean on a canonical operand family against C03's per-round spec. Lean theorems over arbitrary field lists, arbitrary ancestor chains and arbitrary hashing histories "
              "(C03_eq_iff, C03_ne_negation, C03_other_class_notimpl, C03_other_class_identity, C03_nonparticipating_irrelevant, "
              "C03_history_irrelevant, C03_order_key_irrelevant (a per-field order= key never is an eq key), "
              "C03_class_identity_not_equality (metaclass ==/!= between classes never matters), C03_fault_propagates / "
              "C03_fault_reached_iff (an exception from a field's == or key function comes out of __eq__, __ne__, == and != "
              "exactly when every participating field before it is fault-free and truthy), C03_later_comparison_on_its_own, "
              "C03_short_circuit, "
              "C03_uses_eq_not_identity, lookupEq_gen/lookupNe_gen (the generated "
              "pair shadows every inherited or hand-written __eq__/__ne__), C03_model_meets_spec) about an executable model of "
              "_make_eq_script/__ne__/add_eq/_determine_attrib_eq_order and of the decision whether equality is generated; the "
              "model is tied to /repo by a differential correspondence over scripted ==/!=/hash outcomes x operand kinds x class "
              "facts and faults (first-round exceptions from == / key functions of 5 types, then the same pair compared again; "
              "residue in thread-locals and on the operands; unhashable key results with independently scripted reprs; per-field order= arguments with an order key of their own, metaclasses with scripted class ==/!=, hand-written methods in the class body, builtin / mixin / attrs ancestors with their own __eq__/__ne__, "
              "subclass and foreign operands with or without methods) x hashing histories (cache_hash, hash() before the "
              "comparison, fields re-assigned after hashing) x class configurations (api incl. make_class, slots, frozen, "
              "class-level eq/order/cmp, inheritance split). CPython's MRO lookup, object.__ne__ and ==/!= dispatch are "
              "modelled and observed, not proved; the history is varied by the harness only (model and spec ignore it).")
