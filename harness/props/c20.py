"""C20 -- the global validator switch is honoured everywhere and scoped correctly.

Case = the Lean `Attrs.C20.Case`: the classes of ONE hierarchy (a base class, subclasses that add validated fields
or re-declare inherited ones, siblings, optionally a plain class in between), each described by its resolved field
list (api, class-level and per-field on_setattr as lists of elementary hooks, per field the length of its validator
chain, whether it has a converter, whether it is an `__init__` parameter (`init=False` fields with a default are
still set and validated by the initializer) and its default (none / value / Factory / takes_self factory, also
written as `@x.default`); per class its `__attrs_pre_init__` /
`__attrs_post_init__` hooks and `kw_only`), the one callback that raises (`fault`), the switch position at the start and
a history of operations {set_disabled(v), set_run_validators(v), get_disabled, get_run_validators, enter
disabled(), exit, exit by exception, construct class k, assign field i of the instance of class k,
validate(instance of class k)} -- the readers range over instances of several classes within one history, in any
order; plus harness-only data the model ignores: `hier` (who inherits from whom, which fields are own -- the
`classes` are derived from it) and `cfg` (slots, how each validator chain is written, whether the classes were
defined while validators were disabled, whether the context-manager objects were created up front, which exception
leaves the block, through which namespace the accessors are reached, with-statements or explicit calls, whether
construction goes through `__init__` or (init=False) a manual `__attrs_init__`, whether the hierarchy is rooted in
`Exception`).  A construction records EVERY user callback -- pre-init hook, factories, converters, validators,
post-init hook -- and the specification demands the non-validator ones identically with the switch on and off.

Field values are small lists (mutable, identity matters).  An assignment binds the attribute to a fresh object,
to the very object it currently holds (`c.x = c.x`), to an equal copy, or performs a real augmented assignment
(`c.x += [...]`); what the attribute holds at that moment was stored without any validation (instances are first
built without the initializer), by an earlier assignment or by the last construction of that class -- any of them
possibly while validators were disabled.  The model ignores the value (C20_assign_value_irrelevant).

One callback of the hierarchy (`probe`: a validator, converter, factory, user hook, pre- or post-init hook) may
carry a `body`: nested operations it performs every time it is called during an operation of the history --
read the getters, construct / assign / validate other instances, open a `disabled()` block of its own and flip the
switch inside it (as a whole a body gives the switch back as it found it).  What the nested operations observe
is recorded per call (`nested`) and judged by the same step rules, starting from the switch position observed
before the outer operation (moved only by earlier runs of the body during the same operation): no operation may
move the switch on the way to, or around, its callbacks.  A body may also leave the switch flipped (a converter
calling `set_disabled(True)`): the construction's validators then follow the switch as it is when the validators
step is reached -- the fixed reading of "iff enabled" -- and the harness puts the switch back after the operation.

Classes are created fresh for every case (nothing a reader may memoise on a class survives into another case, so
replays are exact).  Every validator checks that it is called with the Attribute of the instance's own class and
that it belongs to that attribute's validator chain; otherwise the event is logged as `validator-foreign`.

The context managers are driven either by explicit `__enter__`/`__exit__` calls (what a `with` statement does) or
(cfg.realWith) by real `with` statements nested dynamically through recursion, the exceptional exit being a `raise`
inside the block that is caught outside it; one fresh `disabled()` object per enter, exits always on the innermost
open one.  Every case sets the switch itself at the
start, closes what it left open and puts the switch back to "enabled" in `finally`, so cases are self-contained
(safe in forked workers: the switch is per process).
"""
from __future__ import annotations

import itertools
import json

import attr
import attrs
from attr import setters

import common

ID = "C20"
RULE = ("cases = class hierarchy (1-3 attrs classes: base, subclasses adding/re-declaring validated fields, siblings) x "
        "faulty validator x start position x operation history whose readers each name the class whose instance they "
        "work on (fields incl. init=False ones with every kind of default), each field spelt plainly / as a private name / with an explicit alias, validator chains written as function / list / tuple / and_ / nested and_ / decorator / a callable-but-falsy object, optionally one callback performing nested operations (reads, readers on other instances, own blocks with flips) whenever it is called; every assignment says which object it binds (fresh / the stored one / equal copy / +=); sweeps: every reader over the classes of a hierarchy in every order, twice, enabled / after a "
        "disabled pass; thorough: ALL histories of "
        "length <= 5 over {set_disabled(T/F), set_run_validators(T/F), enter, exit, exit-by-exception, construct, "
        "assign, validate} that never exit with nothing open (closed at the end), from both start positions, each on a "
        "hierarchy from a structured pool with seeded reader targets; quick: all such histories of length <= 3 plus seeded random histories of length "
        "<= 12, nesting <= 4, incl. non-bool arguments and the get operations, on random classes; non-trivial = the "
        "history moves or scopes the switch and runs a reader (construct/assign/validate) on a class with a "
        "validator; distinct = distinct JSON case")
ASSUMPTIONS = [
    "blocks are entered/left LIFO on fresh validators.disabled() objects, through explicit __enter__/__exit__ calls (60%) or real nested with statements (40%)",
    "recording callbacks stand for arbitrary validators/converters/hooks: which ran, in which order, and which one raised is what is compared",
    "the inheritance relation between the classes of a case is harness-only: the model judges every reader by the resolved field list of the class named (C20_readers_memoryless); all classes of a hierarchy use the same front-end and class-level on_setattr; a plain class in between only for dict classes (K6 concerns slotted ones)",
    "single-threaded use (the switch is documented as not thread-safe)",
    "class options the switch semantics must not depend on are harness-only variation: slots, kw_only, cache_hash(+unsafe_hash), auto_exc exception classes, __attrs_init__, and frozen (frozen=True / attrs.frozen / inherited from a frozen root) on hook-less hierarchies, where assignments of the history become validate() of the same instance (a frozen instance cannot be assigned to)",
    "FIXED READING of an ambiguity ('iff globally enabled' -- at which instant?): a construction follows the switch as it is when its validators step is reached, i.e. after the pre-init hook, factories and converters of that construction ran (what the unchanged code does); set_disabled()/set_run_validators() called from inside such a callback is a switch operation like any other; validate(inst) reads the switch once when called",
    "callback bodies close the blocks they open; they may leave the switch flipped (setters outside blocks) unless the probing callback can run during one of the history's assignments (each hook of an assignment reads the switch for itself; flips between them are not modelled); after an operation whose callback bodies can leave the switch flipped the harness puts the switch back to the position the operation found, so the history continues from there; nested readers' own callbacks have no bodies (depth 1)",
    "construction is modelled through the shared initializer model (Model/Init.lean), tied to the code by the C01/C02 correspondence as well",
    "how the class body spells a field is harness-only variation the model is independent of (cfg.pyNames, one spelling per field name and hierarchy): as in the model / private `_x` (init alias `x`) / explicit alias='al_x'; constructions pass the alias, assignments use the attribute name, callbacks report the model's name; likewise how a validator chain is written, incl. style 'falsy': one user-written callable validator object with len() == 0 that runs the chain's members in order -- every reader must run it exactly like a truthy one",
]
EXHAUSTIVE = {"quick": False, "thorough": True}
BUDGET_S = {"quick": 26, "thorough": 420}
TABLES = ["defaultOnSetattr", "attrsKw", "defineKw", "attribKw", "fieldKw", "fn_setters_validate"]
PARALLEL = True   # each case sets, scopes and restores the (per-process) switch itself

LOG: list = []
FAULT = [None]
PROBE = [None]        # (kind, field, idx) of the callback whose body performs the nested operations
RUN_BODY = [None]     # set by the observer: runs the nested operations once and files what they observed
NESTING = [False]

ARGS = {"T": True, "F": False, "int0": 0, "int1": 1, "float1": 1.0, "pyNone": None, "str": "x", "emptyStr": ""}
NONBOOL = ["int0", "int1", "float1", "pyNone", "str", "emptyStr"]
NAMES = ["x", "y", "z", "w", "a_b"]
CHAINS = [["validate"], ["validate"], ["convert"], ["convert", "validate"], ["validate", "convert"], ["custom"],
          ["custom", "validate"], ["validate", "custom"], ["custom", "convert", "validate"], ["validate", "validate"], []]
EXC_KINDS = ["valueError", "user", "keyboardInterrupt", "stopIteration", "generatorExit", "systemExit"]
_EXC_OUT = {"typeError", "attributeError", "frozenInstance", "valueError", "notFound"}


def chain(l):
    return {"chain": {"l": list(l)}}


# ------------------------------------------------------------------------------------------ callbacks
def _hit(kind, field, idx):
    field = field.lstrip("_")          # callbacks report the model's field name (cfg.pyNames: real name `_x`)
    LOG.append({"kind": kind, "field": field, "idx": idx})
    if PROBE[0] == (kind, field, idx) and not NESTING[0] and RUN_BODY[0] is not None:
        RUN_BODY[0]()                 # the callback does its nested work, then returns or raises as usual
    if FAULT[0] == (kind, field, idx):
        raise common.UserError(f"{kind}.{field}.{idx}")


def _in_chain(fn, v):
    if v is fn:
        return True
    return any(_in_chain(fn, m) for m in getattr(v, "_validators", ()))


def mk_validator(i):
    def v(inst, a, value):
        kind = "validator"
        try:
            cur = getattr(attr.fields(type(inst)), a.name)
            if cur is not a or not _in_chain(v, cur.validator):
                kind = "validator-foreign"     # somebody else's Attribute / validator was used for this instance
        except Exception:  # noqa: BLE001
            kind = "validator-foreign"
        _hit(kind, a.name, i)
    return v


class _FalsyChain:
    """a user-written validator object that is callable but falsy (sized, `len() == 0`): runs its members in order"""

    def __init__(self, vs):
        self._validators = tuple(vs)

    def __len__(self):
        return 0

    def __call__(self, inst, a, value):
        for v in self._validators:
            v(inst, a, value)


def py_name(cfg, name):
    """the attribute name the class body really uses for the model's field `name` (cfg.pyNames, per hierarchy)"""
    return "_" + name if (cfg.get("pyNames") or {}).get(name) == "private" else name


def py_alias(cfg, name):
    """the `__init__` parameter: private names lose the underscore, explicit `alias=` otherwise"""
    return "al_" + name if (cfg.get("pyNames") or {}).get(name) == "alias" else name


def mk_converter(name):
    def c(value):
        _hit("conv", name, 0)
        return value
    return c


def mk_factory(name, takes_self):
    if takes_self:
        def fac(self):
            _hit("factory", name, 0)
            return ["d." + name]
    else:
        def fac():
            _hit("factory", name, 0)
            return ["d." + name]
    return fac


def _dflt_kind(f):
    """none | value | factory | factorySelf"""
    d = f.get("dflt", "none")
    if isinstance(d, str):
        return d
    return "factorySelf" if d["factory"]["takesSelf"] else "factory"


def _passed(f):
    """a construction passes exactly the mandatory parameters"""
    return f.get("init", True) and _dflt_kind(f) == "none"


def _pre_noargs(self):
    _hit("pre", "", 0)


def _pre_withargs(self, *args, **kwargs):
    _hit("pre", "", 0)


def _post(self):
    _hit("post", "", 0)


def mk_hook(pos):
    def h(inst, a, value):
        _hit("hook", a.name, pos)
        return value
    return h


def _on_setattr(hook, bare):
    """Hook JSON -> keyword arguments"""
    if hook == "unset":
        return {}
    if hook == "noOp":
        return {"on_setattr": setters.NO_OP}
    fns = []
    for pos, p in enumerate(hook["chain"]["l"]):
        fns.append(mk_hook(pos) if p == "custom" else {"convert": setters.convert, "validate": setters.validate}[p])
    if len(fns) == 1 and bare:
        return {"on_setattr": fns[0]}
    return {"on_setattr": fns}


def _mk_field(f, is_define, bare, cfg=None):
    n = f["validators"]
    style = f.get("style", "list")
    vs = [mk_validator(i) for i in range(n)]
    kw = dict(_on_setattr(f["onSet"], bare))
    if py_alias(cfg or {}, f["name"]) != f["name"]:
        kw["alias"] = py_alias(cfg, f["name"])
    if f["conv"]:
        kw["converter"] = mk_converter(f["name"])
    dk = _dflt_kind(f)
    ddeco = None
    if dk == "value":
        kw["default"] = ["dv." + f["name"]]
    elif dk == "factory":
        kw["factory"] = mk_factory(f["name"], False)
    elif dk == "factorySelf":
        if f.get("dstyle") == "decorator":
            ddeco = mk_factory(f["name"], True)           # @x.default
        else:
            kw["default"] = attr.Factory(mk_factory(f["name"], True), takes_self=True)
    if not f.get("init", True):
        kw["init"] = False
    deco = None
    if n >= 1 and style == "falsy":
        kw["validator"] = _FalsyChain(vs)
    elif n == 1:
        if style == "deco":
            deco = vs[0]
        elif style in ("list", "and_", "nested"):
            kw["validator"] = [vs[0]] if style == "list" else attr.validators.and_(vs[0])
        else:
            kw["validator"] = vs[0]
    elif n >= 2:
        if style == "deco":
            kw["validator"] = vs[:-1] if n > 2 else vs[0]
            deco = vs[-1]
        elif style == "and_":
            kw["validator"] = attr.validators.and_(*vs)
        elif style == "nested":
            kw["validator"] = attr.validators.and_(attr.validators.and_(*vs[:-1]), vs[-1])
        elif style == "tuple":
            kw["validator"] = tuple(vs)
        else:
            kw["validator"] = list(vs)
    ca = (attrs.field if is_define else attr.ib)(**kw)
    if deco is not None:
        ca.validator(deco)
    if ddeco is not None:
        ca.default(ddeco)
    return ca


def _strip(f):
    g = {k: f[k] for k in ("name", "validators", "conv", "onSet", "style", "dstyle") if k in f}
    g["init"] = bool(f.get("init", True))
    g["dflt"] = f.get("dflt", "none")
    return g


def resolve(hier):
    """the Lean-side `classes`: for every node its resolved field list (inherited fields that are not re-declared,
    in the base's order, then the own ones), as attrs collects them along a single-inheritance chain"""
    out = []
    for node in hier["nodes"]:
        own = [_strip(f) for f in node["own"]]
        names = {f["name"] for f in own}
        par = None if node["parent"] is None else out[node["parent"]]
        inherited = [] if par is None else [f for f in par["fields"] if f["name"] not in names]
        # the hooks are found with getattr: the nearest definition along the chain
        pre = node.get("pre", "none")
        if pre == "none" and par is not None:
            pre = par["pre"]
        post = bool(node.get("post", False)) or (par is not None and par["post"])
        out.append({"isDefine": hier["isDefine"], "clsOnSet": hier["clsOnSet"], "kwOnly": bool(hier.get("kwOnly", False)),
                    "pre": pre, "post": post, "fields": inherited + own})
    return out


def _hookless(hier):
    return hier["clsOnSet"] == "unset" and all(f["onSet"] == "unset" for nd in hier["nodes"] for f in nd["own"])


def _no_assign(ops):
    """frozen instances cannot be assigned to: the assignment becomes a validate() of the same instance"""
    return [({"validate": {"k": o["assign"]["k"]}} if isinstance(o, dict) and "assign" in o else o) for o in ops]


def mk_case(hier, fault, start, ops, cfg, probe=None, body=()):
    body = list(body) if probe else []
    cfg = dict(cfg)
    if cfg.get("frozen"):
        # class options the switch must not depend on: frozen classes cannot have on_setattr hooks
        if _hookless(hier):
            ops, body = _no_assign(ops), _no_assign(body)
        else:
            cfg["frozen"] = None
    return {"classes": resolve(hier), "hier": hier, "fault": fault, "probe": probe, "body": body,
            "start": start, "ops": ops, "cfg": cfg}


_BUILDS = [0]


def _has_assign(case):
    return any(isinstance(o, dict) and "assign" in o for o in list(case["ops"]) + list(case.get("body") or []))


def build(case):
    """fresh real classes for every case: [(class, resolved field names)] per node"""
    hier, cfg = case["hier"], case.get("cfg", {})
    is_define = hier["isDefine"]
    bare = cfg.get("bare", True)
    kw = {}
    if cfg.get("slots") is not None:
        kw["slots"] = cfg["slots"]
    eff_slots = cfg["slots"] if cfg.get("slots") is not None else is_define
    # a one-element class-level chain is passed bare (setters.validate itself), as the model's reading assumes
    kw.update(_on_setattr(hier["clsOnSet"], True))
    if hier.get("kwOnly"):
        kw["kw_only"] = True
    if cfg.get("attrsInit"):
        kw["init"] = False            # the same script becomes `__attrs_init__`
    if cfg.get("exc") and not is_define:
        kw["auto_exc"] = True
    frozen = cfg.get("frozen") if _hookless(hier) and not _has_assign(case) else None
    if cfg.get("cacheHash") and not cfg.get("exc") and not cfg.get("attrsInit"):
        kw["cache_hash"] = True
        kw["unsafe_hash"] = True
    deco = attrs.define if is_define else attr.s
    _BUILDS[0] += 1
    if _BUILDS[0] % 2000 == 0:
        common.purge_linecache()
    attr.set_run_validators(not cfg.get("buildDisabled", False))
    classes = []
    for k, node in enumerate(hier["nodes"]):
        base = (Exception if cfg.get("exc") else object) if node["parent"] is None else classes[node["parent"]]
        if node.get("plain") and node["parent"] is not None and not eff_slots:
            base = type("Plain%d" % k, (base,), {})
        ns = {py_name(cfg, f["name"]): _mk_field(f, is_define, bare, cfg) for f in node["own"]}
        if node.get("pre", "none") != "none":
            ns["__attrs_pre_init__"] = _pre_noargs if node["pre"] == "noArgs" else _pre_withargs
        if node.get("post"):
            ns["__attrs_post_init__"] = _post
        kwk, dk = dict(kw), deco
        if frozen == "attrs.frozen" and is_define:
            dk = attrs.frozen                                  # define(frozen=True, on_setattr=None)
        elif frozen in ("direct", "attrs.frozen") or (frozen == "inherited" and node["parent"] is None):
            kwk["frozen"] = True                               # "inherited": only the root says so
        classes.append(dk(**kwk)(type("K%d" % k, (base,), ns)))
    return [(K, [py_name(cfg, f["name"]) for f in c["fields"]],
             [py_alias(cfg, f["name"]) for f in c["fields"] if _passed(f)])
            for K, c in zip(classes, case["classes"])]


def _b3(thunk):
    try:
        v = thunk()
    except BaseException:  # noqa: BLE001
        return "other"
    return "t" if v is True else "f" if v is False else "other"


def _exc(e):
    k = common.exc_kind(e)
    if k.startswith("user:"):
        return "user"
    return k if k in _EXC_OUT else "other"


def _mk_exc(kind):
    return {"valueError": ValueError("boom"), "user": common.UserError("block"),
            "keyboardInterrupt": KeyboardInterrupt(), "stopIteration": StopIteration("s"),
            "generatorExit": GeneratorExit(), "systemExit": SystemExit(3)}[kind]


def _op(op):
    """(kind, arguments dict)"""
    if isinstance(op, str):
        return op, {}
    (k, v), = op.items()
    return k, v


def observe(case):
    open_cms = []
    try:
        return _observe(case, open_cms)
    finally:
        # close what the history left open (innermost first), then put the switch back
        while open_cms:
            try:
                open_cms.pop().__exit__(None, None, None)
            except BaseException:  # noqa: BLE001
                pass
        try:
            attr.set_run_validators(True)
        except BaseException:  # noqa: BLE001
            pass
        attr._config._run_validators = True
        FAULT[0] = None
        PROBE[0] = None
        RUN_BODY[0] = None
        NESTING[0] = False
        del LOG[:]


def _observe(case, open_cms):
    cfg = case.get("cfg", {})
    try:
        built = build(case)
    finally:
        attr.set_run_validators(True)
    ns = attrs if cfg.get("via") == "attrs" else attr
    V = ns.validators
    get_run, set_run = attr.get_run_validators, attr.set_run_validators
    validate = ns.validate
    # the instances that assign / validate work on, one per class: built without the initializer
    # (a second set for the operations performed from inside callbacks)
    def fresh_insts():
        out = []
        for K, names, _ in built:
            inst = K.__new__(K)
            for n in names:
                object.__setattr__(inst, n, ["v." + n])      # stored without ever passing a validator
            out.append(inst)
        return out

    insts, insts2 = fresh_insts(), fresh_insts()
    f = case.get("fault")
    FAULT[0] = (f["kind"], f["field"], f["idx"]) if f else None
    early = [V.disabled() for _ in case["ops"]] if cfg.get("earlyCm") else None
    exc_kinds = cfg.get("excKinds") or ["valueError"]
    n_exc = [0]
    ops = case["ops"]
    steps, nested, pending = [], [], []
    del LOG[:]

    def record(ret=None, exc=None, swallowed=False, into=None):
        (steps if into is None else into).append(
            {"disabled": _b3(V.get_disabled), "run": _b3(get_run), "ret": ret, "exc": exc,
             "swallowed": swallowed, "events": list(LOG)})
        del LOG[:]
        if into is None:               # an operation of the history: file what its callbacks' bodies observed
            nested.append(list(pending))
            del pending[:]

    def next_exc():
        err = _mk_exc(exc_kinds[n_exc[0] % len(exc_kinds)])
        n_exc[0] += 1
        return err

    def new_cm():
        return early.pop() if early else V.disabled()

    def simple(k, a, into=None, on=None):
        """an operation that is not a bracket"""
        on = insts if on is None else on
        ret = exc = None
        before = get_run() if (into is None and flipping and k in READERS) else None
        try:
            if k == "setDisabled":
                V.set_disabled(ARGS[a["a"]])
            elif k == "setRun":
                set_run(ARGS[a["a"]])
            elif k == "getDisabled":
                ret = _b3(V.get_disabled)
            elif k == "getRun":
                ret = _b3(get_run)
            elif k == "construct":
                K, _, passed = built[a["k"]]
                vals = {n: ["v." + n] for n in passed}
                if cfg.get("attrsInit"):
                    new = K.__new__(K)
                    new.__attrs_init__(**vals)
                else:
                    new = K(**vals)
                # later assignments / validate() work on the instance built last (possibly while disabled)
                if cfg.get("adopt", True):
                    on[a["k"]] = new
            elif k == "assign":
                inst, n = on[a["k"]], built[a["k"]][1][a["i"]]
                how = a.get("v", "fresh")
                if how == "fresh":
                    setattr(inst, n, ["w." + n])
                elif how == "same":              # re-bind the attribute to the very object it holds
                    setattr(inst, n, getattr(inst, n))
                elif how == "equal":             # an equal but distinct object
                    setattr(inst, n, list(getattr(inst, n)))
                else:                            # a real augmented assignment: in-place change, then re-binding
                    exec("inst.%s += ['+']" % n, {"inst": inst})
            elif k == "validate":
                validate(on[a["k"]])
            else:
                raise AssertionError(k)
        except AssertionError:
            raise
        except IndexError:
            exc = "other"
        except BaseException as e:  # noqa: BLE001
            exc = _exc(e)
        if before is True or before is False:
            # the callbacks' switch operations took effect inside the operation (that is what is under test);
            # the history itself continues from the position the operation found
            try:
                set_run(before)
            except BaseException:  # noqa: BLE001
                pass
        record(ret, exc, into=into)

    def manual(ops, cms, into=None, on=None, cm_factory=new_cm):
        """explicit __enter__/__exit__ calls on the manager objects"""
        for op in ops:
            k, a = _op(op)
            if k not in ("enter", "exit", "exitExc"):
                simple(k, a, into, on)
                continue
            exc, swallowed = None, False
            try:
                if k == "enter":
                    cm = cm_factory()
                    cm.__enter__()
                    cms.append(cm)
                elif k == "exit":
                    swallowed = bool(cms.pop().__exit__(None, None, None))
                else:
                    cm = cms.pop()
                    try:
                        raise next_exc()
                    except BaseException as e2:  # noqa: BLE001
                        swallowed = bool(cm.__exit__(type(e2), e2, e2.__traceback__))
            except IndexError:
                exc = "other"
            except BaseException as e:  # noqa: BLE001
                exc = _exc(e)
            record(None, exc, swallowed, into=into)

    body = case.get("body") or []
    flipping = bool(body) and not _neutral(body)

    def run_body():
        """what the probing callback does when it is called: the nested operations, on instances of their own,
        observed like a history of its own; the caller's event log is put back afterwards"""
        NESTING[0] = True
        saved = LOG[:]
        del LOG[:]
        inv, cms = [], []
        try:
            manual(body, cms, into=inv, on=insts2, cm_factory=V.disabled)
        finally:
            while cms:
                try:
                    cms.pop().__exit__(None, None, None)
                except BaseException:  # noqa: BLE001
                    pass
            LOG[:] = saved
            NESTING[0] = False
        pending.append(inv)

    pr = case.get("probe")
    PROBE[0] = (pr["kind"], pr["field"], pr["idx"]) if pr else None
    RUN_BODY[0] = run_body if pr else None
    set_run(bool(case["start"]))

    def block(i):
        """real, dynamically nested `with` statements: runs ops[i:] at the current nesting level and returns
        (index after the exit that closes this level, how it is closed)"""
        while i < len(ops):
            k, a = _op(ops[i])
            if k == "enter":
                how, err, entered, swallowed, exc = "eof", None, False, False, None
                try:
                    with new_cm():
                        entered = True
                        record()
                        i, how = block(i + 1)
                        if how == "exitExc":
                            err = next_exc()
                            raise err
                    swallowed = how == "exitExc"     # reached only if the exception did not propagate
                except BaseException as e:  # noqa: BLE001
                    if err is None or e is not err:
                        exc = _exc(e)
                        if not entered:              # __enter__ itself failed: go on without a context
                            record(None, exc)
                            i, how = block(i + 1)
                            exc = "other"
                if how != "eof":
                    record(None, exc, swallowed)
            elif k in ("exit", "exitExc"):
                return i + 1, k
            else:
                simple(k, a)
                i += 1
        return i, "eof"

    if cfg.get("realWith"):
        block(0)
    else:
        manual(ops, open_cms)
    return {"steps": steps, "nested": nested}


# ------------------------------------------------------------------------------------------ generators
READERS = ("construct", "assign", "validate")
ASSIGN_VALS = ["fresh", "same", "same", "equal", "iadd"]


def _depths(ops):
    d, out = 0, []
    for op in ops:
        k, _ = _op(op)
        if k == "enter":
            d += 1
        elif k in ("exit", "exitExc"):
            d -= 1
            if d < 0:
                return None
        out.append(d)
    return out


FACTORY = {"factory": {"takesSelf": False}}
FACTORY_SELF = {"factory": {"takesSelf": True}}


def _fld(name, validators=1, conv=False, on_set="unset", style="list", factory=False, init=True, dflt=None,
         dstyle="factory"):
    return {"name": name, "validators": validators, "conv": conv, "onSet": on_set, "style": style,
            "init": init, "dflt": dflt if dflt is not None else (FACTORY if factory else "none"), "dstyle": dstyle}


def _needs_kw(nodes):
    """a defaulted parameter may precede mandatory ones only if everything is keyword-only"""
    return any(f.get("init", True) and _dflt_kind(f) != "none" for nd in nodes for f in nd["own"])


def _node(parent, *own, plain=False, pre="none", post=False):
    return {"parent": parent, "plain": plain, "pre": pre, "post": post, "own": list(own)}


def _hier(is_define, cls_on_set, *nodes):
    kw = _needs_kw(nodes)
    return {"isDefine": is_define, "clsOnSet": cls_on_set, "kwOnly": kw, "nodes": list(nodes)}


def _v(field, idx):
    return {"kind": "validator", "field": field, "idx": idx}


V_CHAIN = chain(["validate"])
# (hierarchy, faulty callback)
POOL = [
    (_hier(False, "unset", _node(None, _fld("x"))), _v("x", 0)),                                   # attr.s, no hook
    (_hier(False, V_CHAIN, _node(None, _fld("x"))), _v("x", 0)),                                   # attr.s + setters.validate
    (_hier(False, "unset", _node(None, _fld("x", on_set=V_CHAIN))), _v("x", 0)),                   # field-level hook
    (_hier(True, "unset", _node(None, _fld("x"))), _v("x", 0)),                                    # define default
    (_hier(True, "unset", _node(None, _fld("x", 2, True), _fld("y", 1, True))), _v("x", 1)),       # and_ chain, 2nd fails
    (_hier(True, chain(["custom", "validate"]), _node(None, _fld("x", 1, True))), None),
    (_hier(True, "unset", _node(None, _fld("x", 1, True, "noOp"), _fld("y", 1))), _v("y", 0)),
    (_hier(True, "unset", _node(None, _fld("x", 1, False, chain(["validate", "validate"])))), None),
    # init hooks and factories around the validator block
    (_hier(True, "unset", _node(None, _fld("x"), post=True)), None),
    (_hier(False, "unset", _node(None, _fld("x", 1, True), _fld("y", 1), pre="noArgs", post=True)), _v("y", 0)),
    (_hier(False, V_CHAIN, _node(None, _fld("x", 2, True, factory=True), _fld("y", 0, True), pre="withArgs", post=True)), _v("x", 1)),
    (_hier(True, "unset", _node(None, _fld("x", 0, True), post=True)), None),                      # no validator: no guard
    (_hier(True, "unset", _node(None, _fld("x", 0, True), pre="noArgs", post=True), _node(0, _fld("y", 1, factory=True))), None),
    (_hier(False, "unset", _node(None, _fld("x"), post=True), _node(0, _fld("y", 2), pre="withArgs"), _node(0, _fld("x", 0), post=True)), _v("y", 0)),
    # validated fields that are not __init__ parameters, every kind of default
    (_hier(True, "unset", _node(None, _fld("x"), _fld("d", 1, init=False, dflt="value"))), _v("d", 0)),
    (_hier(False, "unset", _node(None, _fld("x", 0), _fld("d", 2, True, init=False, dflt=FACTORY), post=True)), None),
    (_hier(True, V_CHAIN, _node(None, _fld("x"), _fld("d", 1, init=False, dflt=FACTORY_SELF)),
           _node(0, _fld("e", 1, True, init=False, dflt=FACTORY_SELF, dstyle="decorator"))), _v("e", 0)),
    (_hier(False, "unset", _node(None, _fld("d", 1, init=False, dflt="value"), _fld("x", 1, dflt="value"))), None),
    # base + subclass that adds a validated field
    (_hier(True, "unset", _node(None, _fld("x", 1, True)), _node(0, _fld("y", 1))), None),
    (_hier(False, "unset", _node(None, _fld("x")), _node(0, _fld("y", 2))), _v("y", 1)),
    (_hier(False, V_CHAIN, _node(None, _fld("x")), _node(0, _fld("y"), plain=True)), _v("y", 0)),
    # base + subclass that re-declares the base's field (more / fewer / no validators)
    (_hier(True, "unset", _node(None, _fld("x", 1)), _node(0, _fld("x", 2, True))), None),
    (_hier(False, V_CHAIN, _node(None, _fld("x", 2), _fld("y", 1)), _node(0, _fld("x", 1))), _v("x", 0)),
    # base, adding sibling, re-declaring sibling
    (_hier(False, "unset", _node(None, _fld("x")), _node(0, _fld("y")), _node(0, _fld("x", 2))), None),
    (_hier(True, "unset", _node(None, _fld("x", 1, True)), _node(0, _fld("y", 1, True)), _node(0, _fld("x", 3))), _v("y", 0)),
    # three levels, the middle one adds nothing validated
    (_hier(False, chain(["convert", "validate"]), _node(None, _fld("x", 1, True)), _node(0, _fld("y", 0, True)),
           _node(1, _fld("z", 2), plain=True)), _v("z", 1)),
    (_hier(True, "unset", _node(None, _fld("x", 2)), _node(0), _node(1, _fld("x", 1), _fld("w", 1))), None),
]
MULTI = [hf for hf in POOL if len(hf[0]["nodes"]) > 1]

ALPHA = [{"setDisabled": {"a": "T"}}, {"setDisabled": {"a": "F"}}, {"setRun": {"a": "T"}}, {"setRun": {"a": "F"}},
         "enter", "exit", "exitExc", "construct", "assign", "validate"]


def _style(n, rng):
    if n <= 1:
        return rng.choice(["single", "single", "list", "and_", "deco", "falsy"])
    return rng.choice(["list", "list", "and_", "deco", "nested", "tuple", "falsy"])


def _restyle(hier, rng):
    return dict(hier, nodes=[dict(nd, own=[dict(f, style=_style(f["validators"], rng)) for f in nd["own"]])
                             for nd in hier["nodes"]])


def _rand_cfg(rng):
    return {
        "slots": rng.choice([None, None, True, False]),
        "bare": rng.random() < 0.5,
        "buildDisabled": rng.random() < 0.35,
        "earlyCm": rng.random() < 0.35,
        "excKinds": [rng.choice(EXC_KINDS) for _ in range(3)],
        "via": rng.choice(["attr", "attrs"]),
        "realWith": rng.random() < 0.4,
        "adopt": rng.random() < 0.7,
        "attrsInit": rng.random() < 0.2,
        "exc": rng.random() < 0.15,
        "frozen": rng.choice([None, None, None, "direct", "attrs.frozen", "inherited"]),
        "cacheHash": rng.random() < 0.2,
        # how the class body spells each field: as in the model / private `_x` (alias x) / explicit alias=
        "pyNames": {n: rng.choice(["plain", "plain", "private", "alias"]) for n in NAMES} if rng.random() < 0.6 else {},
    }


def _target(classes, rng, kind):
    """bind a reader to a class (and field) of the hierarchy"""
    ks = [k for k, c in enumerate(classes) if kind != "assign" or c["fields"]]
    if not ks:
        return None
    k = rng.choice(ks)
    if kind == "assign":
        return {"assign": {"k": k, "i": rng.randrange(len(classes[k]["fields"])), "v": rng.choice(ASSIGN_VALS)}}
    return {kind: {"k": k}}


def _bind(ops, classes, rng):
    out = []
    for op in ops:
        if op in READERS:
            op = _target(classes, rng, op) or {"validate": {"k": 0}}
        out.append(op)
    return out


def _close(ops, rng):
    d = _depths(ops)
    depth = d[-1] if d else 0
    return list(ops) + [rng.choice(["exit", "exitExc"]) for _ in range(depth)]


def _enumerate(max_len):
    """all histories over ALPHA of length <= max_len that never exit with nothing open"""
    def rec(prefix, depth):
        yield prefix
        if len(prefix) == max_len:
            return
        for op in ALPHA:
            if op == "enter":
                yield from rec(prefix + [op], depth + 1)
            elif op in ("exit", "exitExc"):
                if depth > 0:
                    yield from rec(prefix + [op], depth - 1)
            else:
                yield from rec(prefix + [op], depth)
    yield from rec([], 0)


def _rand_hook(rng, p_unset):
    r = rng.random()
    if r < p_unset:
        return "unset"
    if r < p_unset + 0.1:
        return "noOp"
    return chain(rng.choice(CHAINS))


def _rand_default(rng):
    r = rng.random()
    if r < 0.62:
        return {}
    dflt = rng.choice(["value", FACTORY, FACTORY_SELF])
    return {"init": rng.random() < 0.45, "dflt": dflt}      # init=False only together with a default


def _rand_field(rng, name):
    n = rng.choice([0, 1, 1, 1, 2, 3])
    return {"name": name, "validators": n, "conv": rng.random() < 0.45, "onSet": _rand_hook(rng, 0.6),
            "style": _style(n, rng), "init": True, "dflt": "none", "dstyle": rng.choice(["factory", "decorator"]),
            **_rand_default(rng)}


def _rand_hier(rng):
    """1-3 attrs classes: chains and forks; subclasses add fields and/or re-declare inherited ones"""
    n_nodes = rng.choice([1, 2, 2, 2, 3, 3])
    names = NAMES[:] if rng.random() < 0.7 else rng.sample(NAMES, len(NAMES))
    nodes, resolved_names, fresh = [], [], 0
    for k in range(n_nodes):
        parent = None if k == 0 else rng.randrange(k)
        own = []
        if parent is not None:
            inh = resolved_names[parent]
            for nm in inh:
                if rng.random() < 0.3:            # re-declare
                    own.append(_rand_field(rng, nm))
        n_new = rng.choice([1, 1, 2]) if k == 0 else rng.choice([0, 1, 1, 2])
        for _ in range(n_new):
            if fresh < len(names):
                own.append(_rand_field(rng, names[fresh]))
                fresh += 1
        rng.shuffle(own)
        own_names = {f["name"] for f in own}
        resolved_names.append(([] if parent is None else [n for n in resolved_names[parent] if n not in own_names])
                              + [f["name"] for f in own])
        nodes.append({"parent": parent, "plain": parent is not None and rng.random() < 0.3,
                      "pre": rng.choice(["none", "none", "none", "noArgs", "withArgs"]) if k == 0 or rng.random() < 0.3 else "none",
                      "post": rng.random() < (0.5 if k == 0 else 0.2), "own": own})
    any_factory = _needs_kw(nodes)
    hier = {"isDefine": rng.random() < 0.5, "clsOnSet": _rand_hook(rng, 0.45),
            "kwOnly": any_factory or rng.random() < 0.25, "nodes": nodes}
    cands = [_v(f["name"], i) for c in resolve(hier) for f in c["fields"] for i in range(f["validators"])]
    fault = rng.choice(cands) if cands and rng.random() < 0.45 else None
    return hier, fault


def _rand_arg(rng, p_nonbool):
    return rng.choice(NONBOOL) if rng.random() < p_nonbool else rng.choice(["T", "F"])


def _rand_ops(rng, classes, max_len, max_depth):
    n = rng.randint(1, max_len)
    ops, depth = [], 0
    while len(ops) + depth < n:
        r = rng.random()
        if r < 0.10:
            ops.append({"setDisabled": {"a": _rand_arg(rng, 0.12)}})
        elif r < 0.20:
            ops.append({"setRun": {"a": _rand_arg(rng, 0.35)}})
        elif r < 0.24:
            ops.append(rng.choice(["getDisabled", "getRun"]))
        elif r < 0.37:
            if depth < max_depth:
                ops.append("enter")
                depth += 1
        elif r < 0.50:
            if depth > 0:
                ops.append(rng.choice(["exit", "exitExc"]))
                depth -= 1
        elif r < 0.64:
            ops.append("construct")
        elif r < 0.80:
            ops.append("assign")
        else:
            ops.append("validate")
    return _bind(_close(ops, rng), classes, rng)


def _sim(run, ops):
    """the reference switch: final position, or None if an exit has nothing open / a block stays open"""
    stack = []
    for op in ops:
        k, a = _op(op)
        if k == "setDisabled":
            run = not bool(ARGS[a["a"]])
        elif k == "setRun":
            if isinstance(ARGS[a["a"]], bool):
                run = ARGS[a["a"]]
        elif k == "enter":
            stack.append(run)
            run = False
        elif k in ("exit", "exitExc"):
            if not stack:
                return None
            run = stack.pop()
    return None if stack else run


def _assign_events(cls, f):
    """callback identities an assignment to field f can run (validators as if enabled)"""
    hook = f["onSet"] if f["onSet"] != "unset" else cls["clsOnSet"]
    if hook == "unset":
        ch = ["convert", "validate"] if cls["isDefine"] else []
    elif hook == "noOp":
        ch = []
    else:
        ch = hook["chain"]["l"]
    out = []
    for pos, p in enumerate(ch):
        if p == "custom":
            out.append(("hook", f["name"], pos))
        elif p == "convert" and f["conv"]:
            out.append(("conv", f["name"], 0))
        elif p == "validate":
            out += [("validator", f["name"], i) for i in range(f["validators"])]
    return out


def _fires(case, op):
    """the probing callback can run during this assignment"""
    k, a = _op(op)
    pr = case.get("probe")
    if k != "assign" or not pr:
        return False
    cls = case["classes"][a["k"]]
    return (pr["kind"], pr["field"], pr["idx"]) in _assign_events(cls, cls["fields"][a["i"]])


def _neutral(body):
    return _sim(True, body) is True and _sim(False, body) is False


def _callbacks(hier):
    """identities of all callbacks that can run for the classes of the hierarchy"""
    out = []
    for c in resolve(hier):
        if c["pre"] != "none":
            out.append({"kind": "pre", "field": "", "idx": 0})
        if c["post"]:
            out.append({"kind": "post", "field": "", "idx": 0})
        cls_chain = c["clsOnSet"]["chain"]["l"] if isinstance(c["clsOnSet"], dict) else []
        for f in c["fields"]:
            out += [{"kind": "validator", "field": f["name"], "idx": i} for i in range(f["validators"])]
            if f["conv"]:
                out.append({"kind": "conv", "field": f["name"], "idx": 0})
            if _dflt_kind(f) in ("factory", "factorySelf"):
                out.append({"kind": "factory", "field": f["name"], "idx": 0})
            ch = f["onSet"]["chain"]["l"] if isinstance(f["onSet"], dict) else (cls_chain if f["onSet"] == "unset" else [])
            out += [{"kind": "hook", "field": f["name"], "idx": p} for p, x in enumerate(ch) if x == "custom"]
    uniq = []
    for e in out:
        if e not in uniq:
            uniq.append(e)
    return uniq


def _rand_body(rng, classes, max_len=7):
    """nested operations of a callback: reads, readers on the other instances, blocks of its own with flips
    inside; as a whole it gives the switch back as it found it (setters only inside blocks)"""
    body, depth = [], 0
    n = rng.randint(1, max_len)
    while len(body) + depth < n:
        r = rng.random()
        if r < 0.25:
            body.append(rng.choice(["getRun", "getDisabled"]))
        elif r < 0.65:
            body.append(_target(classes, rng, rng.choice(READERS)) or "getRun")
        elif r < 0.78:
            if depth < 2:
                body.append("enter")
                depth += 1
        elif r < 0.88:
            if depth > 0:
                body.append({rng.choice(["setDisabled", "setRun"]): {"a": _rand_arg(rng, 0.1)}})
        elif depth > 0:
            body.append(rng.choice(["exit", "exitExc"]))
            depth -= 1
    body = _close(body, rng)
    assert _neutral(body), body
    return body


FLIPS = [[{"setDisabled": {"a": "T"}}], [{"setDisabled": {"a": "F"}}], [{"setRun": {"a": "F"}}], [{"setRun": {"a": "T"}}],
         ["getRun", {"setDisabled": {"a": "T"}}, "getDisabled"], ["enter", {"setRun": {"a": "T"}}, "exit", {"setDisabled": {"a": "T"}}],
         [{"setRun": {"a": "int0"}}, {"setDisabled": {"a": "T"}}]]


def _flip_body(rng, classes):
    """a body that may leave the switch flipped: setters outside blocks, readers, reads"""
    body = list(rng.choice(FLIPS))
    for _ in range(rng.choice([0, 0, 1, 2])):
        extra = rng.choice(["getRun", "getDisabled"]) if rng.random() < 0.4 else \
            (_target(classes, rng, rng.choice(["construct", "validate"])) or "getRun")
        body.insert(rng.randrange(len(body) + 1), extra)
    return body


def _flip_sweeps(hier, fault, rng):
    """the switch moved from inside a construction, before / after its validators step: every callback of the
    hierarchy in turn flips (each way) while every class is constructed and validated, enabled and inside a block;
    assignments only where the flipping callback cannot run"""
    classes = resolve(hier)
    for probe in _callbacks(hier):
        for body in FLIPS[:4]:
            ops = []
            for k, c in enumerate(classes):
                ops += [{"construct": {"k": k}}, {"validate": {"k": k}}]
                ops += [{"assign": {"k": k, "i": i, "v": "fresh"}} for i in range(len(c["fields"]))]
            ops = ops + ["enter"] + ops + [rng.choice(["exit", "exitExc"])]
            case = mk_case(_restyle(hier, rng), fault, rng.random() < 0.5, ops, _rand_cfg(rng), probe, body)
            case["ops"] = [o for o in case["ops"] if not _fires(case, o)]
            yield case


def _std_body(classes, rng):
    ks = list(range(len(classes)))
    k = rng.choice(ks)
    kf = [q for q in ks if classes[q]["fields"]]
    body = ["getRun", {"construct": {"k": k}}, {"validate": {"k": rng.choice(ks)}}]
    if kf:
        q = rng.choice(kf)
        body.append({"assign": {"k": q, "i": rng.randrange(len(classes[q]["fields"])), "v": rng.choice(ASSIGN_VALS)}})
    body += ["enter", {"setDisabled": {"a": "F"}}, {"validate": {"k": k}}, {"construct": {"k": rng.choice(ks)}},
             rng.choice(["exit", "exitExc"]), "getDisabled"]
    return body


def _probe_sweeps(hier, fault, rng):
    """every callback of the hierarchy in turn does nested work while every reader runs on every class, enabled,
    inside a block, and after the block"""
    classes = resolve(hier)
    readers = []
    for k, c in enumerate(classes):
        readers.append({"construct": {"k": k}})
        readers += [{"assign": {"k": k, "i": i, "v": rng.choice(ASSIGN_VALS)}} for i in range(len(c["fields"]))]
        readers.append({"validate": {"k": k}})
    for probe in _callbacks(hier):
        for start in (True, False):
            ops = readers + ["enter"] + readers + [rng.choice(["exit", "exitExc"]), {"setRun": {"a": "T"}}] + readers
            yield mk_case(_restyle(hier, rng), fault, start, ops, _rand_cfg(rng), probe, _std_body(classes, rng))


def _unfire(case):
    """a body that leaves the switch flipped stays out of assignments: those become validate() of the instance"""
    if case["body"] and not _neutral(case["body"]):
        case["ops"] = [({"validate": {"k": _op(o)[1]["k"]}} if _fires(case, o) else o) for o in case["ops"]]
    return case


def _maybe_probe(hier, rng, p):
    cbs = _callbacks(hier)
    if not cbs or rng.random() >= p:
        return None, []
    classes = resolve(hier)
    r = rng.random()
    return rng.choice(cbs), (_std_body(classes, rng) if r < 0.25 else _flip_body(rng, classes) if r < 0.55
                             else _rand_body(rng, classes))


def _sweeps(hier, fault, rng):
    """every reader over the classes of the hierarchy in every order, twice (whatever a first pass leaves behind
    on a class is met by the second and by the classes after it): enabled; after a pass made while disabled;
    started disabled and enabled through the legacy setter"""
    classes = resolve(hier)
    ks = list(range(len(classes)))

    def reader_ops(kind, k):
        if kind == "assign":
            return [{"assign": {"k": k, "i": i, "v": v}} for i in range(len(classes[k]["fields"]))
                    for v in ("same", "fresh", "iadd", "equal")]
        return [{kind: {"k": k}}]

    for kind in READERS:
        for perm in itertools.permutations(ks):
            once = [o for k in perm for o in reader_ops(kind, k)]
            if not once:
                continue
            rev = [o for k in reversed(perm) for o in reader_ops(kind, k)]
            for start, ops in ((True, once + once),
                               (True, ["enter"] + rev + [rng.choice(["exit", "exitExc"])] + once),
                               (False, rev + [{"setRun": {"a": "T"}}] + once + ["enter"] + once + ["exit"] + once)):
                yield mk_case(_restyle(hier, rng), fault, start, ops, _rand_cfg(rng))


def gen_cases(tier, rng):
    max_len = 3 if tier == "quick" else 5
    # the repaired deviation and its relatives first
    reg_hier, reg_fault = POOL[1]
    A0 = {"assign": {"k": 0, "i": 0, "v": "fresh"}}
    C0, V0 = {"construct": {"k": 0}}, {"validate": {"k": 0}}
    for ops in (["enter", "exit", C0], ["enter", "enter", "exit", C0, "exit", C0], ["enter", "exitExc", A0],
                ["enter", "enter", {"setDisabled": {"a": "F"}}, "exit", V0, "exit", V0]):
        for start in (True, False):
            yield mk_case(reg_hier, reg_fault, start, ops, _rand_cfg(rng))
    # a class without fields: nothing to run, the switch still moves
    empty = _hier(False, "unset", _node(None))
    yield mk_case(empty, None, True, ["enter", C0, V0, {"setRun": {"a": "pyNone"}}, "exit"], _rand_cfg(rng))
    # reader sweeps over the structured hierarchies, then over random ones
    for hier, fault in MULTI:
        yield from _sweeps(hier, fault, rng)
        yield from _sweeps(hier, None, rng)
    for _ in range(12 if tier == "quick" else 70):
        hier, fault = _rand_hier(rng)
        if len(hier["nodes"]) > 1:
            yield from _sweeps(hier, fault, rng)
    # every callback doing nested work under every reader
    for hier, fault in (POOL if tier == "thorough" else rng.sample(POOL, 10)):
        yield from _probe_sweeps(hier, fault if rng.random() < 0.5 else None, rng)
    for _ in range(6 if tier == "quick" else 35):
        hier, fault = _rand_hier(rng)
        yield from _probe_sweeps(hier, fault, rng)
    for hier, fault in (POOL if tier == "thorough" else rng.sample(POOL, 8)):
        yield from _flip_sweeps(hier, fault if rng.random() < 0.3 else None, rng)
    for _ in range(5 if tier == "quick" else 25):
        hier, fault = _rand_hier(rng)
        yield from _flip_sweeps(hier, fault, rng)
    # exhaustive block
    k = 0
    for ops in _enumerate(max_len):
        if not ops:
            continue
        for start in (True, False):
            picks = [rng.choice(POOL)] if tier == "quick" else \
                [POOL[k % len(POOL)], rng.choice(MULTI)] if len(ops) <= 4 else [POOL[k % len(POOL)]]
            k += 1
            for hier, fault in picks:
                hier = _restyle(hier, rng)
                probe, body = _maybe_probe(hier, rng, 0.35)
                yield _unfire(mk_case(hier, fault, start, _bind(_close(ops, rng), resolve(hier), rng), _rand_cfg(rng),
                                      probe, body))
    # random block: longer histories, random hierarchies, non-bool arguments, get operations
    n = 1_000_000 if tier == "quick" else 45_000
    for _ in range(n):
        hier, fault = _rand_hier(rng) if rng.random() < 0.8 else rng.choice(POOL)
        hier = _restyle(hier, rng)
        probe, body = _maybe_probe(hier, rng, 0.5)
        yield _unfire(mk_case(hier, fault, rng.random() < 0.6, _rand_ops(rng, resolve(hier), 12, 4), _rand_cfg(rng),
                              probe, body))


def nontrivial(case, model):
    kinds = [_op(o)[0] for o in case["ops"]]
    moves = any(k in ("setDisabled", "setRun", "enter") for k in kinds)
    reads = any(k in READERS for k in kinds)
    return moves and reads and any(f["validators"] for c in case["classes"] for f in c["fields"])


def _ancestors(hier, k):
    out = []
    p = hier["nodes"][k]["parent"]
    while p is not None:
        out.append(p)
        p = hier["nodes"][p]["parent"]
    return out


def dist(case, obs):
    kinds = [_op(o)[0] for o in case["ops"]]
    d = _depths(case["ops"]) or [0]
    steps = obs.get("steps", []) if isinstance(obs, dict) else []
    fired = sum(1 for s in steps if any(e["kind"] == "validator" for e in s["events"]))
    skipped = sum(1 for k, s in zip(kinds, steps)
                  if k in READERS and not any(e["kind"] == "validator" for e in s["events"]))
    cfg = case.get("cfg", {})
    hier = case["hier"]
    # an enabled-or-not validate of an ancestor's instance before one of a descendant's, and the other order
    seen, base_first, sub_first = [], False, False
    for o in case["ops"]:
        k, a = _op(o)
        if k in READERS:
            anc = _ancestors(hier, a["k"])
            base_first |= any((k, p) in seen for p in anc)
            sub_first |= any(kk == k and a["k"] in _ancestors(hier, c) for kk, c in seen)
            seen.append((k, a["k"]))
    redeclares = any(nd["parent"] is not None and
                     {f["name"] for f in nd["own"]} & {f["name"] for f in case["classes"][nd["parent"]]["fields"]}
                     for nd in hier["nodes"])
    return {
        "len": min(len(kinds), 13),
        "max_depth": max(d),
        "start": case["start"],
        "api": "define" if hier["isDefine"] else "attr.s",
        "n_classes": len(hier["nodes"]),
        "classes_read": len({_op(o)[1]["k"] for o in case["ops"] if _op(o)[0] in READERS}),
        "same_reader_base_then_sub": base_first,
        "same_reader_sub_then_base": sub_first,
        "redeclares": redeclares,
        "plain_between": any(nd.get("plain") and nd["parent"] is not None for nd in hier["nodes"]),
        "fault": case.get("fault") is not None,
        "nonbool_args": sum(1 for o in case["ops"] if _op(o)[0] in ("setDisabled", "setRun") and _op(o)[1]["a"] in NONBOOL),
        "reader_steps_validated": min(fired, 4),
        "reader_steps_not_validated": min(skipped, 4),
        "exc_kinds": ",".join(sorted({str(s["exc"]) for s in steps})),
        "exit_exc": sum(1 for k in kinds if k == "exitExc"),
        "slots": cfg.get("slots"),
        "post_init": sum(1 for c in case["classes"] if c["post"]),
        "pre_init": ",".join(sorted({c["pre"] for c in case["classes"]})),
        "defaults": ",".join(sorted({_dflt_kind(f) for c in case["classes"] for f in c["fields"]})),
        "init_false_validated_fields": min(3, sum(1 for c in case["classes"] for f in c["fields"]
                                                  if not f["init"] and f["validators"])),
        "probe": (case.get("probe") or {}).get("kind"),
        "body_len": min(len(case.get("body") or []), 9),
        "body_flips": sum(1 for o in case.get("body") or [] if _op(o)[0] in ("setDisabled", "setRun", "enter")),
        "body_leaves_switch_flipped": bool(case.get("body")) and not _neutral(case["body"]),
        "body_runs": min(6, sum(len(n) for n in obs.get("nested", []))) if isinstance(obs, dict) else 0,
        "constructs_disabled_with_post_and_validators": min(3, sum(
            1 for o, s in zip(case["ops"], steps) if _op(o)[0] == "construct" and s["run"] == "f"
            and case["classes"][_op(o)[1]["k"]]["post"]
            and any(f["validators"] for f in case["classes"][_op(o)[1]["k"]]["fields"]))),
        "assign_values": ",".join(sorted({_op(o)[1].get("v", "fresh") for o in case["ops"] if _op(o)[0] == "assign"})),
        "instance_adopted_from_construct": bool(cfg.get("adopt", True)),
        "frozen": cfg.get("frozen") if _hookless(hier) and not _has_assign(case) else None,
        "cache_hash": bool(cfg.get("cacheHash")) and not cfg.get("exc") and not cfg.get("attrsInit"),
        "init_via": "__attrs_init__" if cfg.get("attrsInit") else "__init__",
        "exception_class": bool(cfg.get("exc")),
        "build_disabled": cfg.get("buildDisabled"),
        "driver": "with-statements" if cfg.get("realWith") else "enter/exit calls",
        "field_spelling": ",".join(sorted({(cfg.get("pyNames") or {}).get(f["name"], "plain")
                                           for c in case["classes"] for f in c["fields"]})),
        "falsy_validator_objects": min(3, sum(1 for c in case["classes"] for f in c["fields"]
                                              if f["validators"] and f.get("style") == "falsy")),
    }


def _valid(case):
    if _depths(case["ops"]) is None:
        return False
    cl = case["classes"]
    body = case.get("body") or []
    if body and (_sim(True, body) is None or _sim(False, body) is None):
        return False               # the body must close the blocks it opens
    if body and not _neutral(body) and any(_fires(case, o) for o in case["ops"]):
        return False               # flips between the hooks of one assignment are not modelled
    for o in list(case["ops"]) + list(body):
        k, a = _op(o)
        if k in READERS and not (0 <= a["k"] < len(cl)):
            return False
        if k == "assign" and not (0 <= a["i"] < len(cl[a["k"]]["fields"])):
            return False
    return bool(cl)


def _rehier(case, hier):
    return dict(case, hier=hier, classes=resolve(hier))


def shrink(case):
    ops = case["ops"]
    # drop one operation, or an enter together with a later exit
    for i in range(len(ops)):
        cand = dict(case, ops=ops[:i] + ops[i + 1:])
        if _valid(cand):
            yield cand
    for i in range(len(ops)):
        if _op(ops[i])[0] == "enter":
            for j in range(i + 1, len(ops)):
                if _op(ops[j])[0] in ("exit", "exitExc"):
                    cand = dict(case, ops=ops[:i] + ops[i + 1:j] + ops[j + 1:])
                    if _valid(cand):
                        yield cand
    if case.get("probe") is not None:
        yield dict(case, probe=None, body=[])
        body = case["body"]
        for i in range(len(body)):
            cand = dict(case, body=body[:i] + body[i + 1:])
            if _valid(cand):
                yield cand
        for i in range(len(body)):
            if _op(body[i])[0] == "enter":
                for j in range(i + 1, len(body)):
                    if _op(body[j])[0] in ("exit", "exitExc"):
                        cand = dict(case, body=body[:i] + body[i + 1:j] + body[j + 1:])
                        if _valid(cand):
                            yield cand
    if case.get("fault") is not None:
        yield dict(case, fault=None)
    if not case["start"]:
        yield dict(case, start=True)
    cfg = case.get("cfg", {})
    base = {"slots": None, "bare": True, "buildDisabled": False, "earlyCm": False,
            "excKinds": ["valueError"], "via": "attr", "realWith": False, "attrsInit": False, "exc": False, "adopt": False, "frozen": None,
            "cacheHash": False, "pyNames": {}}
    for k, v in base.items():
        if cfg.get(k) != v:
            yield dict(case, cfg=dict(cfg, **{k: v}))
    hier = case["hier"]
    nodes = hier["nodes"]
    # drop the last class when nothing refers to it
    if len(nodes) > 1 and not any(_op(o)[0] in READERS and _op(o)[1]["k"] == len(nodes) - 1 for o in ops):
        yield _rehier(case, dict(hier, nodes=nodes[:-1]))
    if hier["clsOnSet"] != "unset":
        yield _rehier(case, dict(hier, clsOnSet="unset"))
    if hier.get("kwOnly") and not _needs_kw(nodes):
        yield _rehier(case, dict(hier, kwOnly=False))
    for k, nd in enumerate(nodes):
        def with_own(own):
            return _rehier(case, dict(hier, nodes=nodes[:k] + [dict(nd, own=own)] + nodes[k + 1:]))
        for key, v in (("plain", False), ("pre", "none"), ("post", False)):
            if nd.get(key, v) != v:
                yield _rehier(case, dict(hier, nodes=nodes[:k] + [dict(nd, **{key: v})] + nodes[k + 1:]))
        for j, f in enumerate(nd["own"]):
            cand = with_own(nd["own"][:j] + nd["own"][j + 1:])
            if _valid(cand):
                yield cand
            if f.get("init", True) and _dflt_kind(f) != "none":
                yield with_own(nd["own"][:j] + [dict(f, dflt="none")] + nd["own"][j + 1:])
            if not f.get("init", True) and hier.get("kwOnly"):
                yield with_own(nd["own"][:j] + [dict(f, init=True)] + nd["own"][j + 1:])
            if _dflt_kind(f) in ("factory", "factorySelf"):
                yield with_own(nd["own"][:j] + [dict(f, dflt="value")] + nd["own"][j + 1:])
            for key, v in (("conv", False), ("onSet", "unset"), ("style", "list")):
                if f.get(key) != v:
                    yield with_own(nd["own"][:j] + [dict(f, **{key: v})] + nd["own"][j + 1:])
            if f["validators"] > 1:
                yield with_own(nd["own"][:j] + [dict(f, validators=f["validators"] - 1)] + nd["own"][j + 1:])
    for i, o in enumerate(ops):
        k, a = _op(o)
        if k == "assign" and a.get("v", "fresh") != "fresh":
            for v in (("fresh", "same") if a["v"] != "same" else ("fresh",)):
                yield dict(case, ops=ops[:i] + [{"assign": dict(a, v=v)}] + ops[i + 1:])
        if k in ("setDisabled", "setRun") and a["a"] in NONBOOL and a["a"] != "int1":
            yield dict(case, ops=ops[:i] + [{k: {"a": "int1"}}] + ops[i + 1:])


def neighbours(case, rng):
    for start in (True, False):
        for _ in range(3):
            yield dict(case, start=start, cfg=_rand_cfg(rng))
    kinds = [o if isinstance(o, str) else (next(iter(o)) if next(iter(o)) in READERS else o) for o in case["ops"]]
    for hier, fault in POOL:
        cand = mk_case(hier, fault, case["start"], _bind(kinds, resolve(hier), rng), _rand_cfg(rng))
        if _valid(cand):
            yield cand
    yield from itertools.islice(shrink(case), 40)


LEVEL_TEXT = (
    "Lean theorems about an executable model of _config.py, validators.set_disabled/get_disabled/disabled(), and the three "
    "readers of the switch (generated __init__ through the shared initializer model, attr.validate, setters.validate "
    "behind the on_setattr resolution of define/attr.s/add_setattr), for arbitrary histories, nesting depths, field "
    "lists, validator chains, hook pipes and faulty validator: C20_views/C20_views_cross (one cell behind both accessor "
    "pairs), C20_restore/C20_restore_observed (every exit, normal or exceptional, of every balanced block in any "
    "history restores switch and saved states of the matching enter; by induction with a stack-frame invariant), "
    "C20_disabled_inside, C20_block_silences_validators, C20_nonbool_rejected_state_unchanged, "
    "C20_assign_value_irrelevant (no short cut for re-binding the object already stored), C20_readers_memoryless (what a reader runs depends only on the class of the instance and the switch, not on which "
    "instances of which classes of the hierarchy were read before), "
    "C20_construct_reads_switch_at_validators_step (validators of a construction follow the switch as left by the switch "
    "operations its own pre-init hook / factories / converters performed; a reading taken at the top of the call is "
    "excluded), C20_callbacks_see_callers_switch / C20_getter_inside_callback / C20_switch_moves_only_by_switch_ops (nested operations "
    "performed from inside any callback observe exactly what they would as a history started from the switch position the "
    "outer operation found; only the setters, enter and the exits move the switch; a well-formed body is neutral), "
    "C20_hooks_unaffected / C20_construct_callbacks (a construction calls pre-init, per field factory and converter, "
    "validators iff enabled, post-init; only the validators depend on the switch), "
    "C20_honoured_construct (via C02_fault_prefix of the initializer model)/_assign/_validate (callbacks run = declarative "
    "list cut after the failing one; validators iff enabled), C20_switch_independence (converters and user hooks "
    "unaffected), C20_assign_validates_iff, C20_enabled_all_fire, C20_matcher_is_dyck (the specification's bracket "
    "counting finds the matching enter), C20_default_hook_documented (T1 table), C20_model_meets_spec; "
    "C20_old_manager_violates: the pre-ee5b683 manager (labelled not-the-model) breaks C20_restore on a nested history "
    "(decide). The model is tied to /repo by a differential correspondence: thorough = all bracket-valid histories of "
    "length <= 5 over the ten operations from both start positions on a structured pool of class hierarchies (base, "
    "subclasses adding / re-declaring validated fields, siblings, plain class in between; every reader names the class "
    "whose instance it works on; classes fresh per case; validators check they are called for their own class's "
    "Attribute), reader sweeps over every order of the classes, plus 45k "
    "random histories (length <= 12, depth <= 4, non-bool arguments, getters, random classes); quick = length <= 3 plus "
    "random to the time budget; observed after every operation: get_disabled(), get_run_validators(), returned value, "
    "exception kind, __exit__ result, and the exact sequence of pre-init/factory/converter/validator/post-init/on_setattr-hook "
    "callbacks (classes with and without validators, __init__ and __attrs_init__, exception classes). Only observed, not "
    "proved: CPython's generator/contextmanager protocol (modelled as push/pop; driven both by explicit __enter__/__exit__ "
    "calls and by real nested with statements), single-threaded use."
)
