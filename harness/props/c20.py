"""C20 -- the global validator switch is honoured everywhere and scoped correctly.

Case = the Lean `Attrs.C20.Case`: a class description (api, class-level and per-field on_setattr as lists of
elementary hooks, per field the length of its validator chain and whether it has a converter), the one callback
that raises (`fault`), the switch position at the start and a history of operations
{set_disabled(v), set_run_validators(v), get_disabled, get_run_validators, enter disabled(), exit, exit by
exception, construct, assign field i, validate(inst)}; plus a harness-only `cfg` the model ignores (slots, how the
fields are split over an attrs base class, how each validator chain is written, whether the class was defined
while validators were disabled, whether the context-manager objects were created up front, which exception leaves
the block, through which namespace the accessors are reached).

The context managers are driven either by explicit `__enter__`/`__exit__` calls (what a `with` statement does) or
(cfg.realWith) by real `with` statements nested dynamically through recursion, the exceptional exit being a `raise`
inside the block that is caught outside it; one fresh `disabled()` object per enter, exits always on the innermost
open one.  Every case sets the switch itself at the
start, closes what it left open and puts the switch back to "enabled" in `finally`, so cases are self-contained
(safe in forked workers: the switch is per process).
"""
from __future__ import annotations

import itertools
import json

import attr
import attrs
from attr import setters

import common

ID = "C20"
RULE = ("cases = class description x faulty validator x start position x operation history; thorough: ALL histories of "
        "length <= 5 over {set_disabled(T/F), set_run_validators(T/F), enter, exit, exit-by-exception, construct, "
        "assign, validate} that never exit with nothing open (closed at the end), from both start positions, each on a "
        "class from a structured pool; quick: all such histories of length <= 3 plus seeded random histories of length "
        "<= 12, nesting <= 4, incl. non-bool arguments and the get operations, on random classes; non-trivial = the "
        "history moves or scopes the switch and runs a reader (construct/assign/validate) on a class with a "
        "validator; distinct = distinct JSON case")
ASSUMPTIONS = [
    "blocks are entered/left LIFO on fresh validators.disabled() objects, through explicit __enter__/__exit__ calls (60%) or real nested with statements (40%)",
    "recording callbacks stand for arbitrary validators/converters/hooks: which ran, in which order, and which one raised is what is compared",
    "single-threaded use (the switch is documented as not thread-safe)",
    "construction is modelled through the shared initializer model (Model/Init.lean), tied to the code by the C01/C02 correspondence as well",
]
EXHAUSTIVE = {"quick": False, "thorough": True}
BUDGET_S = {"quick": 26, "thorough": 420}
TABLES = ["defaultOnSetattr", "attrsKw", "defineKw", "attribKw", "fieldKw"]
PARALLEL = True   # each case sets, scopes and restores the (per-process) switch itself

LOG: list = []
FAULT = [None]

ARGS = {"T": True, "F": False, "int0": 0, "int1": 1, "float1": 1.0, "pyNone": None, "str": "x", "emptyStr": ""}
NONBOOL = ["int0", "int1", "float1", "pyNone", "str", "emptyStr"]
NAMES = ["x", "y", "z", "w", "a_b"]
CHAINS = [["validate"], ["validate"], ["convert"], ["convert", "validate"], ["validate", "convert"], ["custom"],
          ["custom", "validate"], ["validate", "custom"], ["custom", "convert", "validate"], ["validate", "validate"], []]
EXC_KINDS = ["valueError", "user", "keyboardInterrupt", "stopIteration", "generatorExit", "systemExit"]
_EXC_OUT = {"typeError", "attributeError", "frozenInstance", "valueError", "notFound"}


def chain(l):
    return {"chain": {"l": list(l)}}


# ------------------------------------------------------------------------------------------ callbacks
def _hit(kind, field, idx):
    LOG.append({"kind": kind, "field": field, "idx": idx})
    if FAULT[0] == (kind, field, idx):
        raise common.UserError(f"{kind}.{field}.{idx}")


def mk_validator(i):
    def v(inst, a, value):
        _hit("validator", a.name, i)
    return v


def mk_converter(name):
    def c(value):
        _hit("conv", name, 0)
        return value
    return c


def mk_hook(pos):
    def h(inst, a, value):
        _hit("hook", a.name, pos)
        return value
    return h


def _on_setattr(hook, bare):
    """Hook JSON -> keyword arguments"""
    if hook == "unset":
        return {}
    if hook == "noOp":
        return {"on_setattr": setters.NO_OP}
    fns = []
    for pos, p in enumerate(hook["chain"]["l"]):
        fns.append(mk_hook(pos) if p == "custom" else {"convert": setters.convert, "validate": setters.validate}[p])
    if len(fns) == 1 and bare:
        return {"on_setattr": fns[0]}
    return {"on_setattr": fns}


def _mk_field(f, is_define, style, bare):
    n = f["validators"]
    vs = [mk_validator(i) for i in range(n)]
    kw = dict(_on_setattr(f["onSet"], bare))
    if f["conv"]:
        kw["converter"] = mk_converter(f["name"])
    deco = None
    if n == 1:
        if style == "deco":
            deco = vs[0]
        elif style in ("list", "and_", "nested"):
            kw["validator"] = [vs[0]] if style == "list" else attr.validators.and_(vs[0])
        else:
            kw["validator"] = vs[0]
    elif n >= 2:
        if style == "deco":
            kw["validator"] = vs[:-1] if n > 2 else vs[0]
            deco = vs[-1]
        elif style == "and_":
            kw["validator"] = attr.validators.and_(*vs)
        elif style == "nested":
            kw["validator"] = attr.validators.and_(attr.validators.and_(*vs[:-1]), vs[-1])
        elif style == "tuple":
            kw["validator"] = tuple(vs)
        else:
            kw["validator"] = list(vs)
    ca = (attrs.field if is_define else attr.ib)(**kw)
    if deco is not None:
        ca.validator(deco)
    return ca


_CLASS_CACHE: dict = {}


def build(case):
    cls, cfg = case["cls"], case.get("cfg", {})
    key = json.dumps([cls, cfg.get("slots"), cfg.get("split", 0), cfg.get("vstyle"), cfg.get("bare", True),
                      bool(cfg.get("buildDisabled"))], sort_keys=True)
    got = _CLASS_CACHE.get(key)
    if got is not None:
        return got
    if len(_CLASS_CACHE) > 1500:
        _CLASS_CACHE.clear()
        common.purge_linecache()
    is_define = cls["isDefine"]
    fields = cls["fields"]
    styles = cfg.get("vstyle") or []
    bare = cfg.get("bare", True)
    split = max(0, min(cfg.get("split", 0), len(fields)))
    kw = {}
    if cfg.get("slots") is not None:
        kw["slots"] = cfg["slots"]
    # a one-element class-level chain is passed bare (setters.validate itself), as the model's reading assumes
    kw.update(_on_setattr(cls["clsOnSet"], True))
    deco = attrs.define if is_define else attr.s

    def body(part, offset):
        return {f["name"]: _mk_field(f, is_define, styles[offset + j] if offset + j < len(styles) else "list", bare)
                for j, f in enumerate(part)}

    attr.set_run_validators(not cfg.get("buildDisabled", False))
    if split:
        Base = deco(**kw)(type("Base", (object,), body(fields[:split], 0)))
    else:
        Base = object
    C = deco(**kw)(type("C", (Base,), body(fields[split:], split)))
    res = (C, [f["name"] for f in fields])
    _CLASS_CACHE[key] = res
    return res


def _b3(thunk):
    try:
        v = thunk()
    except BaseException:  # noqa: BLE001
        return "other"
    return "t" if v is True else "f" if v is False else "other"


def _exc(e):
    k = common.exc_kind(e)
    if k.startswith("user:"):
        return "user"
    return k if k in _EXC_OUT else "other"


def _mk_exc(kind):
    return {"valueError": ValueError("boom"), "user": common.UserError("block"),
            "keyboardInterrupt": KeyboardInterrupt(), "stopIteration": StopIteration("s"),
            "generatorExit": GeneratorExit(), "systemExit": SystemExit(3)}[kind]


def _op(op):
    if isinstance(op, str):
        return op, None
    (k, v), = op.items()
    return k, (v.get("a") if "a" in v else v.get("i"))


def observe(case):
    open_cms = []
    try:
        return _observe(case, open_cms)
    finally:
        # close what the history left open (innermost first), then put the switch back
        while open_cms:
            try:
                open_cms.pop().__exit__(None, None, None)
            except BaseException:  # noqa: BLE001
                pass
        try:
            attr.set_run_validators(True)
        except BaseException:  # noqa: BLE001
            pass
        attr._config._run_validators = True
        FAULT[0] = None
        del LOG[:]


def _observe(case, open_cms):
    cfg = case.get("cfg", {})
    try:
        C, names = build(case)
    finally:
        attr.set_run_validators(True)
    ns = attrs if cfg.get("via") == "attrs" else attr
    V = ns.validators
    get_run, set_run = attr.get_run_validators, attr.set_run_validators
    validate = ns.validate
    # the instance that assign / validate work on: built without the initializer
    inst = C.__new__(C)
    for n in names:
        object.__setattr__(inst, n, "v." + n)
    vals = {n: "v." + n for n in names}
    f = case.get("fault")
    FAULT[0] = (f["kind"], f["field"], f["idx"]) if f else None
    early = [V.disabled() for _ in case["ops"]] if cfg.get("earlyCm") else None
    exc_kinds = cfg.get("excKinds") or ["valueError"]
    n_exc = [0]
    ops = case["ops"]
    set_run(bool(case["start"]))
    steps = []
    del LOG[:]

    def record(ret=None, exc=None, swallowed=False):
        steps.append({"disabled": _b3(V.get_disabled), "run": _b3(get_run), "ret": ret, "exc": exc,
                      "swallowed": swallowed, "events": list(LOG)})
        del LOG[:]

    def next_exc():
        err = _mk_exc(exc_kinds[n_exc[0] % len(exc_kinds)])
        n_exc[0] += 1
        return err

    def new_cm():
        return early.pop() if early else V.disabled()

    def simple(k, a):
        """an operation that is not a bracket"""
        ret = exc = None
        try:
            if k == "setDisabled":
                V.set_disabled(ARGS[a])
            elif k == "setRun":
                set_run(ARGS[a])
            elif k == "getDisabled":
                ret = _b3(V.get_disabled)
            elif k == "getRun":
                ret = _b3(get_run)
            elif k == "construct":
                C(**vals)
            elif k == "assign":
                setattr(inst, names[a], "w." + names[a])
            elif k == "validate":
                validate(inst)
            else:
                raise AssertionError(k)
        except AssertionError:
            raise
        except IndexError:
            exc = "other"
        except BaseException as e:  # noqa: BLE001
            exc = _exc(e)
        record(ret, exc)

    def manual():
        """explicit __enter__/__exit__ calls on the manager objects"""
        for op in ops:
            k, a = _op(op)
            if k not in ("enter", "exit", "exitExc"):
                simple(k, a)
                continue
            exc, swallowed = None, False
            try:
                if k == "enter":
                    cm = new_cm()
                    cm.__enter__()
                    open_cms.append(cm)
                elif k == "exit":
                    swallowed = bool(open_cms.pop().__exit__(None, None, None))
                else:
                    cm = open_cms.pop()
                    try:
                        raise next_exc()
                    except BaseException as e2:  # noqa: BLE001
                        swallowed = bool(cm.__exit__(type(e2), e2, e2.__traceback__))
            except IndexError:
                exc = "other"
            except BaseException as e:  # noqa: BLE001
                exc = _exc(e)
            record(None, exc, swallowed)

    def block(i):
        """real, dynamically nested `with` statements: runs ops[i:] at the current nesting level and returns
        (index after the exit that closes this level, how it is closed)"""
        while i < len(ops):
            k, a = _op(ops[i])
            if k == "enter":
                how, err, entered, swallowed, exc = "eof", None, False, False, None
                try:
                    with new_cm():
                        entered = True
                        record()
                        i, how = block(i + 1)
                        if how == "exitExc":
                            err = next_exc()
                            raise err
                    swallowed = how == "exitExc"     # reached only if the exception did not propagate
                except BaseException as e:  # noqa: BLE001
                    if err is None or e is not err:
                        exc = _exc(e)
                        if not entered:              # __enter__ itself failed: go on without a context
                            record(None, exc)
                            i, how = block(i + 1)
                            exc = "other"
                if how != "eof":
                    record(None, exc, swallowed)
            elif k in ("exit", "exitExc"):
                return i + 1, k
            else:
                simple(k, a)
                i += 1
        return i, "eof"

    if cfg.get("realWith"):
        block(0)
    else:
        manual()
    return {"steps": steps}


# ------------------------------------------------------------------------------------------ generators
def _depths(ops):
    d, out = 0, []
    for op in ops:
        k, _ = _op(op)
        if k == "enter":
            d += 1
        elif k in ("exit", "exitExc"):
            d -= 1
            if d < 0:
                return None
        out.append(d)
    return out


def _fld(name, validators=1, conv=False, on_set="unset"):
    return {"name": name, "validators": validators, "conv": conv, "onSet": on_set}


def _cls(is_define, cls_on_set, *fields):
    return {"isDefine": is_define, "clsOnSet": cls_on_set, "fields": list(fields)}


V_X0 = {"kind": "validator", "field": "x", "idx": 0}
V_X1 = {"kind": "validator", "field": "x", "idx": 1}
V_Y0 = {"kind": "validator", "field": "y", "idx": 0}

# (class, faulty callback): field 0 is what the exhaustive histories assign to
POOL = [
    (_cls(False, "unset", _fld("x")), V_X0),                                           # attr.s, no hook
    (_cls(False, chain(["validate"]), _fld("x")), V_X0),                               # attr.s + setters.validate
    (_cls(False, "unset", _fld("x", on_set=chain(["validate"]))), V_X0),               # field-level hook
    (_cls(True, "unset", _fld("x")), V_X0),                                            # define default
    (_cls(True, "unset", _fld("x", 2, True), _fld("y", 1, True)), None),               # several fields, none fails
    (_cls(True, "unset", _fld("x", 2, True), _fld("y", 1, True)), V_X1),               # second of an and_ chain fails
    (_cls(False, chain(["validate"]), _fld("x", 1, True), _fld("y", 2)), V_Y0),        # later field fails
    (_cls(True, chain(["custom", "validate"]), _fld("x", 1, True)), None),             # custom + validate
    (_cls(False, chain(["convert", "validate"]), _fld("x", 3, True), _fld("y", 0, True)), None),
    (_cls(True, "unset", _fld("x", 1, True, "noOp"), _fld("y", 1)), V_Y0),             # NO_OP on the assigned field
    (_cls(True, "noOp", _fld("x", 1, True, chain(["validate", "custom"])), _fld("y")), V_X0),
    (_cls(False, chain(["custom"]), _fld("x", 2, True), _fld("y", 1, False, chain(["validate"]))), None),
    (_cls(False, "unset", _fld("x", 0, True, chain(["convert", "validate"])), _fld("y", 1)), None),  # nothing to validate on x
    (_cls(True, "unset", _fld("x", 1, False, chain(["validate", "validate"]))), None),
]

ALPHA = [{"setDisabled": {"a": "T"}}, {"setDisabled": {"a": "F"}}, {"setRun": {"a": "T"}}, {"setRun": {"a": "F"}},
         "enter", "exit", "exitExc", "construct", {"assign": {"i": 0}}, "validate"]


def _styles(cls, rng):
    out = []
    for f in cls["fields"]:
        n = f["validators"]
        if n <= 1:
            out.append(rng.choice(["single", "single", "list", "and_", "deco"]))
        else:
            out.append(rng.choice(["list", "list", "and_", "deco", "nested", "tuple"]))
    return out


def _rand_cfg(cls, rng):
    return {
        "slots": rng.choice([None, None, True, False]),
        "split": rng.choice([0, 0, 1, 1, 2, 3]),
        "vstyle": _styles(cls, rng),
        "bare": rng.random() < 0.5,
        "buildDisabled": rng.random() < 0.35,
        "earlyCm": rng.random() < 0.35,
        "excKinds": [rng.choice(EXC_KINDS) for _ in range(3)],
        "via": rng.choice(["attr", "attrs"]),
        "realWith": rng.random() < 0.4,
    }


def _close(ops, rng):
    d = _depths(ops)
    depth = d[-1] if d else 0
    return list(ops) + [rng.choice(["exit", "exitExc"]) for _ in range(depth)]


def _enumerate(max_len):
    """all histories over ALPHA of length <= max_len that never exit with nothing open"""
    def rec(prefix, depth):
        yield prefix
        if len(prefix) == max_len:
            return
        for op in ALPHA:
            if op == "enter":
                yield from rec(prefix + [op], depth + 1)
            elif op in ("exit", "exitExc"):
                if depth > 0:
                    yield from rec(prefix + [op], depth - 1)
            else:
                yield from rec(prefix + [op], depth)
    yield from rec([], 0)


def _rand_hook(rng, p_unset):
    r = rng.random()
    if r < p_unset:
        return "unset"
    if r < p_unset + 0.1:
        return "noOp"
    return chain(rng.choice(CHAINS))


def _rand_cls(rng):
    n = rng.choice([1, 1, 2, 2, 3, 4])
    names = NAMES[:n] if rng.random() < 0.7 else rng.sample(NAMES, n)
    fields = [{"name": nm, "validators": rng.choice([0, 1, 1, 1, 2, 3]), "conv": rng.random() < 0.45,
               "onSet": _rand_hook(rng, 0.6)} for nm in names]
    cls = {"isDefine": rng.random() < 0.5, "clsOnSet": _rand_hook(rng, 0.45), "fields": fields}
    cands = [{"kind": "validator", "field": f["name"], "idx": i} for f in fields for i in range(f["validators"])]
    fault = rng.choice(cands) if cands and rng.random() < 0.45 else None
    return cls, fault


def _rand_arg(rng, p_nonbool):
    return rng.choice(NONBOOL) if rng.random() < p_nonbool else rng.choice(["T", "F"])


def _rand_ops(rng, cls, max_len, max_depth):
    n = rng.randint(1, max_len)
    ops, depth = [], 0
    nf = len(cls["fields"])
    while len(ops) + depth < n:
        r = rng.random()
        if r < 0.12:
            ops.append({"setDisabled": {"a": _rand_arg(rng, 0.12)}})
        elif r < 0.24:
            ops.append({"setRun": {"a": _rand_arg(rng, 0.35)}})
        elif r < 0.29:
            ops.append(rng.choice(["getDisabled", "getRun"]))
        elif r < 0.45:
            if depth < max_depth:
                ops.append("enter")
                depth += 1
        elif r < 0.60:
            if depth > 0:
                ops.append(rng.choice(["exit", "exitExc"]))
                depth -= 1
        elif r < 0.74:
            ops.append("construct")
        elif r < 0.90:
            ops.append({"assign": {"i": rng.randrange(nf)}})
        else:
            ops.append("validate")
    return _close(ops, rng)


def gen_cases(tier, rng):
    max_len = 3 if tier == "quick" else 5
    # the repaired deviation and its relatives first
    reg_cls, reg_fault = POOL[1]
    for ops in (["enter", "exit", "construct"], ["enter", "enter", "exit", "construct", "exit", "construct"],
                ["enter", "exitExc", {"assign": {"i": 0}}],
                ["enter", "enter", {"setDisabled": {"a": "F"}}, "exit", "validate", "exit", "validate"]):
        for start in (True, False):
            yield {"cls": reg_cls, "fault": reg_fault, "start": start, "ops": ops, "cfg": _rand_cfg(reg_cls, rng)}
    # a class without fields: nothing to run, the switch still moves
    empty = _cls(False, "unset")
    yield {"cls": empty, "fault": None, "start": True,
           "ops": ["enter", "construct", "validate", {"setRun": {"a": "pyNone"}}, "exit"], "cfg": _rand_cfg(empty, rng)}
    # exhaustive block
    k = 0
    for ops in _enumerate(max_len):
        if not ops:
            continue
        for start in (True, False):
            picks = [rng.choice(POOL)] if tier == "quick" else \
                [POOL[k % len(POOL)], rng.choice(POOL)] if len(ops) <= 4 else [POOL[k % len(POOL)]]
            k += 1
            for cls, fault in picks:
                yield {"cls": cls, "fault": fault, "start": start, "ops": _close(ops, rng), "cfg": _rand_cfg(cls, rng)}
    # random block: longer histories, random classes, non-bool arguments, get operations
    n = 1_000_000 if tier == "quick" else 120_000
    for _ in range(n):
        cls, fault = _rand_cls(rng) if rng.random() < 0.8 else rng.choice(POOL)
        ops = _rand_ops(rng, cls, 12, 4)
        yield {"cls": cls, "fault": fault, "start": rng.random() < 0.6, "ops": ops, "cfg": _rand_cfg(cls, rng)}


def nontrivial(case, model):
    kinds = [_op(o)[0] for o in case["ops"]]
    moves = any(k in ("setDisabled", "setRun", "enter") for k in kinds)
    reads = any(k in ("construct", "assign", "validate") for k in kinds)
    return moves and reads and any(f["validators"] for f in case["cls"]["fields"])


def dist(case, obs):
    kinds = [_op(o)[0] for o in case["ops"]]
    d = _depths(case["ops"]) or [0]
    steps = obs.get("steps", []) if isinstance(obs, dict) else []
    fired = sum(1 for s in steps if any(e["kind"] == "validator" for e in s["events"]))
    skipped = sum(1 for k, s in zip(kinds, steps)
                  if k in ("construct", "assign", "validate") and not any(e["kind"] == "validator" for e in s["events"]))
    cfg = case.get("cfg", {})
    return {
        "len": len(kinds),
        "max_depth": max(d),
        "start": case["start"],
        "api": "define" if case["cls"]["isDefine"] else "attr.s",
        "n_fields": len(case["cls"]["fields"]),
        "fault": case.get("fault") is not None,
        "nonbool_args": sum(1 for o in case["ops"] if _op(o)[0] in ("setDisabled", "setRun") and _op(o)[1] in NONBOOL),
        "reader_steps_validated": min(fired, 4),
        "reader_steps_not_validated": min(skipped, 4),
        "exc_kinds": ",".join(sorted({str(s["exc"]) for s in steps})),
        "exit_exc": sum(1 for k in kinds if k == "exitExc"),
        "split": cfg.get("split"),
        "slots": cfg.get("slots"),
        "build_disabled": cfg.get("buildDisabled"),
        "driver": "with-statements" if cfg.get("realWith") else "enter/exit calls",
    }


def _valid(case):
    if _depths(case["ops"]) is None:
        return False
    nf = len(case["cls"]["fields"])
    return all(_op(o)[0] != "assign" or _op(o)[1] < nf for o in case["ops"])


def shrink(case):
    ops = case["ops"]
    # drop one operation, or an enter together with a later exit
    for i in range(len(ops)):
        cand = dict(case, ops=ops[:i] + ops[i + 1:])
        if _valid(cand):
            yield cand
    for i in range(len(ops)):
        if _op(ops[i])[0] == "enter":
            for j in range(i + 1, len(ops)):
                if _op(ops[j])[0] in ("exit", "exitExc"):
                    cand = dict(case, ops=ops[:i] + ops[i + 1:j] + ops[j + 1:])
                    if _valid(cand):
                        yield cand
    if case.get("fault") is not None:
        yield dict(case, fault=None)
    if not case["start"]:
        yield dict(case, start=True)
    cfg = case.get("cfg", {})
    base = {"slots": None, "split": 0, "bare": True, "buildDisabled": False, "earlyCm": False,
            "excKinds": ["valueError"], "via": "attr", "realWith": False}
    for k, v in base.items():
        if cfg.get(k) != v:
            yield dict(case, cfg=dict(cfg, **{k: v}))
    cls = case["cls"]
    fs = cls["fields"]
    # drop the last field when nothing refers to it
    if len(fs) > 1:
        last = fs[-1]["name"]
        used = any(_op(o)[0] == "assign" and _op(o)[1] == len(fs) - 1 for o in ops)
        if not used and not (case.get("fault") and case["fault"]["field"] == last):
            yield dict(case, cls=dict(cls, fields=fs[:-1]), cfg=dict(cfg, vstyle=(cfg.get("vstyle") or [])[:len(fs) - 1]))
    for i, f in enumerate(fs):
        for k, v in (("conv", False), ("onSet", "unset")):
            if f[k] != v:
                yield dict(case, cls=dict(cls, fields=fs[:i] + [dict(f, **{k: v})] + fs[i + 1:]))
        if f["validators"] > 1 and not (case.get("fault") and case["fault"]["field"] == f["name"]
                                         and case["fault"]["idx"] >= f["validators"] - 1):
            yield dict(case, cls=dict(cls, fields=fs[:i] + [dict(f, validators=f["validators"] - 1)] + fs[i + 1:]))
    for i, o in enumerate(ops):
        k, a = _op(o)
        if k in ("setDisabled", "setRun") and a in NONBOOL and a != "int1":
            yield dict(case, ops=ops[:i] + [{k: {"a": "int1"}}] + ops[i + 1:])


def neighbours(case, rng):
    for start in (True, False):
        for _ in range(3):
            yield dict(case, start=start, cfg=_rand_cfg(case["cls"], rng))
    for cls, fault in POOL:
        cand = dict(case, cls=cls, fault=fault, cfg=_rand_cfg(cls, rng))
        if _valid(cand):
            yield cand
    yield from itertools.islice(shrink(case), 40)


LEVEL_TEXT = (
    "Lean theorems about an executable model of _config.py, validators.set_disabled/get_disabled/disabled(), and the three "
    "readers of the switch (generated __init__ through the shared initializer model, attr.validate, setters.validate "
    "behind the on_setattr resolution of define/attr.s/add_setattr), for arbitrary histories, nesting depths, field "
    "lists, validator chains, hook pipes and faulty validator: C20_views/C20_views_cross (one cell behind both accessor "
    "pairs), C20_restore/C20_restore_observed (every exit, normal or exceptional, of every balanced block in any "
    "history restores switch and saved states of the matching enter; by induction with a stack-frame invariant), "
    "C20_disabled_inside, C20_block_silences_validators, C20_nonbool_rejected_state_unchanged, "
    "C20_honoured_construct (via C02_fault_prefix of the initializer model)/_assign/_validate (callbacks run = declarative "
    "list cut after the failing one; validators iff enabled), C20_switch_independence (converters and user hooks "
    "unaffected), C20_assign_validates_iff, C20_enabled_all_fire, C20_matcher_is_dyck (the specification's bracket "
    "counting finds the matching enter), C20_default_hook_documented (T1 table), C20_model_meets_spec; "
    "C20_old_manager_violates: the pre-ee5b683 manager (labelled not-the-model) breaks C20_restore on a nested history "
    "(decide). The model is tied to /repo by a differential correspondence: thorough = all bracket-valid histories of "
    "length <= 5 over the ten operations from both start positions on a structured class pool plus 120k "
    "random histories (length <= 12, depth <= 4, non-bool arguments, getters, random classes); quick = length <= 3 plus "
    "random to the time budget; observed after every operation: get_disabled(), get_run_validators(), returned value, "
    "exception kind, __exit__ result, and the exact sequence of validator/converter/hook callbacks. Only observed, not "
    "proved: CPython's generator/contextmanager protocol (modelled as push/pop; driven both by explicit __enter__/__exit__ "
    "calls and by real nested with statements), single-threaded use."
)
