"""C19 -- converter combinators, filters and cmp_using obey their algebraic laws.

Five sub-checks dispatched on the case's "kind" (Lean: Spec/C19.lean `handle`):
  conv    converter expression trees (harness/c19_conv.py)
  tobool  converters.to_bool                          (harness/c19_misc.py)
  din     argument checks of converters.default_if_none
  filter  filters.include / filters.exclude
  cmp     cmp_using
"""
from __future__ import annotations

import c19_conv as K
import c19_misc as M

ID = "C19"
TABLES = ["toBoolTrue", "toBoolFalse", "toBoolLowers", "fn_to_bool"]
PARALLEL = True
BUDGET_S = {"quick": 40, "thorough": 420}
EXHAUSTIVE = {"quick": False, "thorough": False}

RULE = (
    "five generators interleaved. conv: every tree of combinator depth <=2 (thorough: <=3, sampled at 3) over a reduced leaf "
    "alphabet (plain fn term/None/raise, Converter with each takes_self x takes_field, default_if_none value/factory) x "
    "{standalone, __init__, __init__ on a default, assignment through setters.convert, setters.convert called directly} on "
    "the inputs [None, token, None, 0]; then random trees to depth 4 (pipe arity 0-4, functions that return a term / None "
    "/ 0 / raise, fault rate 0-15%), 1-3 inputs from {None, tokens, 0, '', [], False, a not-None object whose ==/!= claim "
    "equality with everything incl. None (ANY-style), a falsy int-subclass instance whose == says it equals None} -- the "
    "last two are ordinary non-None values for the model, so only an identity test passes --, random class configuration (attr.s / "
    "define / mutable / make_class, slots, frozen, kw_only, list-or-tuple form of a top-level pipe, hook on class or field, "
    "Factory spelling of default_if_none); in the class modes the class has 1-3 fields that SHARE the one converter object "
    "(harness-only variation: or equal objects built separately) plus 0-2 fields with a converter of their own in between, "
    "every sharing field is converted (each __init__ line / assignment must hand the converter its own field) and every "
    "small tree is also run on a three-sharing-field class; besides them the class has 0-3 fields with a converter of their own / a validator only / nothing, anywhere; on "
    "assignment the value is assigned to EVERY field and the on_setattr configuration is one of 11 (class-level convert, "
    "validate, [convert, validate], reversed, setters.pipe, the front-end default, a custom hook alone or before convert, "
    "field-level convert / list, class validate + field convert) -- whether it runs setters.convert is the case's "
    "`converts`; a dedicated block crosses 10 field orders (validator-only before / after / between converter fields) x "
    "11 configurations x attr.s / define / make_class; in the default mode the fields are init=True or init=False (harness-only), the default is plain or a Factory, "
    "and a default that comes again is another instance of the SAME class, so calls and fresh factory results are judged per "
    "instance; a block of 8 object-producing trees (default_if_none(factory=) alone, in pipes, under optional, next to "
    "Converters) is used on [None, None, token, None] in every mode and default variant; a callback that runs outside a use "
    "(class construction) is an outcome of its own; 30% of the random classes and a dedicated block (5 trees x 3 name pairs "
    "x shared/own in both orders x class modes) contain UNDERSCORE TWINS (`_x` next to `x`, the later one with an explicit "
    "alias= so the init arguments differ; harness-only, the model does not look at names beyond forwarding the field): "
    "each twin must be converted by its own converter in __init__, on a default and on assignment; "
    "non-trivial = depth>=2 or a Converter. "
    "tobool: every letter-case variant of the 12 documented words, bools, ints and int-subclass instances, "
    "float/complex/Decimal/Fraction equal to -1,0,1,2, a pool of 23 unrelated objects, 54 near-miss strings (whitespace, "
    "Unicode look-alikes, Kelvin sign, dotted I) and random one-edit neighbours of the words in random case. din: all "
    "well-formed (default?, is Factory?, takes_self?, factory?) x positional/keyword x explicit NOTHING/None. filter: all "
    "what-lists of length <=1 (thorough <=2) over 12 classes + 9 strings (field names AND init aliases) + 11 Attribute objects (equal ones from "
    "another class, an inherited copy, same name with other settings, a private name whose alias differs, an explicit "
    "alias=, two fields with swapped name and alias) + 7 ignored objects, x 6 attributes x 11 values (bool vs int, "
    "subclass instances, a class as value) each on a filter of its own AND all 78 pairs asked of ONE include/exclude object in "
    "two random orders, then random lists of length 1-6 (60% listing an Attribute) queried with a history of 2-10 "
    "questions built from same-named fields of different classes (equal and non-equal Attributes) with values of one "
    "exact type, the first question repeated at the end; each answer is judged on its own. cmp: all 32 subsets of {eq,lt,le,gt,ge} with "
    "the standard functions x require_same_type x {same type, subclass payload, other type, foreign object, the IDENTICAL "
    "wrapper object on both sides} x 3-5 value pairs, the diagonal (x op x) for each of 10 eq relations -- non-reflexive "
    "ones included -- x 6 sets of ordering functions, then random assignments of 10 relations (incl. constant, NotImplemented-returning and raising functions) to the "
    "supplied slots (thorough: every single-slot deviation). Histories of cmp_using calls: in half of the random cases and in a dedicated block (32 subsets x "
    "require_same_type x mismatched payloads x 3 histories) 1-3 OTHER cmp_using classes are built from the very same "
    "function objects (all, or all but one) with the opposite/same require_same_type before and/or after the class under "
    "test, some of them used -- harness-only: the model knows only the class under test, so any influence shows. Every "
    "callable role (converter functions, Converter's function, pipe members, factories, Factory(...) arguments, cmp "
    "functions, default_if_none's factory in the argument check) is filled by a plain function, or by a valid callable "
    "object that is falsy (__bool__ False) or empty (__len__() == 0). Every supplied callable is instrumented: cmp functions record "
    "each call with the identity of the payload objects they receive (observed per method and per operator, derived ones "
    "included), come in a total and in a partial flavour (raise on payloads of different classes) and raise one of 7 "
    "exception classes (Exception, KeyError, StopIteration, TypeError, AttributeError, ValueError, a BaseException "
    "subclass) whose very object must come out; converter callbacks likewise raise one of those classes, tokens / terms / "
    "factory results / defaults are identity-tracked (a copy is rendered differently), a repeated input is the identical "
    "object, leaf functions are shared between leaves and the combinator is optionally rebuilt per use (no state may be "
    "shared or remembered); filter values include an unhashable one and one whose ==, hash and bool raise. "
    "distinct = distinct JSON case."
)
ASSUMPTIONS = [
    "instrumented callbacks (functions that log their rendered arguments and return a term / None / 0 / raise; factories that return a new numbered object) stand for arbitrary user converters and factories",
    "Python's str.lower() is modelled by ASCII lowering: the twelve documented words consist of [a-z01] and the only non-ASCII character whose lower() is an ASCII letter is U+212A (Kelvin, 'k'), which no word contains; near-miss Unicode strings are part of the correspondence",
    "CPython pieces modelled as small functions and diff-tested, not proved: tuple membership (is/==) between the to_bool literals and bool/int/str/float/complex/Decimal/Fraction, frozenset membership of classes, strings and Attribute objects (Attribute.__eq__ = all settings but `inherited`, not the owning class), functools.total_ordering's twelve derivations and root choice, object's default rich comparisons, the operator protocol (reflected method, identity / TypeError fallback), implicit __hash__ = None",
    "filters: 'the Attribute itself is listed' is read as 'an Attribute equal (==) to it is listed' -- that is what frozenset membership gives and what the model mirrors",
    "field names starting with two underscores are not generated (type()/make_class mangle such slot names, which no class body can produce)",
    "a __init__ that stores through object.__setattr__, _setattr or the instance dict is the same for this property; the class configuration is background variation the model is independent of",
]
LEVEL_TEXT = (
    "37 Lean theorems (Properties/C19.lean) about executable models of pipe/Converter/optional/default_if_none, to_bool, "
    "include/exclude and cmp_using+total_ordering. Converters: the operational model (built objects, isinstance(Converter) "
    "dispatch, one/three-argument calls with arity errors, Converter.__call__'s lambda table, _fmt_converter_call's table, "
    "setters.convert) is proved equal, for every expression tree of any depth and width, every mode and every input "
    "history, to a reference evaluator written from the statement (C19_conv_refines, C19_init_agrees, "
    "C19_model_meets_spec); on top of that C19_pipe_fold (pipe = left-to-right Kleisli fold, arbitrary lists and nesting), "
    "C19_pipe_empty_identity, C19_pipe_assoc, C19_pipe_flatten, C19_pipe_fault_prefix, C19_only_user_faults, "
    "C19_trace_extends, C19_forwarding, C19_ctx_irrelevant, C19_assign_each_field (a converter field is converted on assignment whatever hook-less fields precede it), "
    "C19_optional, C19_default_if_none, C19_default_if_none_fresh "
    "(one factory call per use, results pairwise distinct in one history). to_bool: C19_to_bool_documented (tuples "
    "re-extracted from the source on every run = documented tables, lowering step present), C19_to_bool / "
    "C19_to_bool_strings / C19_to_bool_case_variants / C19_to_bool_case_insensitive (all strings through ASCII lowering, "
    "all ints, bools; everything else ValueError) outside K10 (C19_K10_witness, C19_K10_narrow, C19_K10_shape); "
    "C19_default_if_none_args. Filters: C19_include_iff, C19_exclude_is_negation, C19_include_union for arbitrary "
    "what-lists, C19_filter_history_independent (one filter object asked a sequence answers each question as a fresh one), "
    "C19_include_name_not_alias (a listed string selects by name only). cmp_using: C19_cmp_using_supplied, C19_cmp_using_notimpl (NotImplemented from all six methods, == False, "
    "!= True, orderings TypeError), C19_cmp_using_derived (all integers, every non-empty subset of ordering functions with "
    "eq: all methods and operators compute the order), C19_cmp_using_mismatch_never_calls (on a type mismatch no supplied "
    "function is called by any method or operator, derived and reflected ones included), C19_cmp_using_called_once, C19_cmp_using_no_identity_shortcut (x == x asks the eq function like any other pair), "
    "C19_cmp_using_total (any boolean functions: all six methods answer "
    "with a bool), C19_cmp_using_ctor. The models are tied to /repo by a differential correspondence (see rule; ~26 k "
    "cases quick, ~500 k thorough, zero disagreements required). Observed, not proved: CPython's tuple/frozenset "
    "membership, functools.total_ordering, operator dispatch and str.lower (modelled as small functions and diff-tested); "
    "generated __init__ text is exercised through real classes, not parsed; Attribute equality is a case parameter."
)

_MODS = {
    "conv": (K.observe, K.dist), "tobool": (M.tb_observe, M.tb_dist), "din": (M.din_observe, None),
    "filter": (M.f_observe, M.f_dist), "cmp": (M.c_observe, M.c_dist),
}


def observe(case):
    return _MODS[case["kind"]][0](case)


def gen_cases(tier, rng):
    """round-robin over the five generators so that a budget cut never starves one of them"""
    gens = [M.din_gen(tier, rng), M.tb_gen(tier, rng), M.c_gen(tier, rng), M.f_gen(tier, rng), K.gen_cases(tier, rng)]
    chunk = [40, 200, 400, 400, 300]
    while gens:
        for i in range(len(gens) - 1, -1, -1):
            g = gens[i]
            for _ in range(chunk[i]):
                try:
                    yield next(g)
                except StopIteration:
                    del gens[i], chunk[i]
                    break


def nontrivial(case, model):
    if case["kind"] == "conv":
        return K.nontrivial(case, model)
    if case["kind"] == "cmp":
        return any(case[s] is not None for s in M.SLOTS)
    if case["kind"] == "filter":
        return len(case["what"]) > 0 and len(case["queries"]) > 0
    return True


def dist(case, obs):
    d = {"kind": case["kind"]}
    f = _MODS[case["kind"]][1]
    if f is not None:
        d.update(f(case, obs))
    return d


def shrink(case):
    k = case["kind"]
    if k == "conv":
        yield from K.shrink(case)
    elif k == "cmp":
        yield from M.c_shrink(case)
    elif k == "filter":
        w, pw = case["what"], case["py"]["what"]
        q, pq = case["queries"], case["py"]["queries"]
        if len(q) > 2:
            h = len(q) // 2
            yield dict(case, queries=q[:h], py=dict(case["py"], queries=pq[:h]))
            yield dict(case, queries=q[h:], py=dict(case["py"], queries=pq[h:]))
        if len(q) > 1:
            for i in range(len(q)):
                yield dict(case, queries=q[:i] + q[i + 1:], py=dict(case["py"], queries=pq[:i] + pq[i + 1:]))
        for i in range(len(w)):
            yield dict(case, what=w[:i] + w[i + 1:], py=dict(case["py"], what=pw[:i] + pw[i + 1:]))


def neighbours(case, rng):
    k = case["kind"]
    if k == "conv":
        yield from K.neighbours(case, rng)
    elif k == "cmp":
        yield from M.c_neighbours(case, rng)
    elif k == "filter":
        items = [(w, tuple(p)) for w, p in zip(case["what"], case["py"]["what"])]
        for a in M.ATTRS:
            for v in M.VALUES:
                yield M.f_case(items, [(a, v)])
        for _ in range(20):
            yield M.f_case(items, M.rand_history(rng, list(M.ATTRS), list(M.VALUES)))
    elif k == "tobool":
        v = case["v"]
        if isinstance(v, dict) and "str" in v:
            for s in list(M.case_variants(v["str"]["s"]))[:64]:
                yield M.tb_case({"str": {"s": s}}, "str")
        yield from M.tb_gen("quick", rng)
    elif k == "din":
        yield from M.din_gen("quick", rng)
