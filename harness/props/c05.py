"""C05 -- frozen instances cannot be mutated; frozenness is inherited.

Case = the Lean `Attrs.C05.Case`: the whole hierarchy of the instantiated class as a table of class
specifications in definition order (decorator options that matter for `__setattr__`, CPython's MRO / bases as
relative indices), the initializer model's input for the class that provides `__init__`, layout facts of the
leaf read from the real class, and an operation history.  Harness-only keys: `hspec` (how to build the real
classes), `ctor` (the constructor call), `stream`.
"""
from __future__ import annotations

import copy
import pickle
import sys
import types
import warnings

import attr
from attr._make import _frozen_delattrs, _frozen_setattrs

import c05_build as cb
import common
import initbuild as ib

ID = "C05"
TABLES = ["frozenExcSetNames", "frozenExcDelNames", "hashCacheField", "fn_frozen_setattrs", "fn_frozen_delattrs"]
PARALLEL = True
EXHAUSTIVE = {"quick": False, "thorough": False}
BUDGET_S = {"quick": 30, "thorough": 400}

RULE = (
    "hierarchies = initbuild's random single-inheritance chains (depth<=3; attr.s/define/frozen/these/make_class; dict and "
    "slotted in every order; plain classes in between; mutable hooked ancestors above the first frozen class; cache_hash; "
    "exception roots -- Exception, ValueError, a user's Exception subclass, and bases OUTSIDE the Exception subtree: "
    "BaseException, KeyboardInterrupt, SystemExit, GeneratorExit, asyncio.CancelledError, a user's class Quit(BaseException) "
    "(harness-only: the model sees one builtin root row whose __setattr__/__delattr__ are BaseException's); auto_exc on/off) with at least one class declared frozen, extended by 0-2 plain (undecorated) subclasses "
    "below the last attrs class (dict or __slots__=()), field-less mixins (plain / attrs frozen / attrs mutable / defining "
    "__setattr__ or __delattr__) before or after the main base of any class, body-defined __setattr__/__delattr__ with and without "
    "auto_detect (overridden by frozen=True under attr.s; kept below hooked and frozen bases), "
    "getstate_setstate on/off/default, auto_detect; decorator-object histories (the attr.s/define/frozen/these decorator OBJECT of "
    "a class was first applied to 1-2 other classes with/without own __getstate__+__setstate__/__setattr__/__hash__/__init__, "
    "below object / the same bases / a slotted or dict attrs class -- harness-only: the model is a function of the class alone); streams: valid (80%), K05a shapes (custom definer first, 8%), malformed "
    "(frozen + on_setattr / custom __setattr__, incl. the init=False-without-default field, 12%). Per hierarchy several "
    "operation histories of length 1..6 (quick) / 1..8 (thorough) over {setattr, delattr, augmented assignment} x {every "
    "field (new value, the very object it holds, an equal copy; values are strings or -- for arguments of fields without converter -- "
    "labelled list/dict/set objects, i.e. mutable and unhashable; augmented assignment is a real `+=` / `|=` statement that "
    "works in place on those), a class-level mutable non-field on plain subclasses, unknown public/private name, the hash-cache name, the five "
    "BaseException bookkeeping names, __dict__/__class__} + {hash, copy, "
    "deepcopy, pickle protocols 0..5, evolve (valid and unknown changes); every returned object is compared field by field and, "
    "when hashable through a generated __hash__, against a freshly built twin (hash equality + dict lookup), with histories "
    "that hash the original first} + for exception roots {raise, raise from, implicit "
    "chaining, with_traceback, add_note}; after every operation the full state (vars(), every slot along the MRO, "
    "args/cause/context/suppress/traceback/notes) and the exception kind are compared. Non-trivial = at least one "
    "set/del/aug operation on an instance that was constructed; distinct = distinct (hierarchy, call, history)."
)
ASSUMPTIONS = [
    "CPython attribute lookup, object.__setattr__/__delattr__, BaseException bookkeeping (raise / raise from / chaining / with_traceback / add_note) and the state protocols of copy/pickle are modelled as small trusted functions and diff-tested here",
    "the MRO and direct bases of every class are CPython's (computed on undecorated twins of the hierarchy) and are passed to the model",
    "layout facts of the leaf (which names are slots along the MRO, whether instances have a __dict__, whether any __slots__ is non-empty, which __hash__ the leaf resolves) are read from the real class; C08/C04 check how they come about",
    "expected field lists per class are computed from the specification as in C01 (C07 checks collection)",
    "which state protocol (object's / attrs-generated pair of the initializer's class / slots without __getstate__) the leaf resolves is PREDICTED from the specification by the model (getstate_setstate argument, slots, or inheriting a generated pair: attrs then generates an own pair) and never read off the real class, so mixed slotted/dict frozen chains are copied and pickled under every protocol and compared field by field (plus: the copy hashes); copy operations are only left out for exception roots and for an explicit getstate_setstate=False on a class below a generated pair (the user's opt-out); hash operations only where the leaf resolves the identity hash or the __hash__ generated for the class that provides the initializer (K1 kept out)",
    "what type(inst).__setattr__/__delattr__ resolve to (frozen / object's / hook closure / body-defined) is observed and compared with the class logic of the model",
    "values are symbolic: strings, or labelled list/dict/set objects for arguments of fields without converter (harness-only: the model sees the label; the binding is observed, not the content of a mutable value); callbacks symbolic (initbuild)",
]
LEVEL_TEXT = (
    "Lean theorems (Properties/C05.lean) about an executable model of _frozen_setattrs/_frozen_delattrs (bookkeeping tables "
    "regenerated from the source), _has_frozen_base_class, the __setattr__ part of attrs.wrap / define.wrap / _ClassBuilder / "
    "add_setattr / _make_init_script / the __attrs_own_setattr__ reset, on instances with CPython's lookup order: C05_step, "
    "C05_sequence (arbitrary operation lists: state unchanged, every outcome an error), C05_sequence_any (any history over the "
    "whole alphabet: nothing but the hash cache moves), C05_inherited (first definer along an arbitrary MRO), "
    "C05_chain_inherited / C05_frozen_class_then_chain (chains of any depth below a frozen class stay frozen or are rejected), "
    "C05_attrs_subclass_stays_frozen (every option combination, arbitrary field lists), C05_frozen_definition_accepted_iff, "
    "C05_define_below_frozen_defines (NO_OP rule), C05_constructs / C05_constructs_model / C05_constructs_values / "
    "C05_init_never_frozen_error (through the shared initializer model: never the plain-assignment path), C05_exc_bookkeeping + "
    "C05_exc_names_documented (T1 tables), C05_model_meets_spec, witnesses for K05a/K2/K3/K11. The model is tied to /repo by a "
    "differential correspondence over random hierarchies x operation histories comparing the definition outcome, the "
    "constructor outcome, and after every operation the full state snapshot, exception kind, returned copies' values and "
    "frozenness. CPython's lookup, BaseException bookkeeping and copy/pickle state protocols are modelled and observed, not proved."
)

CACHE = "_attrs_cached_hash"
BOOK = ["__cause__", "__context__", "__traceback__", "__suppress_context__", "__notes__"]
UNKNOWN = ["zz_new", "_zz"]
BOOK_VALUES = {"__cause__": ["E1", "None"], "__context__": ["E2", "None"], "__traceback__": ["tb", "None"],
               "__suppress_context__": ["True", "False"], "__notes__": ["n0"]}
SPECIAL_VALUES = ["@same", "@equal"]
_EMPTY_EX = {"args": [], "cause": None, "context": None, "suppress": False, "tb": False, "notes": None}


# ------------------------------------------------------------------------------------------ case construction
def _dummy_init():
    return {"run": {"cfg": {"frozen": True, "slots": False, "cacheHash": False, "isExc": False, "pre": "none", "post": False,
                            "clsHook": False, "runValidators": True, "collectByMro": False},
                    "attrs": [], "own": [], "bases": [], "cacheIsSlot": False, "fault": None},
            "call": {"pos": [], "kw": []}, "isDefine": False, "clsOnSet": "unset"}


def _has_containers(ctor):
    return any(is_container_token(t) for t in ctor["pos"]) or any(is_container_token(t) for _, t in ctor["kw"])


def containerise(rng, hspec, ctor):
    """the VALUE dimension: arguments of fields without converter become list / dict / set objects (harness-only;
    the model sees the token)"""
    try:
        fields = [f for f in ib.expected_fields(hspec) if f.get("init", True)]
    except Exception:  # noqa: BLE001
        return ctor
    pos_params = [f for f in fields if not f.get("kw_only")]
    by_alias = {(f.get("alias") or ib.default_alias(f["name"])): f for f in fields}

    def conv(f, tok):
        if f is None or f.get("converter") or rng.random() < 0.4:
            return tok
        return rng.choice(["L.", "L.", "D.", "S."]) + tok

    pos = [conv(pos_params[i] if i < len(pos_params) else None, t) for i, t in enumerate(ctor["pos"])]
    kw = [[k, conv(by_alias.get(k), t)] for k, t in ctor["kw"]]
    return {"pos": pos, "kw": kw}


def make_case(hspec, ctor, ops, stream="valid"):
    tbl = cb.table(hspec)
    built = cb.build(hspec)
    case = {"classes": tbl, "excRoot": bool(hspec["classes"][0].get("exc_base")), "ops": ops,
            "hspec": hspec, "ctor": ctor, "stream": stream}
    if built["err"] is not None:
        case.update({"init": _dummy_init(), "owner": 0, "hasDict": True, "slotNames": [], "names": sorted(UNKNOWN + [CACHE]),
                     "anySlots": False, "gs": cb.predicted_gs(tbl, 0, False), "hashNames": None})
        return case
    leaf, owner = built["leaf"], built["owner"]
    run, is_define, cls_on = ib.run_in(hspec)
    slots = cb.slot_names(leaf)
    names = sorted(set([a["name"] for a in run["attrs"]] + UNKNOWN + [CACHE]))
    hashable, hnames = cb.hash_facts(leaf, owner)
    case.update({
        "init": {"run": run, "call": ctor, "isDefine": is_define, "clsOnSet": cls_on},
        "owner": len(built["classes"]) - 1 - built["classes"].index(owner),
        "hasDict": cb.has_dict(leaf),
        "slotNames": slots,
        "names": names,
        "anySlots": cb.any_slots(leaf),
        # predicted from the specification, never read off the real class: a class that resolves another
        # state pair than predicted must show up as a wrong copy, not as a silently skipped operation
        "gs": cb.predicted_gs(tbl, len(built["classes"]) - 1 - built["classes"].index(owner), cb.any_slots(leaf)),
        # list / dict / set field values make hash() a TypeError: no hash operations, no twin hashing then
        "hashNames": None if _has_containers(ctor) else hnames,
        "hashable": hashable and not _has_containers(ctor),
        "leafFrozen": leaf.__setattr__ is _frozen_setattrs and leaf.__delattr__ is _frozen_delattrs,
    })
    return case


# ------------------------------------------------------------------------------------------ generation
def _repair_order(h):
    """after fields were made init=True: no mandatory positional parameter after a defaulted one"""
    for i, cs in enumerate(h["classes"]):
        if cs["kind"] != "attrs" or cs.get("kw_only"):
            continue
        exp = ib.expected_fields({"classes": h["classes"][: i + 1]})
        lookup = {}
        for c2 in h["classes"][: i + 1]:
            if c2["kind"] == "attrs":
                for f in c2.get("fields", []):
                    lookup[f["name"]] = f
        had_default = False
        for e in exp:
            f = lookup[e["name"]]
            if not f.get("init", True) or e["kw_only"] or f.get("kw_only"):
                continue
            if f["default"] != "none":
                had_default = True
            elif had_default:
                f["kw_only"] = True


def _decorate_hspec(rng, h, stream):
    """add tail / mixins / state-method options to a chain from initbuild"""
    h = copy.deepcopy(h)
    # the exception-base dimension: initbuild picks among builtins on both sides of `Exception`; add stdlib / user-made
    # roots (a user's class Quit(BaseException), asyncio.CancelledError, a user's Exception subclass)
    if h["classes"][0].get("exc_base") and rng.random() < 0.3:
        h["classes"][0]["exc_root"] = rng.choice(["Quit", "Quit", "CancelledError", "AppError"])
    for cs in h["classes"]:
        if cs["kind"] != "attrs":
            continue
        if rng.random() < 0.25:
            cs["getstate_setstate"] = rng.choice([True, False])
        if rng.random() < 0.15:
            cs["auto_detect"] = rng.choice([True, False])
        if cs.get("api") in ("define", "frozen") and cs.get("frozen") is False and rng.random() < 0.3:
            cs["frozen"] = None          # leave define's default in place
    # frozenness through an ancestor only: classes below the first frozen one are often not declared frozen
    first_fr = next(i for i, cs in enumerate(h["classes"]) if cs["kind"] == "attrs" and (cs.get("frozen") or cs.get("api") == "frozen"))
    for cs in h["classes"][first_fr + 1:]:
        if cs["kind"] == "attrs" and rng.random() < 0.5:
            if cs.get("api") == "frozen":
                cs["api"] = "define"
            cs["frozen"] = rng.choice([False, None]) if cs.get("api") == "define" else False
    # a body __setattr__/__delattr__ that attrs overrides: frozen=True without auto_detect (attr.s family)
    for cs in h["classes"]:
        if (cs["kind"] == "attrs" and cs.get("frozen") is True and cs.get("api") in ("attr.s", "these", "make_class")
                and not cs.get("auto_detect") and rng.random() < 0.06):
            cs[rng.choice(["user_set", "user_del"])] = True
    # the plain-storage family: every field init=True without converter/validator, no init hooks -- the shape
    # for which "the initializer only stores its arguments", often hash-caching
    if rng.random() < 0.2:
        for cs in h["classes"]:
            cs["pre"], cs["post"] = "none", False
            for f in cs.get("fields", []):
                f["converter"], f["validators"], f["init"] = None, 0, True
        # two different fields whose init aliases coincide (_p / p, explicit al_p) cannot both be parameters:
        # drop the later one (a re-declaration of the same name further down is fine)
        owner_of = {}
        for cs in h["classes"]:
            keep = []
            for f in cs.get("fields", []):
                al = f.get("alias") or ib.default_alias(f["name"])
                if owner_of.setdefault(al, f["name"]) == f["name"]:
                    keep.append(f)
            if "fields" in cs:
                cs["fields"] = keep
        leaf_cs = h["classes"][-1]
        if (leaf_cs["kind"] == "attrs" and not leaf_cs.get("cache_hash") and not h["classes"][0].get("exc_base")
                and rng.random() < 0.6):
            leaf_cs["cache_hash"] = True
            leaf_cs["unsafe_hash"] = True
            if rng.random() < 0.7:
                leaf_cs["slots"] = False
        _repair_order(h)
    # decorator-object histories: the decorator of a class was first applied to 0-2 other classes
    for cs in h["classes"]:
        if cs["kind"] == "attrs" and cs.get("api") != "make_class" and rng.random() < 0.4:
            cs["deco_hist"] = [{"own": rng.sample(["getstate", "setattr", "hash", "init"], rng.choice([0, 0, 1, 1, 2])),
                                "base": rng.choice(["object", "object", "same", "slotted_attrs", "dict_attrs"]),
                                "field": rng.random() < 0.5} for _ in range(rng.choice([1, 1, 2]))]
            if cs.get("api") in ("attr.s", "these") and cs.get("auto_detect") is None and rng.random() < 0.4:
                cs["auto_detect"] = True      # own methods of the earlier classes are then looked at
    ntail = rng.choice([0, 0, 0, 1, 1, 2])
    h["tail"] = [{"name": f"T{i}", "plain_slots": rng.random() < 0.4, "klist": rng.random() < 0.5} for i in range(ntail)]
    # mixins
    for cs in h["classes"] + h["tail"]:
        if rng.random() < 0.18:
            kind = rng.choice(["plain", "plain", "attrs_frozen", "attrs_frozen", "attrs_mutable"])
            # an attrs class listed first would shadow __attrs_attrs__ / __init__ of the main line: plain mixins only
            cs["mixin"] = {"kind": kind, "slots": rng.random() < 0.5, "api": rng.choice(["attr.s", "define"]),
                           "pos": "after" if kind.startswith("attrs") else rng.choice(["before", "after"])}
    if stream == "k05a":
        where = rng.choice(["tail", "mixin", "chain"])
        # below (or at) the first class declared frozen
        first = next(i for i, cs in enumerate(h["classes"]) if cs["kind"] == "attrs" and (cs.get("frozen") or cs.get("api") == "frozen"))
        if where == "tail" or (where == "chain" and first == len(h["classes"]) - 1):
            if not h["tail"]:
                h["tail"] = [{"name": "T0", "plain_slots": rng.random() < 0.4}]
            t = rng.choice(h["tail"])
            t[rng.choice(["user_set", "user_del"])] = True
        elif where == "mixin":
            cands = h["classes"][first + 1:] + h["tail"]
            if not cands:
                h["tail"] = [{"name": "T0", "plain_slots": False}]
                cands = h["tail"]
            t = rng.choice(cands)
            t["mixin"] = {"kind": rng.choice(["userset", "userdel"]), "slots": rng.random() < 0.5, "api": "attr.s", "pos": "before"}
        else:
            cs = rng.choice([c for c in h["classes"][first + 1:] if c["kind"] == "attrs"] or [h["classes"][-1]])
            if cs is h["classes"][first]:
                h["tail"] = h["tail"] or [{"name": "T0", "plain_slots": False}]
                h["tail"][0]["user_set"] = True
            else:
                cs[rng.choice(["user_set", "user_set", "user_del"])] = True
                # a hooked (attrs-made __setattr__) ancestor above the frozen class: the subclass inherits the
                # __attrs_own_setattr__ marker, and the reset must not replace the body's method
                top = h["classes"][0]
                if first > 0 and top["kind"] == "attrs" and top.get("fields") and rng.random() < 0.6:
                    top["cls_on_setattr"] = "hook"
                elif rng.random() < 0.7:
                    used = {(f.get("alias") or f["name"]).lstrip("_") for c in h["classes"] for f in c.get("fields", [])}
                    used |= {f["name"].lstrip("_") for c in h["classes"] for f in c.get("fields", [])}
                    free = [n for n in ib.FIELD_NAMES if n.lstrip("_") not in used]     # no init-alias clash (_p / p)
                    if free:
                        root = {"kind": "attrs", "name": "H0", "api": "attr.s", "slots": rng.choice([None, True, False]), "frozen": False,
                                "kw_only": False, "cache_hash": False, "pre": "none", "post": False, "cls_on_setattr": "hook",
                                "collect_by_mro": True, "exc_base": bool(top.get("exc_base")),
                                "fields": [{"name": free[0], "default": "value", "init": True, "kw_only": True, "alias": None, "converter": None,
                                            "validators": 0, "on_setattr": "unset", "type": None, "conv_type": False}]}
                        if root["exc_base"]:
                            root["auto_exc"] = None
                            if top.get("exc_root"):
                                root["exc_root"] = top.pop("exc_root")
                        top["exc_base"] = False
                        h["classes"].insert(0, root)
                if cs.get("api") in ("attr.s", "these", "make_class") and rng.random() < 0.7:
                    cs["slots"] = False
                    cs["auto_detect"] = None
                cs["frozen"] = False if cs.get("api") != "frozen" else None
                if cs.get("api") == "frozen":
                    cs["api"] = "define"
                    cs["frozen"] = False
    elif stream == "malformed":
        first = next(i for i, cs in enumerate(h["classes"]) if cs["kind"] == "attrs" and (cs.get("frozen") or cs.get("api") == "frozen"))
        cands = [c for c in h["classes"][first:] if c["kind"] == "attrs"]
        cs = rng.choice(cands)
        how = rng.choice(["f8", "f8", "field", "cls", "userset"])
        if how == "f8":
            used = {f["name"].lstrip("_") for c in h["classes"] for f in c.get("fields", [])}
            free = [n for n in ib.FIELD_NAMES if n.lstrip("_") not in used] or ["q9"]
            cs["fields"].append({"name": free[0], "default": "none", "init": False, "kw_only": False, "alias": None,
                                 "converter": None, "validators": 0, "on_setattr": rng.choice(["hook", "hooks2", "validate", "noop"]),
                                 "type": None, "conv_type": False})
        elif how == "field" and cs["fields"]:
            rng.choice(cs["fields"])["on_setattr"] = rng.choice(["hook", "noop", "validate", "convert"])
        elif how == "cls" or (how == "field" and not cs["fields"]):
            cs["cls_on_setattr"] = rng.choice(["hook", "validate", "convert", "pipeCV"])
        else:
            cs["user_set"] = True
            cs["auto_detect"] = True
    return h


def _op_pool(case, rng):
    """operations applicable to this case, weighted"""
    fields = [a["name"] for a in case["init"]["run"]["attrs"]]
    exc = case["excRoot"]
    names = fields * 3 + UNKNOWN + [CACHE] + BOOK
    pool = []
    klist = any(t.get("klist") for t in case["hspec"].get("tail", []))
    if not case.get("leafFrozen", True):
        # K05a shapes (a custom __setattr__/__delattr__ comes first): plain mutation attempts only
        names = fields * 3 + UNKNOWN
        for _ in range(8):
            n = rng.choice(names)
            k = rng.choice(["set", "set", "del", "aug"])
            pool.append({"set": {"name": n, "v": f"s{rng.randint(1, 3)}"}} if k == "set" else
                        {"del": {"name": n}} if k == "del" else {"aug": {"name": n, "v": "+a"}})
        return pool

    def val():
        return f"s{rng.randint(1, 3)}"

    for _ in range(10):
        n = rng.choice(names)
        k = rng.choice(["set", "set", "del", "aug"])
        if k == "set":
            v = rng.choice(BOOK_VALUES[n]) if n in BOOK else val()
            if n in fields and rng.random() < 0.4:
                v = rng.choice(SPECIAL_VALUES)      # the very object / an equal object the attribute already holds
            pool.append({"set": {"name": n, "v": v}})
        elif k == "del":
            pool.append({"del": {"name": n}})
        elif n not in BOOK and n != CACHE:
            pool.append({"aug": {"name": n, "v": rng.choice(["+a", "+a", ""])}})
    if klist and case.get("leafFrozen", True):
        # a NON-field whose current value is a mutable class-level object: re-binding it on the instance is a set attempt too
        pool.append(rng.choice([{"set": {"name": "klist", "v": "@same"}}, {"set": {"name": "klist", "v": "@same"}}, {"del": {"name": "klist"}}]))
    # the instance's own machinery attributes
    pool.append(rng.choice([{"set": {"name": "__class__", "v": "@cls"}}, {"set": {"name": "__dict__", "v": "@emptydict"}},
                            {"del": {"name": "__dict__"}}, {"del": {"name": "__class__"}}]))
    if case.get("hashable"):
        pool += ["hash", "hash"]
    if case["gs"] != "other" and not exc:
        pool += ["copy", "deepcopy"]
        protos = [2, 3, 4, 5] if case["gs"] == "optOut" else [0, 1, 2, 3, 4, 5]
        pool += [{"pickle": {"proto": rng.choice(protos)}}]
    aliases = [a["alias"] for a in case["init"]["run"]["attrs"] if a["init"]]
    k = rng.randint(0, len(aliases))
    ch = [[al, f"n{i + 1}"] for i, al in enumerate(rng.sample(aliases, k))]
    if rng.random() < 0.15:
        ch.append(["nope", "n9"])
    pool += [{"evolve": {"changes": ch}}]
    if exc:
        pool += ["raise_", "raiseFrom", "chain", {"withTb": {"present": rng.random() < 0.5}}, {"addNote": {"v": f"n{rng.randint(1, 2)}"}},
                 {"addNote": {"v": "n3"}}, {"del": {"name": "__notes__"}},
                 {"set": {"name": rng.choice(BOOK), "v": None}}]
        pool[-1]["set"]["v"] = rng.choice(BOOK_VALUES[pool[-1]["set"]["name"]])
    return pool


def gen_ops(case, rng, maxlen):
    pool = _op_pool(case, rng)
    n = rng.randint(1, maxlen)
    ops = [copy.deepcopy(rng.choice(pool)) for _ in range(n)]
    if case.get("hashable") and case.get("leafFrozen", True) and rng.random() < 0.35:
        # history: the ORIGINAL is hashed first (fills a hash cache), then a result object is produced and
        # compared with a freshly built twin
        res_ops = [op for op in pool if _opname(op) in ("evolve", "copy", "deepcopy", "pickle")]
        res_ops += [op for op in pool if _opname(op) == "evolve" and op["evolve"]["changes"]] * 3
        if res_ops:
            ops = ["hash"] + ops[: max(0, maxlen - 2)] + [copy.deepcopy(rng.choice(res_ops))]
    return ops


def gen_cases(tier, rng):
    n_h = 4200 if tier == "quick" else 120000
    maxlen = 6 if tier == "quick" else 8
    per = 3 if tier == "quick" else 4
    for _ in range(n_h):
        r = rng.random()
        stream = "valid" if r < 0.80 else "k05a" if r < 0.88 else "malformed"
        h0 = ib.gen_hspec(rng, frozen=True)
        h0["classes"][-1].pop("init", None)   # evolve()/copy go through cls(...): a leaf without generated __init__ is C14's subject
        try:
            h = _decorate_hspec(rng, h0, stream)
        except Exception:  # noqa: BLE001
            h = _decorate_hspec(rng, h0, "valid")
            stream = "valid"
        ctor = ib.gen_call(rng, h, malformed=0.0)
        if rng.random() < 0.35:
            ctor = containerise(rng, h, ctor)
        try:
            base = make_case(h, ctor, [], stream)
        except Exception as e:  # noqa: BLE001
            yield {"__gen_error__": f"{type(e).__name__}: {e}", "hspec": h}
            continue
        for _ in range(per if cb.build(h)["err"] is None else 1):
            yield dict(base, ops=gen_ops(base, rng, maxlen))


# ------------------------------------------------------------------------------------------ observing
class _Tok(Exception):
    pass


def _tb_object():
    try:
        raise _Tok("tb")
    except _Tok as e:
        return e.__traceback__


class LList(list):
    """a mutable, unhashable value that stands for the token in `.label` whatever it contains later"""


class LDict(dict):
    pass


class LSet(set):
    pass


_KINDS = {"L.": LList, "D.": LDict, "S.": LSet}
CONTAINERS = (LList, LDict, LSet)


def is_container_token(tok):
    return isinstance(tok, str) and tok[:2] in _KINDS


def _mat(tok):
    """materialise a call token: `L.t1` / `D.t1` / `S.t1` become a fresh list / dict / set labelled with the token"""
    if not is_container_token(tok):
        return tok
    kind = _KINDS[tok[:2]]
    obj = kind([tok]) if kind is not LDict else kind({tok: 1})
    obj.label = tok
    return obj


def _equal_copy(cur):
    new = type(cur)(cur)
    new.label = cur.label
    return new


def _canon(v, toks):
    if v is None:
        return "None"
    if isinstance(v, CONTAINERS):
        return getattr(v, "label", "other:unlabelled")      # the binding is observed, not the content
    if isinstance(v, str):
        return v
    if isinstance(v, bool):
        return "True" if v else "False"
    if isinstance(v, int):
        return "int"
    for k, t in toks.items():
        if v is t:
            return k
    return "other:" + type(v).__name__


def snapshot(inst, slot_names, toks):
    d = []
    try:
        dd = object.__getattribute__(inst, "__dict__")
    except AttributeError:
        dd = None
    if dd is not None:
        for k in sorted(dd):
            if k == "__notes__":
                continue
            d.append([k, _canon(dd[k], toks)])
    slots = []
    t = type(inst)
    for n in slot_names:
        val = None
        for k in t.__mro__:
            desc = k.__dict__.get(n)
            if isinstance(desc, types.MemberDescriptorType):
                try:
                    val = _canon(desc.__get__(inst, t), toks)
                except AttributeError:
                    val = None
                break
        slots.append([n, val])
    if isinstance(inst, BaseException):
        notes = getattr(inst, "__notes__", None)
        ex = {"args": [_canon(a, toks) for a in inst.args],
              "cause": None if inst.__cause__ is None else _canon(inst.__cause__, toks),
              "context": None if inst.__context__ is None else _canon(inst.__context__, toks),
              "suppress": bool(inst.__suppress_context__),
              "tb": inst.__traceback__ is not None,
              "notes": None if notes is None else [_canon(x, toks) for x in notes] if isinstance(notes, list) else ["other"]}
    else:
        ex = dict(_EMPTY_EX)
    return {"dict": d, "slots": slots, "ex": ex}


_AUG_CODE: dict = {}


def _aug(inst, name, v):
    """a real augmented-assignment STATEMENT on the attribute: `+=` for str / list, `|=` for dict / set (for
    mutable values the operator works in place and then re-binds the very same object)"""
    try:
        cur = getattr(inst, name)
    except Exception:  # noqa: BLE001
        cur = None
    opnd, sym = v, "+="
    if isinstance(cur, LList):
        opnd = [v] if v else []
    elif isinstance(cur, LDict):
        opnd, sym = ({v: 1} if v else {}), "|="
    elif isinstance(cur, LSet):
        opnd, sym = ({v} if v else set()), "|="
    code = _AUG_CODE.get((name, sym))
    if code is None:
        code = _AUG_CODE[(name, sym)] = compile(f"o.{name} {sym} v", "<c05 aug>", "exec")
    exec(code, {"o": inst, "v": opnd})


def _book_value(name, v, toks):
    if name == "__notes__":
        return [v]
    if v == "None":
        return None
    if v in ("True", "False"):
        return v == "True"
    return toks.get(v, v)


def _plain_value(inst, name, v):
    """@same: the object the attribute holds now; @equal: an equal but distinct object; @cls / @emptydict"""
    if v == "@cls":
        return type(inst)
    if v == "@emptydict":
        return {}
    if v in ("@same", "@equal"):
        try:
            cur = getattr(inst, name)
        except Exception:  # noqa: BLE001
            return "s1"
        if v == "@same":
            return cur
        if isinstance(cur, CONTAINERS):
            return _equal_copy(cur)
        if not isinstance(cur, str):
            return cur
        return cur[:1] + cur[1:] if len(cur) > 1 else cur
    return v


def _read_values(inst, names):
    vals = []
    for n in names:
        try:
            v = getattr(inst, n)
        except AttributeError:
            vals.append([n, None])
            continue
        except BaseException as e:  # noqa: BLE001
            vals.append([n, "exc:" + common.exc_kind(e)])
            continue
        vals.append([n, v.label if isinstance(v, CONTAINERS) else ib._canon(v)])
    return vals


def _twin(res, names):
    """an instance of the same class built from scratch with the field values of `res` and an empty hash cache"""
    cls = type(res)
    twin = cls.__new__(cls)
    for n in names:
        try:
            object.__setattr__(twin, n, getattr(res, n))
        except AttributeError:
            pass
    try:
        getattr(res, CACHE)
    except AttributeError:
        pass
    else:
        object.__setattr__(twin, CACHE, None)      # a hash-caching class: the twin starts with an empty cache
    return twin


def _result(res, inst, names, hashed=False):
    ib.SELF[0] = res
    vals = _read_values(res, names)
    flags = []
    if hashed:
        # the returned object must hash through the generated __hash__ (cache carried over or re-created) ...
        try:
            hr = hash(res)
            if hr == hash(res):
                flags.append("reshash")
            # ... like a freshly built twin with the same field values (a stale hash code of the original
            # must not travel along), and must be found in a dict keyed by that twin
            twin = _twin(res, names)
            if hash(twin) == hr and {twin: 1}.get(res) == 1:
                flags.append("twin")
        except Exception:  # noqa: BLE001
            pass
    if res is not inst and type(res) is type(inst):
        flags.append("fresh")
    try:
        setattr(res, "zz_probe", "p")
    except attr.exceptions.FrozenInstanceError:
        flags.append("frozen")
    except Exception:  # noqa: BLE001
        pass
    return vals, flags


def _pickle_roundtrip(inst, proto):
    cls = type(inst)
    modname, qn = cls.__module__, cls.__qualname__
    mod = sys.modules.get(modname)
    created = mod is None
    if created:
        mod = sys.modules[modname] = types.ModuleType(modname)
    sentinel = object()
    old = mod.__dict__.get(qn, sentinel)
    setattr(mod, qn, cls)
    try:
        return pickle.loads(pickle.dumps(inst, proto))
    finally:
        if old is sentinel:
            delattr(mod, qn)
        else:
            setattr(mod, qn, old)
        if created:
            del sys.modules[modname]


def apply_op(inst, op, case, toks, names):
    """-> (exc kind | None, values | None, flags)"""
    values, flags = None, []
    try:
        if op == "hash":
            h1 = hash(inst)
            h2 = hash(inst)
            flags = ["stable"] if h1 == h2 else []
        elif op in ("copy", "deepcopy"):
            res = copy.copy(inst) if op == "copy" else copy.deepcopy(inst)
            values, flags = _result(res, inst, names, case.get("hashNames") is not None)
        elif op == "raise_":
            try:
                raise inst
            except BaseException as c:  # noqa: BLE001
                flags = ["caught"] if c is inst else []
        elif op == "raiseFrom":
            try:
                raise inst from toks["E1"]
            except BaseException as c:  # noqa: BLE001
                flags = ["caught"] if c is inst else []
        elif op == "chain":
            try:
                try:
                    raise toks["E2"]
                except BaseException:  # noqa: BLE001
                    raise inst
            except BaseException as c:  # noqa: BLE001
                flags = ["caught"] if c is inst else []
        else:
            (k, a), = op.items()
            if k == "set":
                n = a["name"]
                setattr(inst, n, _book_value(n, a["v"], toks) if n in BOOK else _plain_value(inst, n, a["v"]))
            elif k == "del":
                delattr(inst, a["name"])
            elif k == "aug":
                _aug(inst, a["name"], a["v"])
            elif k == "pickle":
                res = _pickle_roundtrip(inst, a["proto"])
                values, flags = _result(res, inst, names, case.get("hashNames") is not None)
            elif k == "evolve":
                ib.SELF[0] = None
                ib.SELF_CLASS[0] = type(inst)
                try:
                    with warnings.catch_warnings():
                        warnings.simplefilter("ignore")
                        res = attr.evolve(inst, **dict(a["changes"]))
                finally:
                    ib.SELF_CLASS[0] = None
                values, flags = _result(res, inst, names, case.get("hashNames") is not None)
            elif k == "withTb":
                r = inst.with_traceback(toks["tb"] if a["present"] else None)
                flags = ["self"] if r is inst else []
            elif k == "addNote":
                inst.add_note(a["v"])
            else:
                raise RuntimeError(f"unknown op {op}")
    except BaseException as e:  # noqa: BLE001
        return ib.exc_enum(e), None, []
    finally:
        ib.SELF[0] = inst
        del ib.TRACE[:]
    return None, values, flags


def observe(case):
    if "__gen_error__" in case:
        raise RuntimeError("case could not be generated: " + case["__gen_error__"])
    h = case["hspec"]
    built = cb.build(h)
    if built["err"] is not None:
        i, e = built["err"]
        return {"defErr": {"idx": i, "exc": ib.exc_enum(e)}, "rset": None, "rdel": None, "ctor": None, "start": None, "steps": []}
    leaf, owner = built["leaf"], built["owner"]
    call = case["ctor"]
    main_leaf = h["classes"][-1]
    init_name = "__attrs_init__" if main_leaf.get("init") is False else "__init__"
    try:
        names = [f["name"] for f in ib.expected_fields(h)]
    except Exception:  # noqa: BLE001
        names = []
    slot_names = cb.slot_names(leaf)
    rset, rdel = cb.resolved_kinds(leaf)
    toks = {"E1": ValueError("E1"), "E2": KeyError("E2"), "tb": _tb_object()}
    del ib.TRACE[:]
    ib.FAULT[0] = None
    inst = leaf.__new__(leaf)
    ib.SELF[0] = inst
    prev = attr.validators.get_disabled()
    attr.validators.set_disabled(False)
    ctor = None
    try:
        try:
            getattr(leaf, init_name)(inst, *[_mat(t) for t in call["pos"]], **{k: _mat(t) for k, t in call["kw"]})
        except BaseException as e:  # noqa: BLE001
            ctor = ib.exc_enum(e)
        del ib.TRACE[:]
        if ctor is not None:
            return {"defErr": None, "rset": rset, "rdel": rdel, "ctor": ctor, "start": None, "steps": []}
        start = snapshot(inst, slot_names, toks)
        steps = []
        for op in case["ops"]:
            exc, values, flags = apply_op(inst, op, case, toks, names)
            steps.append({"exc": exc, "snap": snapshot(inst, slot_names, toks), "values": values, "flags": sorted(flags)})
        return {"defErr": None, "rset": rset, "rdel": rdel, "ctor": None, "start": start, "steps": steps}
    finally:
        attr.validators.set_disabled(prev)
        ib.SELF[0] = None
        ib.SELF_CLASS[0] = None
        del ib.TRACE[:]


# ------------------------------------------------------------------------------------------ bookkeeping
def _mut(op):
    return isinstance(op, dict) and next(iter(op)) in ("set", "del", "aug")


def nontrivial(case, model):
    return bool(model) and model.get("start") is not None and any(_mut(op) for op in case["ops"])


def _opname(op):
    return op if isinstance(op, str) else next(iter(op))


def dist(case, obs):
    h = case["hspec"]
    leaf = h["classes"][-1]
    d = {
        "stream": case.get("stream"),
        "depth": len(h["classes"]), "tail": len(h.get("tail", [])),
        "mixins": sum(1 for cs in h["classes"] + h.get("tail", []) if cs.get("mixin")),
        "deco_hist": sum(len(cs.get("deco_hist", [])) for cs in h["classes"]),
        "api": leaf.get("api"), "exc_root": case["excRoot"],
        "exc_base": (h["classes"][0].get("exc_root") or "Exception") if case["excRoot"] else "-",
        "exc_outside_Exception": bool(case["excRoot"]) and (h["classes"][0].get("exc_root") in cb.OUTSIDE_EXCEPTION),
        "slots": case["init"]["run"]["cfg"]["slots"], "cache_hash": case["init"]["run"]["cfg"]["cacheHash"],
        "hasDict": case["hasDict"], "gs": case["gs"], "n_ops": len(case["ops"]),
        "n_fields": len(case["init"]["run"]["attrs"]),
    }
    if isinstance(obs, dict):
        d["outcome"] = "defErr" if obs.get("defErr") else "ctor:" + str(obs.get("ctor")) if obs.get("ctor") else "ran"
        # op kinds and step outcomes as two small dimensions
        kinds = sorted({_opname(op) for op in case["ops"]})
        d["op_kinds"] = ",".join(kinds)[:60]
        excs = sorted({str(st.get("exc")) for st in obs.get("steps", [])})
        d["step_excs"] = ",".join(excs)
        targets = set()
        for op in case["ops"]:
            if _mut(op):
                n = next(iter(op.values()))["name"]
                targets.add("book" if n in BOOK else "cache" if n == CACHE else "unknown" if n in UNKNOWN else
                            "machinery" if n in ("__dict__", "__class__") else "field")
        d["mutation_targets"] = ",".join(sorted(targets))
    frozen_via = "direct" if (leaf.get("frozen") or leaf.get("api") == "frozen") else "ancestor"
    if h.get("tail"):
        frozen_via = "plain-subclass"
    d["frozen_via"] = frozen_via
    return d


def shrink(case):
    ops = case["ops"]
    for i in range(len(ops)):
        yield dict(case, ops=ops[:i] + ops[i + 1:])
    h = case["hspec"]

    def remake(h2):
        try:
            c2 = make_case(h2, case["ctor"], case["ops"], case.get("stream", "valid"))
            if c2["gs"] == "other" or case["excRoot"]:
                c2["ops"] = [op for op in c2["ops"] if _opname(op) not in ("copy", "deepcopy", "pickle")]
            if not c2.get("hashable"):
                c2["ops"] = [op for op in c2["ops"] if op != "hash"]
            yield c2
        except Exception:  # noqa: BLE001
            return

    if h.get("tail"):
        h2 = copy.deepcopy(h)
        h2["tail"] = h2["tail"][:-1]
        yield from remake(h2)
    if h["classes"][0].get("exc_base"):
        er = h["classes"][0].get("exc_root") or "Exception"
        for simpler in ("Exception", "BaseException"):
            if er != simpler and not (simpler == "BaseException" and er == "Exception"):
                h2 = copy.deepcopy(h)
                h2["classes"][0]["exc_root"] = simpler
                yield from remake(h2)
    for part in ("classes", "tail"):
        for i, cs in enumerate(h.get(part, [])):
            for key in ("deco_hist", "mixin", "user_set", "user_del", "getstate_setstate", "auto_detect"):
                if cs.get(key) is not None and cs.get(key) is not False:
                    h2 = copy.deepcopy(h)
                    h2[part][i].pop(key, None)
                    yield from remake(h2)
    if len(h["classes"]) > 1:
        for ci in range(len(h["classes"]) - 1):
            h2 = copy.deepcopy(h)
            eb, er = h2["classes"][0].get("exc_base"), h2["classes"][0].get("exc_root")
            del h2["classes"][ci]
            h2["classes"][0]["exc_base"] = eb
            if er:
                h2["classes"][0]["exc_root"] = er
            if any(c["kind"] == "attrs" and (c.get("frozen") or c.get("api") == "frozen") for c in h2["classes"]):
                yield from remake(h2)
    for ci, cs in enumerate(h["classes"]):
        if cs["kind"] != "attrs":
            continue
        for fi in range(len(cs.get("fields", []))):
            h2 = copy.deepcopy(h)
            del h2["classes"][ci]["fields"][fi]
            c_ops = case["ops"]
            try:
                ctor2 = {"pos": [], "kw": []}
                exp = [f for f in ib.expected_fields(h2) if f.get("init", True)]
                ctor2["kw"] = [[f.get("alias") or ib.default_alias(f["name"]), f"t{j + 1}"] for j, f in enumerate(exp) if f["default"] == "none"]
                c2 = make_case(h2, ctor2, c_ops, case.get("stream", "valid"))
                gone = cs["fields"][fi]["name"]
                c2["ops"] = [op for op in c2["ops"] if not (isinstance(op, dict) and next(iter(op.values())).get("name") == gone)
                             and _opname(op) != "evolve"]
                if c2["gs"] == "other":
                    c2["ops"] = [op for op in c2["ops"] if _opname(op) not in ("copy", "deepcopy", "pickle")]
                if not c2.get("hashable"):
                    c2["ops"] = [op for op in c2["ops"] if op != "hash"]
                yield c2
            except Exception:  # noqa: BLE001
                continue
        for k, v in (("cache_hash", False), ("pre", "none"), ("post", False), ("kw_only", False)):
            if cs.get(k) != v:
                h2 = copy.deepcopy(h)
                h2["classes"][ci][k] = v
                if k == "cache_hash":
                    h2["classes"][ci].pop("unsafe_hash", None)
                yield from remake(h2)


def neighbours(case, rng):
    if case.get("init", {}).get("run"):
        for _ in range(25):
            try:
                yield dict(case, ops=gen_ops(case, rng, 4))
            except Exception:  # noqa: BLE001
                break
    yield from shrink(case)
