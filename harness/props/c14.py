"""C14 -- method-generation decision table; user-defined methods are never replaced.

Case = the Lean `Attrs.C14.Case`: api, every decorator flag in its written state (not passed / None / True /
False), the names the class body binds, the shape of the bases (attrs base that is vanilla / hooked / frozen,
a plain class in between and the names it defines, Exception root) -- plus a harness-only `cfg` (slotted-ness of
the attrs base) the model does not read.

Observation = for every watched name (all names of all method groups, `__attrs_own_setattr__`, and every other
name the body binds): what `C.__dict__[name]` is -- the user's own object (identity), an attrs-generated function
that passes its behaviour probe (`gen`) or fails it (`genBroken`), None, object.__setattr__, the frozen
setattr/delattr, the generated `__match_args__` tuple, absent -- or the kind of the definition error.
"""
from __future__ import annotations

import itertools
import json
import os
import pickle
import sys
import types
import warnings
import zlib

import attr
import attrs
from attr import _make as _attr_make

import common

ID = "C14"
TABLES = ["attrsKw", "defineKw", "frozenPartialKw", "fn_determine_whether_to_implement", "fn_attrs_wrap", "fn_define_wrap"]
PARALLEL = True
BUDGET_S = {"quick": 40, "thorough": 420}
EXHAUSTIVE = {"quick": False, "thorough": True}

RULE = ("cases = api {attr.s, define, frozen} x auto_detect {unset,T,F} x written flag {unset,None,T,F} of every group "
        "(repr, eq, order, cmp, init, getstate_setstate; hash/unsafe_hash also a non-bool) x str/match_args/slots/frozen/"
        "cache_hash/auto_exc {unset,T,F} x front-end {class+decorator, define over unannotated attr.ib()s (auto_attribs retry), attr.make_class with class_body} x on_setattr {unset,None,hook,validate,NO_OP} x field validator x names bound in "
        "the body x bases (attrs base none/vanilla/hooked/frozen, plain class in between defining names, Exception root). "
        "thorough: one exhaustive block per group (flag(s) x every subset of the group's names in the body x api x "
        "auto_detect x slots x frozen x base-defined subsets x attrs base) + random cross-group combinations; quick: a "
        "seeded sample of every block + cross-group combinations. Every case additionally carries a HISTORY: the same "
        "decorator object is first applied to k in {0,1,2} other classes with different own-method subsets; and body entries "
        "come in two kinds: a fresh user object, or an ALIAS of the object the bases provide under that name (a third of the "
        "entries of every case + an exhaustive block over every group name x api x auto_detect x slots x bases); attrs bases "
        "with/without generated __init__ and init hooks, subclasses adding a field or none (block sub_attrs_init); per-field eq/order/hash/repr/init switched off on one / every "
        "/ the re-declared inherited field (block field_opts + a third of all cases). non-trivial = class was built and at least one watched "
        "name is the user's own object or attrs-made; distinct = distinct JSON case")
ASSUMPTIONS = [
    "front-end of the observed class (cfg.front, harness-only, a third of all cases): under define/frozen the fields are "
    "UNANNOTATED attr.ib()s (define's auto_attribs guess: first attempt faults with UnannotatedAttributeError, second attempt "
    "must run with the same flags); under attr.s the class is made by attr.make_class(name, {fields}, bases, class_body="
    "{user methods, init hooks}, **flags) -- only where make_class's own eq/order resolution cannot change attr.s's decision "
    "(eq and order both written True/False, or auto_detect not True, or no comparison method in the body). The model does "
    "not read the front-end: the method table is a function of flags, body names and bases only",
    "CPython's class creation rule '__eq__ in the namespace and no __hash__ => __hash__ = None' is a 1-line model function, diff-tested here",
    "attribute resolution of __setattr__ / __attrs_own_setattr__ over the MRO is summarised by the base-shape parameters",
    "a function counts as attrs-generated if its code object comes from '<attrs generated ...' or from a file of the attr package; "
    "`gen` additionally requires that it passes a behaviour probe (repr string, ==/!= of equal/unequal instances, ordering, hash "
    "of equal instances, __init__/__attrs_init__ store the arguments, getstate/setstate + pickle round trip, hook runs on assignment)",
    "aliased body entries (cfg.alias, harness-only): a body name bound to the very object the bases already provide under it "
    "(`__hash__ = object.__hash__`, `__repr__ = Base.__repr__`, `__setattr__ = object.__setattr__`, ...) is an OWN entry like "
    "any other for the model; excluded because they cannot be told from attrs' own writes: aliases of None, of attrs' shared "
    "`__ne__`, and of the frozen `__setattr__`/`__delattr__` (below a frozen base an aliased `__setattr__` would also make "
    "`cls.__setattr__ is _frozen_setattrs` true -- a corner the model does not cover); a kept `__hash__` must also be in force "
    "(`type(inst).__hash__` is the user's object and `hash(inst)` goes through it)",
    "attrs bases come with a generated __init__, with init=False, or with an own auto-detected __init__ (then they own an "
    "__attrs_init__), with or without __attrs_pre_init__/__attrs_post_init__ of their own; the observed class adds a field or "
    "none (cfg.no_own_field, only when the case says its field has no validator), defines init hooks or not, and is slotted/"
    "frozen like the base or not: harness-only variation -- __attrs_init__ is decided per class (own __dict__) and compared "
    "with the twin's generated __init__; a slotted attrs base is only built below a class that will be slotted (K3's shape "
    "otherwise), which uses the documented slots default of the api to choose the shape",
    "per-field options (cfg.fx / fy / redecl_y, harness-only): eq, order, hash, repr, init switched off on the own field, on the "
    "base's field where the base declares it, or on the inherited field re-declared in the observed class -- one option, the "
    "same option on every field, several, all; the method table does not read them, the probes do (repr omits repr=False "
    "fields, ==/ordering/hash use the participating fields -- none at all is a legal empty key --, __init__/__match_args__ "
    "skip init=False fields, which stay unset); the own field keeps init=True next to a validator",
    "mixed slotted/dict hierarchies: the attrs base is slotted below slotted and below dict classes (frozen or not); only the "
    "two K3 shapes of this harness (plain class in between; inherited slot field re-declared in a dict class) keep a dict base; the slotted base of a dict class is built with getstate_setstate=False, because /repo's K4 repair makes "
    "'inherits an attrs-generated __getstate__' an extra input of the getstate default, which this model does not carry",
    "decorator-object history: the earlier classes are plain classes with one field and user objects bound to the listed "
    "names; an earlier class the decorator rejects (error) stays in the history; the model is a function of the class alone",
    "one own field x (plus an inherited field y below an attrs base); the decision table does not depend on the fields except "
    "through 'has a validator'; converter (only next to a validator), default/factory, kw_only and __attrs_pre_init__/"
    "__attrs_post_init__ are harness-only variation (cfg) used by the __init__/__attrs_init__ probes",
    "`__attrs_init__` is 'equivalent' when, on a fresh instance and for every call form (all arguments; x defaulted), it gives the "
    "same outcome, the same callback trace (pre-init, factory, converter, validator, post-init, on_setattr hooks) and the same "
    "instance state (field values, exception args/str, hash cache, instance dict keys) as the generated __init__ of a twin class "
    "built from the same case with init=True; both are also checked against the reference semantics (converter/validator once, "
    "no hook of the class's own __setattr__)",
    "exception classes under auto_exc: eq/order/hash values are ignored (documented); definition errors are compared by kind only",
]

FLAGS4 = ["unset", "non", "t", "f"]
HFLAGS = ["unset", "non", "t", "f", "bad"]
OB3 = [None, True, False]
ONSET = ["unset", "non", "hook", "validate", "noOp"]
ABASES = ["none", "vanilla", "hooked", "frozen"]

FIXED_WATCH = ["__repr__", "__str__", "__eq__", "__ne__", "__lt__", "__le__", "__gt__", "__ge__", "__hash__",
               "__init__", "__attrs_init__", "__getstate__", "__setstate__", "__setattr__", "__delattr__",
               "__match_args__", "__attrs_own_setattr__"]
GROUPS = {
    "repr": ["__repr__"],
    "str": ["__str__"],
    "eq": ["__eq__", "__ne__"],
    "order": ["__lt__", "__le__", "__gt__", "__ge__"],
    "hash": ["__hash__"],
    "init": ["__init__", "__attrs_init__"],
    "gss": ["__getstate__", "__setstate__"],
    "setattr": ["__setattr__", "__delattr__"],
    "match": ["__match_args__"],
}
OTHER_NAMES = ["helper", "__call__", "__getattr__", "__len__", "__iter__", "__contains__", "__enter__",
               "__format__", "__sizeof__", "__dir__", "__copy__", "_private", "__reduce__"]
BODY_NAMES = [n for n in FIXED_WATCH if n != "__attrs_own_setattr__"] + OTHER_NAMES

_ATTR_DIR = os.path.dirname(os.path.abspath(attr.__file__))
_MISSING = object()
SYNTH_MOD = "c14_synth_module"

HOOKLOG: list = []
# objects attrs itself installs on many classes: a body entry aliasing one of them could not be told from attrs' own write
_SHARED_ATTRS_OBJECTS = [getattr(_attr_make, n) for n in ("__ne__", "_frozen_setattrs", "_frozen_delattrs")
                         if hasattr(_attr_make, n)]


def _hook(inst, a, v):
    HOOKLOG.append(a.name)
    return v


def _validator(inst, a, v):
    HOOKLOG.append("v:" + a.name)


def _converter(v):
    """deliberately not idempotent: converting twice is visible in the value"""
    HOOKLOG.append("c:x")
    return v + 100


def _factory():
    HOOKLOG.append("f:x")
    return 7


def _pre_init(self):
    HOOKLOG.append("pre")


def _post_init(self):
    HOOKLOG.append("post")


def _base_pre_init(self):
    HOOKLOG.append("bpre")


def _base_post_init(self):
    HOOKLOG.append("bpost")


FIELD_OPTS = ["eq", "order", "hash", "repr", "init"]


def _fopts(case, fields):
    """field name -> which generated methods the field takes part in"""
    ic = _init_cfg(case)
    out = {}
    for f in fields:
        offs = ic["fx"] if f == "x" else (ic["redecl_y"] if ic["redecl_y"] is not None else ic["fy"])
        eq = "eq" not in offs
        out[f] = {"eq": eq, "order": eq and "order" not in offs, "hash": eq and "hash" not in offs,
                  "repr": "repr" not in offs, "init": "init" not in offs}
    return out


def _slotted_guess(case):
    """whether the observed class will be slotted (only used to choose shapes: a slotted attrs base is built only
    below a slotted class)"""
    return case["oSlots"] is True or (case["oSlots"] is None and case["api"] != "attrS")


def _init_cfg(case):
    """harness-only variation of the field and the init hooks (the decision table does not depend on it):
    converter (only next to a validator, so that 'the field has something to convert/validate' stays what the
    case says), default / factory, kw_only, __attrs_pre_init__ / __attrs_post_init__"""
    cfg = case.get("cfg") or {}
    has_base = case["attrsBase"] != "none"
    # the subclass adds NO field of its own (only below an attrs base, and only when the case does not say the
    # class's field has a validator)
    no_own = bool(cfg.get("no_own_field")) and has_base and not case["fieldValidator"]
    pre, post = bool(cfg.get("pre")), bool(cfg.get("post"))
    bpre, bpost = has_base and bool(cfg.get("base_pre")), has_base and bool(cfg.get("base_post"))
    # PER-FIELD options switched off (eq / order / hash / repr / init = False): on the own field x, on the base's
    # field y where the base declares it, or on y re-declared in the observed class.  The method table must not
    # depend on them.  (x keeps init=True next to a validator: attrs would validate an unset attribute.)
    fx = [] if no_own else [o for o in (cfg.get("fx") or []) if o in FIELD_OPTS]
    if case["fieldValidator"]:
        fx = [o for o in fx if o != "init"]
    fy = [o for o in (cfg.get("fy") or []) if o in FIELD_OPTS] if has_base else []
    redecl = cfg.get("redecl_y")
    redecl = [o for o in redecl if o in FIELD_OPTS] if (has_base and redecl is not None) else None
    x_init = "init" not in fx
    return {
        "no_own": no_own, "fx": fx, "fy": fy, "redecl_y": redecl,
        "converter": bool(cfg.get("converter")) and bool(case["fieldValidator"]) and not no_own and x_init,
        "dflt": "none" if (no_own or not x_init) else (cfg.get("dflt") or "none"),
        "kw_only": bool(cfg.get("kw_only")) and not no_own and x_init,
        "pre": pre, "post": post, "base_pre": bpre, "base_post": bpost,
        # what a generated initialiser of the class must call (the class's own hook hides the base's)
        "pre_tok": "pre" if pre else ("bpre" if bpre else None),
        "post_tok": "post" if post else ("bpost" if bpost else None),
        # how the attrs base came by its initialiser: generated __init__ / init=False / own __init__ (auto-detected)
        "base_init": (cfg.get("base_init") or "gen") if has_base else "gen",
    }


_CMP_NAMES = ("__eq__", "__ne__", "__lt__", "__le__", "__gt__", "__ge__")


def _front(case):
    """harness-only front-end of the observed class: 'stmt' (class object + decorator, annotated fields under define/
    frozen), 'unannot' (define/frozen over a body of UNANNOTATED attr.ib()s: define's first attempt with
    auto_attribs=True faults with UnannotatedAttributeError and it retries with auto_attribs=False), 'make_class'
    (attr.make_class(name, {fields}, bases, class_body={methods, hooks}, **flags) instead of attr.s on a class).
    make_class resolves cmp/eq/order to explicit booleans before calling attr.s; it is only used where that cannot
    change what attr.s decides: eq and order both written True/False, or no auto-detection for them (auto_detect not
    True, or no comparison method bound in the body)."""
    f = (case.get("cfg") or {}).get("front") or "stmt"
    if f == "stmt":
        return "stmt"
    if case["api"] != "attrS":
        return "unannot"
    explicit = case["fCmp"] == "unset" and case["fEq"] in ("t", "f") and case["fOrder"] in ("t", "f")
    if explicit or case["oAutoDetect"] is not True or not any(n in case["body"] for n in _CMP_NAMES):
        return "make_class"
    return "stmt"


def default_case():
    return {
        "api": "attrS", "oAutoDetect": None,
        "fRepr": "unset", "fEq": "unset", "fOrder": "unset", "fCmp": "unset", "fInit": "unset", "fGss": "unset",
        "fHash": "unset", "fUnsafeHash": "unset",
        "oStr": None, "oMatchArgs": None, "oSlots": None, "oFrozen": None, "oCacheHash": None, "oAutoExc": None,
        "onSetattr": "unset", "fieldValidator": False, "body": [], "attrsBase": "none", "plainMid": False,
        "baseDefines": [], "excBase": False, "py310": sys.version_info >= (3, 10), "history": [],
        "cfg": {"base_slots": False, "cell": False},
    }


# ------------------------------------------------------------------------------------------------ user objects

def _user_obj(name, flavour):
    """a fresh benign object to bind to `name` in a class body"""
    if name == "__match_args__":
        return tuple(["x"])          # fresh object, equal to what attrs would compute
    if name == "__setattr__":
        def f(self, n, v):
            object.__setattr__(self, n, v)
    elif name == "__delattr__":
        def f(self, n):
            object.__delattr__(self, n)
    elif name == "__getattr__":
        def f(self, n):
            raise AttributeError(n)
    elif name in ("__repr__", "__str__"):
        def f(self):
            return flavour
    elif name == "__format__":
        def f(self, spec):
            return flavour
    elif name == "__hash__":
        def f(self):
            return 7
    elif name in ("__eq__",):
        def f(self, other):
            return self is other
    elif name in ("__ne__",):
        def f(self, other):
            return self is not other
    elif name in ("__lt__", "__le__", "__gt__", "__ge__"):
        def f(self, other):
            return NotImplemented
    elif name == "__getstate__":
        def f(self):
            return {"user": True}
    elif name == "__setstate__":
        def f(self, state):
            pass
    elif name == "__len__":
        def f(self):
            return 1
    elif name == "__iter__":
        def f(self):
            return iter(())
    elif name == "__contains__":
        def f(self, item):
            return False
    elif name == "__sizeof__":
        def f(self):
            return 64
    elif name == "__dir__":
        def f(self):
            return []
    elif name == "__reduce__":
        def f(self):
            return (object, ())
    else:  # __init__, __attrs_init__, helper, __call__, __enter__, __copy__, _private ...
        def f(self, *a, **k):
            return None
    f.__name__ = name
    if name == "helper":
        return classmethod(f)      # descriptors are user objects too: the very same object must stay
    if name == "_private":
        return property(f)
    if name == "__copy__":
        return staticmethod(f)
    return f


# ------------------------------------------------------------------------------------------------ building

_FLAGV = {"non": None, "t": True, "f": False}


def _kwargs(case):
    kw = {}
    if case["oAutoDetect"] is not None:
        kw["auto_detect"] = case["oAutoDetect"]
    for key, arg in (("fRepr", "repr"), ("fEq", "eq"), ("fOrder", "order"), ("fCmp", "cmp"), ("fInit", "init"),
                     ("fGss", "getstate_setstate")):
        if case[key] != "unset":
            kw[arg] = _FLAGV[case[key]]
    for key, arg in (("fHash", "hash"), ("fUnsafeHash", "unsafe_hash")):
        if case[key] == "bad":
            kw[arg] = "yes"
        elif case[key] != "unset":
            kw[arg] = _FLAGV[case[key]]
    for key, arg in (("oStr", "str"), ("oMatchArgs", "match_args"), ("oSlots", "slots"), ("oFrozen", "frozen"),
                     ("oCacheHash", "cache_hash"), ("oAutoExc", "auto_exc")):
        if case[key] is not None:
            kw[arg] = case[key]
    o = case["onSetattr"]
    if o == "non":
        kw["on_setattr"] = None
    elif o == "hook":
        kw["on_setattr"] = _hook
    elif o == "validate":
        kw["on_setattr"] = attr.setters.validate
    elif o == "noOp":
        kw["on_setattr"] = attr.setters.NO_OP
    return kw


def build(case):
    """-> (C | None, err kind | None, user objects of the body, field names in __init__ order)"""
    cfg = case.get("cfg") or {}
    root = Exception if case["excBase"] else object
    fields = []
    base = root
    ab = case["attrsBase"]
    if ab != "none":
        # MIXED hierarchies: a slotted attrs base below a dict class (also a frozen one: the generated initialiser
        # then has to know that the inherited field lives in the base's slot) -- except in the shapes listed as K3
        # (C01/C08) on the clean tree, where `base_attr_map` names the wrong class and even the generated __init__
        # misplaces the value: a plain class between the slotted base and the dict class, and a dict class
        # re-declaring the base's slot field
        k3_shape = bool(case["plainMid"]) or (cfg.get("redecl_y") is not None)
        bkw = {"slots": bool(cfg.get("base_slots")) and (_slotted_guess(case) or not k3_shape)}
        if bkw["slots"] and not _slotted_guess(case):
            # /repo (K4 repair) gives a dict class that would inherit an attrs-generated __getstate__ its own pair:
            # an input of the getstate default this model does not have -- the slotted base of a dict class is
            # therefore built without pickling helpers (C10 owns that rule)
            bkw["getstate_setstate"] = False
        if ab == "hooked":
            bkw["on_setattr"] = _hook
        elif ab == "frozen":
            bkw["frozen"] = True
        bic = _init_cfg(case)
        ns = {"y": attr.ib(**{o: False for o in bic["fy"]}), "__module__": SYNTH_MOD}
        # the base may itself be a class without generated __init__ (it then owns an __attrs_init__), with or
        # without init hooks of its own
        if bic["base_init"] == "flag_f":
            bkw["init"] = False
        elif bic["base_init"] == "own":
            bkw["auto_detect"] = True
            ns["__init__"] = _user_obj("__init__", "BASE")
        if bic["base_pre"]:
            ns["__attrs_pre_init__"] = _base_pre_init
        if bic["base_post"]:
            ns["__attrs_post_init__"] = _base_post_init
        base = attr.s(**bkw)(types.new_class("A", (root,), {}, lambda d: d.update(ns)))
        fields.append("y")
    if case["plainMid"]:
        pns = {n: _user_obj(n, "BASE") for n in case["baseDefines"]}
        pns["__module__"] = SYNTH_MOD
        base = types.new_class("P", (base,), {}, lambda d: d.update(pns))
    ic = _init_cfg(case)
    # y re-declared in the observed class (created first: attrs orders own fields by creation)
    fldy = attr.ib(**{o: False for o in ic["redecl_y"]}) if ic["redecl_y"] is not None else None
    fkw = {o: False for o in ic["fx"]}
    if case["fieldValidator"]:
        fkw["validator"] = _validator
    if ic["converter"]:
        fkw["converter"] = _converter
    if ic["dflt"] == "value":
        fkw["default"] = 7
    elif ic["dflt"] == "factory":
        fkw["factory"] = _factory
    if ic["kw_only"]:
        fkw["kw_only"] = True
    fld = attr.ib(**fkw)
    if not ic["no_own"]:
        fields.append("x")
    hooks_ns = {}
    if ic["pre"]:
        hooks_ns["__attrs_pre_init__"] = _pre_init
    if ic["post"]:
        hooks_ns["__attrs_post_init__"] = _post_init
    # ALIASED body entries: the body binds the name to the very object the bases already provide under it
    # (`__hash__ = object.__hash__`, `__repr__ = Base.__repr__`, ...): still the class's OWN entry
    alias = {}
    for n in cfg.get("alias") or []:
        if n in case["body"] and n not in alias:
            inh = getattr(base, n, _MISSING)
            if inh is not _MISSING and callable(inh) and not any(inh is sh for sh in _SHARED_ATTRS_OBJECTS):
                alias[n] = inh
    front = _front(case)
    annotated = case["api"] != "attrS" and front != "unannot"
    if cfg.get("cell") and front != "make_class":
        # a real `class` statement whose methods reference `__class__`: the compiler gives each of them a closure
        # cell holding the class, which the slotted rebuild has to rewrite *in place* (same function objects)
        impl = {n: _user_obj(n, "USER") for n in case["body"]}
        lines = ["class C(Base):", "    pass"]
        for n in case["body"]:
            if n in alias:
                lines.append(f"    {n} = _alias[{n!r}]")
            elif n == "__match_args__":
                lines.append(f"    {n} = _impl[{n!r}]")
            elif n in ("helper", "_private", "__copy__"):
                deco_, arg = {"helper": ("classmethod", "cls"), "_private": ("property", "self"),
                              "__copy__": ("staticmethod", "*a")}[n]
                lines.append(f"    @{deco_}\n    def {n}({arg}):\n        __class__\n        return None")
            else:
                lines.append(f"    def {n}(self, *a, **k):\n        __class__\n        return _impl[{n!r}](self, *a, **k)")
        if fldy is not None:
            lines.append("    y: int = _fieldy" if annotated else "    y = _fieldy")
        if not ic["no_own"]:
            lines.append("    x: int = _field" if annotated else "    x = _field")
        for hn in hooks_ns:
            lines.append(f"    {hn} = _hooks[{hn!r}]")
        g = {"Base": base, "_impl": impl, "_alias": alias, "_field": fld, "_fieldy": fldy, "_hooks": hooks_ns,
             "__name__": SYNTH_MOD}
        exec("\n".join(lines), g)  # noqa: S102
        cls = g["C"]
        user = {n: cls.__dict__[n] for n in case["body"]}
    else:
        user = {n: (alias[n] if n in alias else _user_obj(n, "USER")) for n in case["body"]}
        ns = dict(user)
        ns["__module__"] = SYNTH_MOD
        if fldy is not None:
            ns["y"] = fldy
        if not ic["no_own"]:
            ns["x"] = fld
        ns.update(hooks_ns)
        if annotated:
            ns["__annotations__"] = {f: int for f in (["y"] if fldy is not None else []) + ([] if ic["no_own"] else ["x"])}
        cls = types.new_class("C", (base,), {}, lambda d: d.update(ns))
    deco = {"attrS": attr.s, "define": attrs.define, "frozen": attrs.frozen}[case["api"]]
    try:
        # ONE decorator object: first applied to the classes of the history (bodies binding other names), then to
        # the class under observation -- whatever it decided for them must not matter
        deco_obj = deco(**_kwargs(case))
        for i, hbody in enumerate(case.get("history") or []):
            pns = {n: _user_obj(n, "PRIOR") for n in hbody}
            pns["__module__"] = SYNTH_MOD
            pns["x"] = attr.ib(**fkw)
            if annotated:
                pns["__annotations__"] = {"x": int}
            pbase = base if cfg.get("hist_base", "same") == "same" else root
            prior = types.new_class(f"H{i}", (pbase,), {}, lambda d, pns=pns: d.update(pns))
            try:
                deco_obj(prior)
            except Exception:  # noqa: BLE001,S110  -- a rejected earlier class is part of the history too
                pass
        if front == "make_class":
            # the same class through attr.make_class: fields as the `attrs` dict (creation order), everything else
            # the body binds (user methods, init hooks) as class_body
            these = {}
            if fldy is not None:
                these["y"] = fldy
            if not ic["no_own"]:
                these["x"] = fld
            cbody = dict(user)
            cbody.update(hooks_ns)
            C = attr.make_class("C", these, bases=(base,), class_body=cbody, **_kwargs(case))
            C.__module__ = SYNTH_MOD   # make_class names the calling module; the pickle probe looks C up here
        else:
            C = deco_obj(cls)
    except Exception as e:  # noqa: BLE001
        return None, common.exc_kind(e), user, fields
    return C, None, user, fields


# ------------------------------------------------------------------------------------------------ probes

def _inst(C, fields, vals, cache_hash):
    inst = C.__new__(C)
    for n, v in zip(fields, vals):
        object.__setattr__(inst, n, v)
    if cache_hash:
        object.__setattr__(inst, "_attrs_cached_hash", None)
    return inst


def _is_attrs_function(v):
    if not isinstance(v, types.FunctionType):
        return False
    fn = v.__code__.co_filename
    return fn.startswith("<attrs generated") or os.path.dirname(os.path.abspath(fn)) == _ATTR_DIR


def _probe(name, fn, C, fields, case, cache_hash):
    """does the attrs-made function `fn` found under `name` behave like the generated method?"""
    n = len(fields)
    fo = _fopts(case, fields)
    lo = list(range(1, n + 1))
    hi = [v + 5 for v in lo]                 # differs from lo in EVERY field
    a, b, c = (_inst(C, fields, v, cache_hash) for v in (lo, lo, hi))
    # reference semantics over the fields that take part (none at all is a legal key: equal, not less)
    eq_ac = all(x == y for f, x, y in zip(fields, lo, hi) if fo[f]["eq"])
    ka = tuple(v for f, v in zip(fields, lo) if fo[f]["order"])
    kc = tuple(v for f, v in zip(fields, hi) if fo[f]["order"])
    if name == "__repr__":
        return fn(a) == "C(" + ", ".join(f"{f}={v!r}" for f, v in zip(fields, lo) if fo[f]["repr"]) + ")"
    if name == "__str__":
        return fn(a) == a.__repr__()
    if name == "__eq__":
        return fn(a, b) is True and fn(a, c) is eq_ac and fn(a, object()) is NotImplemented
    if name == "__ne__":
        if C.__dict__.get("__eq__") is None or not _is_attrs_function(C.__dict__["__eq__"]):
            return True       # delegates to whatever __eq__ resolves to; only meaningful next to a generated one
        return fn(a, b) is False and fn(a, c) is (not eq_ac)
    if name == "__lt__":
        return (fn(a, c) is (ka < kc) and fn(c, a) is (kc < ka) and fn(a, b) is False
                and fn(a, object()) is NotImplemented)
    if name == "__le__":
        return fn(a, c) is (ka <= kc) and fn(c, a) is (kc <= ka) and fn(a, b) is True
    if name == "__gt__":
        return fn(c, a) is (kc > ka) and fn(a, c) is (ka > kc) and fn(a, b) is False
    if name == "__ge__":
        return fn(c, a) is (kc >= ka) and fn(a, c) is (ka >= kc) and fn(a, b) is True
    if name == "__hash__":
        h = fn(a)
        return isinstance(h, int) and h == fn(b)
    if name in ("__init__", "__attrs_init__"):
        return _probe_init(name, fn, C, fields, case, cache_hash)
    if name == "__getstate__":
        return fn(a) == dict(zip(fields, lo))
    if name == "__setstate__":
        inst = C.__new__(C)
        fn(inst, dict(zip(fields, hi)))
        ok = [getattr(inst, f) for f in fields] == hi
        gs = C.__dict__.get("__getstate__")
        if (ok and gs is not None and _is_attrs_function(gs) and not case["excBase"]
                and not any(x in case["body"] or x in case["baseDefines"]
                            for x in ("__reduce__", "__getattr__", "__copy__"))):
            mod = types.ModuleType(SYNTH_MOD)
            mod.C = C
            prev = sys.modules.get(SYNTH_MOD, _MISSING)
            sys.modules[SYNTH_MOD] = mod
            try:
                for proto in (2, pickle.HIGHEST_PROTOCOL):
                    back = pickle.loads(pickle.dumps(c, proto))
                    ok = ok and type(back) is C and [getattr(back, f) for f in fields] == hi
            finally:
                if prev is _MISSING:
                    del sys.modules[SYNTH_MOD]
                else:
                    sys.modules[SYNTH_MOD] = prev
        return ok
    if name == "__setattr__":
        del HOOKLOG[:]
        fn(a, fields[-1], 41)
        ran = bool(HOOKLOG)
        converted = "c:x" in HOOKLOG
        del HOOKLOG[:]
        return ran and getattr(a, fields[-1]) == (141 if converted else 41)
    return True


def _call_forms(fields, case):
    """(args, kwargs, raw value per field, uses the default) for: every init field passed; x left to its default"""
    ic = _init_cfg(case)
    fo = _fopts(case, fields)
    val = {f: i + 6 for i, f in enumerate(fields)}
    initf = [f for f in fields if fo[f]["init"]]
    x_kw = "x" in initf and ic["kw_only"]
    forms = [([val[f] for f in initf if not (f == "x" and x_kw)], {"x": val["x"]} if x_kw else {}, dict(val), False)]
    if "x" in initf and ic["dflt"] != "none":
        forms.append(([val[f] for f in initf if f != "x"], {}, dict(val, x=7), True))
    return forms


def _state(obj, fields):
    """everything an initialiser leaves behind on the instance"""
    st = {"fields": [getattr(obj, f, "<missing>") for f in fields],
          "cache": getattr(obj, "_attrs_cached_hash", "<missing>")}
    if isinstance(obj, BaseException):
        st["args"] = obj.args
        try:
            st["str"] = BaseException.__str__(obj)
        except Exception as e:  # noqa: BLE001
            st["str"] = "exc:" + type(e).__name__
    d = getattr(obj, "__dict__", None)
    st["dict"] = sorted(d) if isinstance(d, dict) else None
    return st


def _run_init(cls, fn, args, kwargs, fields):
    obj = cls.__new__(cls)
    del HOOKLOG[:]
    try:
        fn(obj, *args, **kwargs)
        out = "ok"
    except Exception as e:  # noqa: BLE001
        out = "exc:" + common.exc_kind(e)
    trace = list(HOOKLOG)
    del HOOKLOG[:]
    return out, trace, _state(obj, fields)


def _probe_init(name, fn, C, fields, case, cache_hash):
    """`__init__`: against the reference semantics (pre-init, factory, converter once, validator once, post-init,
    no on_setattr hook, arguments stored, hash cache reset, exception args empty or the field values).
    `__attrs_init__`: additionally against the generated `__init__` of a TWIN class that differs only in having
    its `__init__` generated (init=True): same outcome, same callback trace, same instance state (fields,
    exception args/str, hash cache, instance dict)."""
    ic = _init_cfg(case)
    twin = None
    if name == "__attrs_init__":
        T, terr, _, tfields = build(dict(case, fInit="t", history=[]))
        if terr is None and tfields == fields and _is_attrs_function(T.__dict__.get("__init__")):
            twin = T
    fo = _fopts(case, fields)
    for args, kwargs, raw, from_default in _call_forms(fields, case):
        out, trace, st = _run_init(C, fn, args, kwargs, fields)
        want = [((raw[f] + 100 if (f == "x" and ic["converter"]) else raw[f]) if fo[f]["init"] else "<missing>")
                for f in fields]
        want_trace = (([ic["pre_tok"]] if ic["pre_tok"] else [])
                      + (["f:x"] if from_default and ic["dflt"] == "factory" else [])
                      + (["c:x"] if ic["converter"] else []) + (["v:x"] if case["fieldValidator"] else [])
                      + ([ic["post_tok"]] if ic["post_tok"] else []))
        vals = [v for f, v in zip(fields, want) if fo[f]["init"]]      # what BaseException.__init__ receives
        ref_trace = trace
        if C.__dict__.get("__attrs_own_setattr__") is not True:
            # no hook __setattr__ of the class's own: plain assignments are what attrs generates, and a hook
            # __setattr__ *inherited* past a plain class (K6's shape, C06) then sees them -- not this property's
            # business; the comparison with the twin below still covers the full trace
            ref_trace = [t for t in trace if t in ("pre", "post", "bpre", "bpost") or ":" in t]
        if out != "ok" or st["fields"] != want or ref_trace != want_trace:
            return False
        if cache_hash and st["cache"] is not None:
            return False
        if "args" in st and st["args"] not in ((), tuple(vals)):
            return False
        if twin is not None:
            if _run_init(twin, twin.__dict__["__init__"], args, kwargs, fields) != (out, trace, st):
                return False
    return True


def _classify(name, v, C, user, fields, case, cache_hash):
    if v is _MISSING:
        return "absent"
    if name in user and v is user[name]:
        if name == "__hash__" and callable(v):
            # kept means found on the class AND in force: instances hash through the user's object
            try:
                inst = _inst(C, fields, list(range(1, len(fields) + 1)), cache_hash)
                if type(inst).__hash__ is not v or hash(inst) != v(inst):
                    return "other"
            except BaseException:  # noqa: BLE001
                return "other"
        return "user"
    if v is None:
        return "pyNone"
    if v is True:
        return "vTrue"
    if v is False:
        return "vFalse"
    if v is object.__setattr__:
        return "objSetattr"
    if v is getattr(_attr_make, "_frozen_setattrs", _MISSING):
        return "frozenSetattr"
    if v is getattr(_attr_make, "_frozen_delattrs", _MISSING):
        return "frozenDelattr"
    if name == "__match_args__" and isinstance(v, tuple):
        fo = _fopts(case, fields)
        want = tuple(f for f in fields if fo[f]["init"] and not (f == "x" and _init_cfg(case)["kw_only"]))
        return "genTuple" if v == want else "other"
    if _is_attrs_function(v):
        try:
            return "gen" if _probe(name, v, C, fields, case, cache_hash) else "genBroken"
        except BaseException:  # noqa: BLE001
            return "genBroken"
    return "other"


def watch(case):
    return FIXED_WATCH + [n for n in case["body"] if n not in FIXED_WATCH]


def observe(case):
    with warnings.catch_warnings():
        warnings.simplefilter("ignore")
        try:
            C, err, user, fields = build(case)
            if err is not None:
                return {"err": err, "slots": []}
            cache_hash = "_attrs_cached_hash" in getattr(C, "__slots__", ()) or bool(case["oCacheHash"])
            d = C.__dict__
            slots = [[n, _classify(n, d.get(n, _MISSING), C, user, fields, case, cache_hash)] for n in watch(case)]
            return {"err": None, "slots": slots}
        finally:
            del HOOKLOG[:]
            _observe_count[0] += 1
            if _observe_count[0] % 2000 == 0:
                common.purge_linecache()


_observe_count = [0]


# ------------------------------------------------------------------------------------------------ evidence helpers

def nontrivial(case, model):
    if not model or model.get("err") is not None:
        return False
    return any(s in ("user", "gen", "genTuple", "frozenSetattr", "pyNone") for _, s in model["slots"])


def dist(case, obs):
    err = obs.get("err") if isinstance(obs, dict) else "?"
    sl = dict(map(tuple, obs.get("slots", []))) if isinstance(obs, dict) else {}
    return {
        "api": case["api"], "auto_detect": case["oAutoDetect"], "slots": case["oSlots"], "frozen": case["oFrozen"],
        "attrsBase": case["attrsBase"], "plainMid": case["plainMid"], "n_body": len(case["body"]),
        "n_baseDefines": len(case["baseDefines"]), "history_len": len(case.get("history") or []), "err": err, "excBase": case["excBase"],
        "block": (case.get("cfg") or {}).get("block"),
        "user_kept": sum(1 for s in sl.values() if s == "user"),
        "generated": sum(1 for s in sl.values() if s == "gen"),
        "explicit_flags": sum(1 for k in ("fRepr", "fEq", "fOrder", "fCmp", "fInit", "fGss", "fHash", "fUnsafeHash")
                              if case[k] in ("t", "f")),
        "onSetattr": case["onSetattr"],
    }


# ------------------------------------------------------------------------------------------------ generators

def _subsets(names):
    for r in range(len(names) + 1):
        for s in itertools.combinations(names, r):
            yield list(s)


HIST_NAMES = [n for n in FIXED_WATCH if n != "__attrs_own_setattr__"]


def _opposite(body, with_setattr):
    """every group name the class under observation does NOT bind (so each group's own-ness differs)"""
    return [n for n in HIST_NAMES if n not in body and (with_setattr or n not in ("__setattr__", "__delattr__"))]


def _history(body, h):
    """0, 1 or 2 earlier classes for the same decorator object, a deterministic function of the case"""
    k = h % 3
    opp = _opposite(body, (h >> 11) % 4 == 0)
    other = [n for j, n in enumerate(HIST_NAMES) if (h >> (12 + j % 16)) % 2 and n not in ("__setattr__",)]
    if k == 0:
        return []
    if k == 1:
        return [opp]
    return [opp, other] if (h >> 10) % 2 else [other, opp]


_LAZY = [False]


def _mk(block, **kw):
    """a case of `block`; while sampling (quick tier) only the recipe, materialised for the sampled ones"""
    if _LAZY[0]:
        return (block, kw)
    return _mk_real(block, **kw)


def _mk_real(block, **kw):
    c = default_case()
    cfg = dict(c["cfg"], block=block)
    explicit = set(kw.get("cfg", {}))
    cfg.update(kw.pop("cfg", {}))
    c.update(kw)
    # harness-only variation, a deterministic function of the model-level case
    h = zlib.crc32(json.dumps({k: v for k, v in c.items() if k != "cfg"}, sort_keys=True).encode())
    for key, val in (("cell", h % 3 == 1), ("converter", (h >> 2) % 2 == 1), ("pre", (h >> 3) % 4 == 1),
                     ("post", (h >> 5) % 4 == 1), ("dflt", ["none", "none", "value", "factory"][(h >> 7) % 4]),
                     ("kw_only", (h >> 9) % 4 == 1)):
        if key not in explicit:
            cfg[key] = val
    for key, val in (("no_own_field", (h >> 15) % 4 == 1), ("base_init", ["gen", "gen", "flag_f", "own"][(h >> 17) % 4]),
                     ("base_pre", (h >> 19) % 4 == 1), ("base_post", (h >> 21) % 4 == 1),
                     ("base_slots", (h >> 23) % 2 == 1)):
        if key not in explicit:
            cfg[key] = val
    # per-field options: mostly none; one option off on x; the same option off on EVERY field (base declaration or
    # re-declaration of y in the class); several options off
    if not ({"fx", "fy", "redecl_y"} & explicit):
        pat = (h >> 6) % 8
        opt = FIELD_OPTS[(h >> 9) % 5]
        via_redecl = (h >> 12) % 2 == 1
        if pat == 4:
            cfg["fx"] = [opt]
        elif pat == 5:
            cfg["fx"] = [opt]
            cfg["redecl_y" if via_redecl else "fy"] = [opt]
        elif pat == 6:
            cfg["fx"] = [o for j, o in enumerate(FIELD_OPTS) if (h >> (14 + j)) % 2]
            cfg["redecl_y" if via_redecl else "fy"] = [o for j, o in enumerate(FIELD_OPTS) if (h >> (19 + j)) % 2]
        elif pat == 7:
            cfg["redecl_y"] = [opt] if via_redecl else []
    if "front" not in explicit:
        cfg["front"] = "alt" if (h >> 10) % 3 == 1 else "stmt"
    if "alias" not in explicit:
        cfg["alias"] = [n for i, n in enumerate(c["body"]) if (h >> (4 + i % 20)) % 3 == 0]
    if "history" not in kw:
        c["history"] = _history(c["body"], h >> 3)
    cfg.setdefault("hist_base", "same" if (h >> 13) % 3 else "root")
    c["cfg"] = cfg
    if c["baseDefines"]:
        c["plainMid"] = True
    if c["api"] != "attrS":
        c["fCmp"] = "unset"
    return c


APIS = ["attrS", "define", "frozen"]


def block_simple(group, flagkey, names, base_sets=None):
    """one flag x every subset of the group's names x api x auto_detect x slots x frozen x base-defined x attrs base"""
    base_sets = base_sets if base_sets is not None else list(_subsets(names))
    for api, ad, flag, own, sl, fr, bd, ab in itertools.product(
            APIS, OB3, FLAGS4, list(_subsets(names)), OB3, [None, True], base_sets, ABASES):
        yield _mk(group, api=api, oAutoDetect=ad, oSlots=sl, oFrozen=fr, body=own, baseDefines=bd, attrsBase=ab,
                  **{flagkey: flag})


def block_repr():
    yield from block_simple("repr", "fRepr", ["__repr__"])


def block_str():
    for api, ad, st, fr_, own, sl, bd in itertools.product(
            APIS, OB3, OB3, FLAGS4, list(_subsets(["__repr__", "__str__"])), [True, False],
            [[], ["__str__"], ["__repr__", "__str__"]]):
        yield _mk("str", api=api, oAutoDetect=ad, oStr=st, fRepr=fr_, body=own, oSlots=sl, baseDefines=bd)


def block_cmp():
    order_sets = [[], ["__lt__"], ["__ge__"], ["__le__", "__gt__"], ["__lt__", "__le__", "__gt__", "__ge__"]]
    for api in APIS:
        cmps = FLAGS4 if api == "attrS" else ["unset"]
        for ad, fe, fo, fc, own_eq, own_or, sl, fr in itertools.product(
                OB3, FLAGS4, FLAGS4, cmps, list(_subsets(["__eq__", "__ne__"])), order_sets, [True, False],
                [None, True]):
            yield _mk("cmp", api=api, oAutoDetect=ad, fEq=fe, fOrder=fo, fCmp=fc, body=own_eq + own_or, oSlots=sl,
                      oFrozen=fr)
    # the same table below an attrs base (inherited generated comparison methods) and for exception classes
    for api, ad, fe, fo, own_eq, own_or, ab, exc in itertools.product(
            APIS, OB3, FLAGS4, FLAGS4, list(_subsets(["__eq__", "__ne__"])), [[], ["__gt__"]], ["vanilla", "frozen"],
            [False, True]):
        yield _mk("cmp", api=api, oAutoDetect=ad, fEq=fe, fOrder=fo, body=own_eq + own_or, attrsBase=ab, excBase=exc)


def block_order_subsets():
    names = GROUPS["order"]
    base_sets = [[], ["__lt__"], ["__le__", "__ge__"], names]
    for api, ad, fo, own, sl, bd, ab in itertools.product(
            APIS, OB3, FLAGS4, list(_subsets(names)), [True, False], base_sets, ["none", "vanilla"]):
        yield _mk("order", api=api, oAutoDetect=ad, fOrder=fo, body=own, oSlots=sl, baseDefines=bd, attrsBase=ab)


def block_eq_inherit():
    names = GROUPS["eq"]
    for api, ad, fe, own, sl, fr, bd, ab in itertools.product(
            APIS, OB3, FLAGS4, list(_subsets(names)), OB3, [None, True], list(_subsets(names + ["__hash__"])),
            ABASES):
        yield _mk("eq", api=api, oAutoDetect=ad, fEq=fe, body=own, oSlots=sl, oFrozen=fr, baseDefines=bd, attrsBase=ab)


def block_hash():
    for api, ad, fh, fu, fe, own, fr, sl, ch in itertools.product(
            APIS, OB3, HFLAGS, HFLAGS, ["unset", "t", "f"], list(_subsets(["__hash__", "__eq__"])), OB3,
            [True, False], [None, True]):
        yield _mk("hash", api=api, oAutoDetect=ad, fHash=fh, fUnsafeHash=fu, fEq=fe, body=own, oFrozen=fr, oSlots=sl,
                  oCacheHash=ch)
    for api, ad, fh, own, bd, ab, sl in itertools.product(
            APIS, OB3, ["unset", "non", "t", "f"], list(_subsets(["__hash__", "__eq__"])),
            list(_subsets(["__hash__", "__eq__"])), ABASES, [True, False]):
        yield _mk("hash", api=api, oAutoDetect=ad, fUnsafeHash=fh, body=own, baseDefines=bd, attrsBase=ab, oSlots=sl)


def block_init():
    names = ["__init__", "__attrs_init__"]
    for api, ad, fi, own, sl, fr, ch, bd, ab in itertools.product(
            APIS, OB3, FLAGS4, list(_subsets(names)), [True, False], [None, True], [None, True],
            list(_subsets(names)), ABASES):
        yield _mk("init", api=api, oAutoDetect=ad, fInit=fi, body=own, oSlots=sl, oFrozen=fr, oCacheHash=ch,
                  fUnsafeHash="t" if ch else "unset", baseDefines=bd, attrsBase=ab)


def block_attrs_init():
    """no generated __init__ (explicit init=False, or a body __init__ under auto-detection): the provided
    __attrs_init__ against the generated __init__ of the twin class -- exception roots with auto_exc on/off, slots,
    frozen, on_setattr hooks, validator/converter, default/factory, kw_only, pre/post-init hooks"""
    routes = [("f", [], None), ("unset", ["__init__"], True), ("non", ["__init__", "__attrs_init__"], True)]
    icfgs = [dict(converter=cv, pre=pp, post=pp2, dflt=df, kw_only=kw)
             for cv, (pp, pp2), df, kw in itertools.product(
                 [False, True], [(False, False), (True, True), (False, True)], ["none", "value", "factory"],
                 [False, True])]
    for api, exc, ae, (fi, own, ad), sl, fr, fv, on, ab in itertools.product(
            APIS, [True, False], OB3, routes, [True, False], [None, True], [False, True],
            ["unset", "hook", "validate"], ["none", "vanilla"]):
        for k, ic in enumerate(icfgs):
            # every init variation for the exception rows without an attrs base, a rotating third of them otherwise
            if not (exc and ab == "none") and (k + len(own) + (1 if sl else 0)) % 3:
                continue
            yield _mk("attrs_init", api=api, excBase=exc, oAutoExc=ae, fInit=fi, body=own, oAutoDetect=ad, oSlots=sl,
                      oFrozen=fr, fieldValidator=fv, onSetattr=on, attrsBase=ab, cfg=dict(ic))


def block_sub_attrs_init():
    """subclasses of attrs bases that themselves have no generated __init__ (init=False / own __init__): the
    subclass adds a field or none, init hooks only in the subclass / only in the base / in both / nowhere, same and
    different slotted-ness and frozen-ness: __attrs_init__ is decided per class (own dict) and must behave like the
    twin's generated __init__"""
    routes = [("f", [], None), ("unset", ["__init__"], True), ("unset", [], None)]
    hookcs = [(False, False), (True, False), (False, True), (True, True)]
    for api, (fi, own, ad), ab, binit, noown, sl, bsl, fr, (pre, post), (bpre, bpost) in itertools.product(
            APIS, routes, ["vanilla", "frozen", "hooked"], ["gen", "flag_f", "own"], [True, False], OB3,
            [True, False], [None, True], hookcs, hookcs):
        yield _mk("sub_attrs_init", api=api, fInit=fi, body=own, oAutoDetect=ad, attrsBase=ab, oSlots=sl, oFrozen=fr,
                  cfg={"base_init": binit, "no_own_field": noown, "base_slots": bsl, "pre": pre, "post": post,
                       "base_pre": bpre, "base_post": bpost, "converter": False, "dflt": "none", "kw_only": False})


def block_field_opts():
    """per-field options never enter the method table: one option switched off on the own field / on every field
    (declared so by the base, or re-declared in the class) / all options off, for the group the option belongs to
    (and all other groups are observed as always): flag unset / True / False, with and without an own method"""
    grp = {"eq": ("fEq", "__eq__"), "order": ("fOrder", "__lt__"), "hash": ("fUnsafeHash", "__hash__"),
           "repr": ("fRepr", "__repr__"), "init": ("fInit", "__init__")}
    scopes = ["x", "all_base", "all_redecl", "y_redecl", "everything"]
    for opt, scope, api, ab, flag, own, ad, sl, fr in itertools.product(
            FIELD_OPTS, scopes, APIS, ["none", "vanilla"], ["unset", "t", "f"], [False, True], OB3, [None, False],
            [None, True]):
        fkey, meth = grp[opt]
        offs = list(FIELD_OPTS) if scope == "everything" else [opt]
        cfg = {"fx": offs if scope != "y_redecl" else [], "no_own_field": False, "converter": False, "dflt": "none",
               "kw_only": False}
        if scope in ("all_base", "everything"):
            cfg["fy"] = offs
        if scope in ("all_redecl", "y_redecl"):
            cfg["redecl_y"] = offs
        yield _mk("field_opts", api=api, attrsBase=ab, oAutoDetect=ad, oSlots=sl, oFrozen=fr,
                  body=[meth] if own else [], cfg=cfg, **{fkey: flag})


def block_alias():
    """a body entry that is the very object the bases provide under that name, for every group name (and next to
    an own or generated __eq__): own for detection, kept by identity and in force, in both builds"""
    for n, api, ad, sl, ab, mid, extra, hf in itertools.product(
            HIST_NAMES, APIS, OB3, OB3, ["none", "vanilla", "hooked"], [None, [], "same"], [[], ["__eq__"]],
            ["unset", "f"]):
        body = [n] + [e for e in extra if e != n]
        yield _mk("alias", api=api, oAutoDetect=ad, oSlots=sl, attrsBase=ab, plainMid=mid is not None,
                  baseDefines=[n] if mid == "same" else [], body=body, fUnsafeHash=hf, cfg={"alias": [n]})


def block_gss():
    yield from block_simple("gss", "fGss", GROUPS["gss"])


def block_match():
    for api, ad, ma, own, sl, fr, bd, ab in itertools.product(
            APIS, OB3, OB3, [[], ["__match_args__"]], OB3, [None, True], [[], ["__match_args__"]], ABASES):
        yield _mk("match", api=api, oAutoDetect=ad, oMatchArgs=ma, body=own, oSlots=sl, oFrozen=fr, baseDefines=bd,
                  attrsBase=ab)


def block_setattr():
    names = GROUPS["setattr"]
    for api, ad, fr, on, fv, own, sl, ab, bd in itertools.product(
            APIS, OB3, OB3, ONSET, [False, True], list(_subsets(names)), [True, False], ABASES,
            [None, [], ["__setattr__"], ["__delattr__"]]):
        yield _mk("setattr", api=api, oAutoDetect=ad, oFrozen=fr, onSetattr=on, fieldValidator=fv, body=own,
                  oSlots=sl, attrsBase=ab, plainMid=bd is not None, baseDefines=bd or [],
                  cfg={"base_slots": (len(own) + len(on)) % 2 == 0})


def block_exc():
    for api, ae, fe, fo, fh, own, sl, ad in itertools.product(
            APIS, OB3, ["unset", "t", "f"], ["unset", "t", "f", "non"], ["unset", "t", "f"],
            [[], ["__eq__"], ["__hash__"], ["__lt__"], ["__repr__", "__init__"]], [True, False], OB3):
        yield _mk("exc", api=api, oAutoExc=ae, fEq=fe, fOrder=fo, fUnsafeHash=fh, body=own, oSlots=sl, oAutoDetect=ad,
                  excBase=True)


def block_other():
    """names outside every group are never touched, whatever the options"""
    for api, ad, sl, fr, ab, k in itertools.product(APIS, OB3, OB3, OB3, ABASES, range(len(OTHER_NAMES))):
        own = [OTHER_NAMES[k], OTHER_NAMES[(k + 3) % len(OTHER_NAMES)], "__str__"]
        yield _mk("other", api=api, oAutoDetect=ad, oSlots=sl, oFrozen=fr, attrsBase=ab, body=own,
                  baseDefines=[OTHER_NAMES[(k + 5) % len(OTHER_NAMES)]])


BLOCKS = [block_repr, block_str, block_cmp, block_order_subsets, block_eq_inherit, block_hash, block_init,
          block_attrs_init, block_sub_attrs_init, block_field_opts, block_alias, block_gss,
          block_match, block_setattr, block_exc, block_other]


def random_case(rng):
    """cross-group combination: every flag drawn independently (mostly unset), several names in the body"""
    def flag():
        return rng.choice(["unset", "unset", "unset", "non", "t", "f"])

    def ob():
        return rng.choice([None, None, True, False])

    api = rng.choice(APIS)
    k = rng.choice([0, 1, 2, 3, 5, 8])
    body = rng.sample(BODY_NAMES, k)
    bd = rng.sample(BODY_NAMES, rng.choice([0, 0, 1, 3])) if rng.random() < 0.5 else []
    c = _mk("random", api=api, oAutoDetect=ob(), fRepr=flag(), fEq=flag(), fOrder=flag(),
            fCmp=rng.choice(["unset"] * 5 + ["non", "t", "f"]), fInit=flag(), fGss=flag(),
            fHash=rng.choice(["unset"] * 6 + ["non", "t", "f", "bad"]),
            fUnsafeHash=rng.choice(["unset"] * 6 + ["non", "t", "f", "bad"]),
            oStr=rng.choice([None, None, None, True, False]), oMatchArgs=ob(), oSlots=ob(), oFrozen=ob(),
            oCacheHash=rng.choice([None, None, None, None, True, False]), oAutoExc=ob(),
            onSetattr=rng.choice(["unset"] * 4 + ["non", "hook", "validate", "noOp"]),
            fieldValidator=rng.random() < 0.4, body=body, attrsBase=rng.choice(ABASES + ["none"]),
            plainMid=rng.random() < 0.3, baseDefines=bd, excBase=rng.random() < 0.15,
            cfg={"base_slots": rng.random() < 0.5, "cell": rng.random() < 0.4, "converter": rng.random() < 0.5,
                 "pre": rng.random() < 0.25, "post": rng.random() < 0.25,
                 "dflt": rng.choice(["none", "none", "value", "factory"]), "kw_only": rng.random() < 0.2,
                 "hist_base": rng.choice(["same", "same", "root"]),
                 "front": rng.choice(["stmt", "stmt", "alt"]),
                 "alias": [n for n in body if rng.random() < 0.3],
                 "fx": [o for o in FIELD_OPTS if rng.random() < 0.2],
                 **rng.choice([{}, {}, {"fy": [o for o in FIELD_OPTS if rng.random() < 0.4]},
                               {"redecl_y": [o for o in FIELD_OPTS if rng.random() < 0.4]}]),
                 "no_own_field": rng.random() < 0.25, "base_init": rng.choice(["gen", "gen", "flag_f", "own"]),
                 "base_pre": rng.random() < 0.25, "base_post": rng.random() < 0.25},
            history=[rng.choice([_opposite(body, False), _opposite(body, True),
                                 rng.sample(HIST_NAMES, rng.choice([0, 1, 3, 6]))])
                     for _ in range(rng.choice([0, 0, 1, 1, 2]))])
    return c


def gen_cases(tier, rng):
    if tier == "thorough":
        for blk in BLOCKS:
            yield from blk()
        for _ in range(30000):
            yield random_case(rng)
        return
    # quick: a seeded sample of every block, then cross-group combinations
    per_block = 520
    for blk in BLOCKS:
        _LAZY[0] = True
        try:
            recipes = list(blk())
        finally:
            _LAZY[0] = False
        if len(recipes) > per_block:
            recipes = rng.sample(recipes, per_block)
        for block, kw in recipes:
            yield _mk_real(block, **kw)
    for _ in range(4000):
        yield random_case(rng)


def shrink(case):
    base = default_case()
    body = case["body"]
    for i in range(len(body)):
        yield dict(case, body=body[:i] + body[i + 1:])
    bd = case["baseDefines"]
    for i in range(len(bd)):
        yield dict(case, baseDefines=bd[:i] + bd[i + 1:])
    hist = case.get("history") or []
    for i in range(len(hist)):
        yield dict(case, history=hist[:i] + hist[i + 1:])
    for i, hb in enumerate(hist):
        for j in range(len(hb)):
            yield dict(case, history=hist[:i] + [hb[:j] + hb[j + 1:]] + hist[i + 1:])
    for k, v in base.items():
        if k in ("body", "baseDefines", "cfg", "py310", "history"):
            continue
        if case[k] != v:
            c = dict(case, **{k: v})
            if k == "plainMid" and case["baseDefines"]:
                continue
            yield c
    for k in ("fx", "fy", "redecl_y"):
        v = (case.get("cfg") or {}).get(k)
        if v:
            for i in range(len(v)):
                yield dict(case, cfg=dict(case["cfg"], **{k: v[:i] + v[i + 1:]}))
        if k == "redecl_y" and v is not None:
            yield dict(case, cfg=dict(case["cfg"], redecl_y=None))
    if (case.get("cfg") or {}).get("base_init", "gen") != "gen":
        yield dict(case, cfg=dict(case["cfg"], base_init="gen"))
    for k in ("base_slots", "cell", "converter", "pre", "post", "kw_only", "no_own_field", "base_pre", "base_post"):
        if (case.get("cfg") or {}).get(k):
            yield dict(case, cfg=dict(case["cfg"], **{k: False}))
    if ((case.get("cfg") or {}).get("front") or "stmt") != "stmt":
        yield dict(case, cfg=dict(case["cfg"], front="stmt"))
    al = (case.get("cfg") or {}).get("alias") or []
    for i in range(len(al)):
        yield dict(case, cfg=dict(case["cfg"], alias=al[:i] + al[i + 1:]))
    if (case.get("cfg") or {}).get("dflt", "none") != "none":
        yield dict(case, cfg=dict(case["cfg"], dflt="none"))


def neighbours(case, rng):
    yield from shrink(case)
    for k in ("fRepr", "fEq", "fOrder", "fInit", "fGss"):
        for v in FLAGS4:
            if case[k] != v:
                yield dict(case, **{k: v})
    for k in ("oAutoDetect", "oSlots", "oFrozen", "oStr", "oMatchArgs"):
        for v in OB3:
            if case[k] != v:
                yield dict(case, **{k: v})
    for api in APIS:
        if api != case["api"] and (api == "attrS" or case["fCmp"] == "unset"):
            yield dict(case, api=api)
    for n in BODY_NAMES:
        if n not in case["body"]:
            yield dict(case, body=case["body"] + [n])
    for ab in ABASES:
        if ab != case["attrsBase"]:
            yield dict(case, attrsBase=ab)


LEVEL_TEXT = (
    "Lean theorems about an executable model of _determine_whether_to_implement, _determine_attrs_eq_order, define.wrap, "
    "the body of attrs.wrap (all groups, in code order, with its definition errors), _ClassBuilder.__init__/add_*, "
    "_patch_original_class and _create_slots_class (+ CPython's implicit __hash__ = None), for ARBITRARY cases: any "
    "combination of written flags (unset/None/True/False; hash also non-bool), any list of names bound in the class body, "
    "any base-defined names, both builds. Proved: C14_determine_table (decision function = documented table, any dict, any "
    "dunder tuple); C14_defaults_documented + C14_resolved_args (keyword defaults extracted from the source by T1 = the "
    "documented ones; rebuilt when the source changes); C14_table (if decorating did not raise, every name of every group "
    "holds the generated method iff the documented table says generate, else exactly what it held before) with corollaries "
    "C14_flag_obeyed, C14_autodetect, C14_defaults(+_rows), C14_str_default; C14_order_mirrors_eq; C14_attrs_init_iff; "
    "C14_match_args; C14_hash_table/_rows/_false_obeyed; C14_exc_ignored; C14_setattr; C14_inherited_irrelevant (base-defined "
    "names never count, only an inherited __setattr__ is looked at); C14_written_only_if_decided + "
    "C14_user_methods_kept_dict/_slots (frame theorems over arbitrary association lists: a key changes only if its group "
    "was decided, or it is a field / a key the slotted copy drops / the __setattr__ reset branch) and C14_user_methods_kept "
    "(case level, no exception: K8 is repaired, fixes/C14/K8.diff); C14_model_meets_spec (known c = [] for every case); "
    "C14_K8_repaired, C14_reset_still_happens (regression theorems on the former witness). The checks of attrs.wrap are proved "
    "to fire exactly on the documented error conditions (Proofs/C14Err). OBSERVED, not proved: that /repo behaves like the "
    "model -- differential correspondence comparing, for every watched name, what C.__dict__ holds (identity with the "
    "user's object -- functions, functions with a __class__ cell, classmethod/property/staticmethod objects, a tuple, aliases of "
    "inherited objects such as object.__hash__ / Base.__repr__ --, "
    "attrs-generated and passing a behaviour probe, None, object.__setattr__, frozen setattr/delattr, generated "
    "__match_args__) and the kind of definition error; thorough tier: exhaustive per-group blocks (about 2.5e5 cases) + 3e4 "
    "random cross-group cases; quick: 520 sampled cases per block + 4000 random. HISTORY: every class is decorated by a "
    "decorator OBJECT (attr.s(...), define(...), frozen(...) called once) that was first applied to 0, 1 or 2 other classes "
    "whose bodies bind other names (the complement of the observed class's group names, and a pseudo-random subset; below "
    "the same bases or below object); the model never reads the history (C14_history_irrelevant), so a decision that "
    "leaks from one decorated class into the next is a difference between code and model. Behaviour of generated methods is probed "
    "(repr string, ==/!=, ordering, hash equality, __init__ against reference semantics, __attrs_init__ against the generated "
    "__init__ of a twin class: outcome, callback trace, field values, exception args, hash cache, "
    "getstate/setstate + pickle round trip, hook runs on assignment), not modelled. No known deviation is "
    "listed: the former K8 witness and its slotted / plain-class-in-between / define(auto_detect=False) variants are corpus "
    "regression cases (corpus/C14/k8-*.json).")
